#!/venv/bin/python
"""markdown table of /verif/seeded/*/meta.json (for DESIGN.md 8.5)"""
import json, glob
print('| seed (property-name) | needs to manifest | demo clean/changed | unit tests with change | caught by | first violation kind |')
print('|---|---|---|---|---|---|')
for d in sorted(glob.glob('/verif/seeded/*/')):
    m = json.load(open(d + 'meta.json'))
    caught = [c['check'] for c in m['checks'] if c['violation_lines'] > 0]
    first = next((c['first'].split(' attrs=')[0] for c in m['checks'] if c['violation_lines'] > 0), '')
    print('| %s-%s | %s | %s/%s | %s | %s | %s |' % (
        m['property'], m['name'], m.get('needs_to_manifest', ''), m['demo_exit_on_clean_tree'],
        m['demo_exit_with_change'], m['unit_tests_with_change'].split(' in ')[0],
        ', '.join(caught) or '**not caught**', first))
