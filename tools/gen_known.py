#!/venv/bin/python
"""writes known_findings.json (committed; never written at run time by checks)"""
import json, os
here = os.path.dirname(os.path.dirname(os.path.abspath(__file__)))
F = []
def add(id_, props, kinds, match, what):
    for p in props:
        for k in kinds:
            F.append({'id': '%s/%s/%s' % (id_, p, k), 'property': p, 'kind': k,
                      'match': match, 'what': what})

IMAP = ['imap', 'imap_u']
add('KF-imap-multi-loss', ['C01', 'C04'],
    ['loss_not_reported_after_grace_period', 'job_never_resolved'],
    {'job_kind': IMAP, 'multi_loss': True, 'lane': 'sim'},
    'imap/imap_unordered with several parts lost at about the same time (two or more workers running parts of one imap die before the first loss has been reported): only the first dead owner is noted; the next lost part is looked at only when some other worker exits later (same root as KF-ack-after-reap: _join_exited_workers examines jobs only in a pass that reaped somebody), so its failure is late or, on a pool where nobody exits any more, never delivered')
add('KF-ack-after-reap', ['C01', 'C04'], ['job_never_resolved'],
    {'ack_after_reap': True, 'reaped_later': False, 'job_kind': ['apply', 'map', 'imap', 'imap_u'], 'lane': 'sim'},
    'worker death noticed (reaped) before its ACK was processed and no other worker exited afterwards: the job is never examined again')
add('KF-ack-after-reap', ['C01', 'C04'],
    ['loss_not_reported_after_grace_period', 'loss_message_wrong_status_or_job'],
    {'ack_after_reap': True, 'lane': 'sim'},
    'worker death noticed (reaped) before its ACK was processed: the job is examined again only when some other worker exits later, and is then reported with "exitcode 0" instead of the real status (_join_exited_workers only looks at jobs when it cleaned a worker; exit status of earlier reaped workers is forgotten)')
add('KF-send-failed-residue', ['C01'], ['job_cache_not_empty_at_quiescence'],
    {'send_failed': True, 'lane': ['sim', 'real']},
    'apply_async whose task could not be sent: the job is failed correctly but its cache entry is never removed (ApplyResult._set pops the entry only for accepted jobs)')
add('KF-send-failed-residue', ['C10'], ['slots_not_all_free_at_quiescence'],
    {'send_failed': True, 'lane': 'sim'},
    'apply_async with put-locks whose task could not be sent: the slot taken at submission is never given back (TaskHandler has no access to the semaphore)')

add('KF-close-stops-recycling', ['C07'], ['result_missing_or_wrong_after_join', 'join_slow', 'join_hung',
                                          'worker_process_left_after_join'],
    {'recycling': True, 'pending_at_close': True, 'lane': 'real'},
    'close() with maxtasksperchild while more work is queued than the live workers\' remaining quota: the supervisor stops at close() (its loop runs only while the pool is in RUN state), recycled workers are not replaced, the queued jobs never run and join() gives up 5 s after the last worker left')

add('KF-early-resolved-map-parts-at-close', ['C07'], ['join_slow'],
    {'failed_map_pending_at_close': True, 'lane': 'real'},
    'close() while chunks of a map that already failed (resolved by its first failing chunk and dropped from the cache) are still queued or running: the result handler leaves as soon as the cache is empty, nobody reads the results those chunks still produce, and their workers wait out the 30 s consumption guard before they exit, so join() takes 30 s longer')

add('KF-terminate-no-threads-idle', ['C08'], ['terminate_hung'],
    {'threads': False, 'idle_workers': True, 'lane': 'real', 'scenario': 'terminate'},
    'terminate() on a pool without helper threads (threads=False) while a worker is idle: _help_stuff_finish blocks forever acquiring the in-queue read lock, which an idle worker holds inside its blocking receive; the sentinels that would wake the worker are only sent later in _terminate_pool')

add('KF-ack-after-reap', ['C04', 'C01'], ['loss_never_reported', 'loss_message_wrong_status', 'loss_reported_late'],
    {'ack_after_reap': True, 'lane': 'real'},
    'worker death noticed (reaped) before its ACK was processed (result-handler thread delayed): the job is examined again only when some other worker exits later, and is then reported with "exitcode 0" (real-pool occurrence of KF-ack-after-reap)')

add('KF-idle-lock-holder-killed', ['C09'],
    ['job_failed_after_idle_worker_died', 'pool_hung_while_recycling', 'pool_size_not_restored'],
    {'hard_kill_of_lock_holder': True, 'lane': 'real', 'scenario': 'kill_idle'},
    'an idle worker killed by an unhandled signal (KILL, SEGV, ...) while it sits in the blocking receive holding the task queue\'s read lock: the POSIX semaphore is never released, every other worker blocks on it and no later job is served')

add('KF-proxy-idset-alias', ['C20'], ['lock_ownership_lost_after_alias_drop'],
    {'scenario': 'alias_drop_while_held'},
    'dropping one of two proxies to the same referent discards the id from the per-thread id set (a set, not a count), the thread\'s connection is closed and the server thread owning a held RLock/Condition exits: release() then fails with "cannot release un-acquired lock"')
add('KF-proxy-method-on-rebuilt-proxy', ['C20'],
    ['proxy_returning_method_fails_on_rebuilt_proxy', 'server_object_leaked_without_proxy'],
    {'scenario': 'proxy_returning_method_on_rebuilt_proxy'},
    'a method registered with method_to_typeid called on an unpickled/child proxy (whose _manager is None) raises AttributeError in the #PROXY branch of _callmethod after the server already created the result, which then stays in the server without any proxy')

add('KF-forkserver-concurrent-poll', ['C19'],
    ['exitcode_corrupted_by_concurrent_poll', 'poll_raised_during_concurrent_join'],
    {'method': 'forkserver', 'phase': 'concurrent_pollers'},
    'forkserver Popen.poll is not safe against several parent threads polling one Process: two threads see the sentinel readable, one reads the status, the other gets EOF and overwrites returncode with 255 (even after a successful join); a concurrent is_alive()/exitcode can raise ValueError on the closed sentinel (same code as CPython)')

add('KF-slot-leak-late-result', ['C10'], ['slots_not_all_free_at_quiescence'],
    {'late_result_after_pool_failure': True, 'send_failed': False, 'lane': 'sim'},
    'put-lock slot leaked when a job is failed by the pool (hard limit, lost worker) although its result was already on the wire and the same worker goes on to lose a second job: the late result is ignored without releasing (the job left the cache) and the single worker exit releases only one of the two slots')

fixed = json.load(open(here + '/known_fixed.json')) if os.path.exists(here + '/known_fixed.json') else []
json.dump({'findings': F, 'fixed': fixed}, open(here + '/known_findings.json', 'w'), indent=1)
print(len(F), 'finding keys;', len(fixed), 'fixed entries')
