#!/venv/bin/python
import json, sys
for p in sys.argv[1:]:
    d = json.load(open('/verif/evidence/%s.json' % p))
    c = d['coverage']
    print(p, 'eval', c['evaluations'], 'distinct', c['distinct_nontrivial'], 'wall', d['wall_s'], 'missed', c['reach_floors_missed'], 'unmon', c['unmonitored'])
    fl = c['reach_floors']
    for k, v in c['counters'].items():
        print('   %-45s %8d %s' % (k, v, ('floor %d' % fl[k]) if k in fl else ''))
