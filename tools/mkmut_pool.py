import subprocess, os, sys, difflib
REPO='/repo'
M = []
def mut(name, path, old, new, count=1):
    M.append((name, path, old, new, count))

P='billiard/pool.py'; C='billiard/common.py'
# ---- C01
mut('c01_s1_no_keyerror_guard_ready', P, """            try:
                item = cache[job]
            except KeyError:
                return
""", """            item = cache.get(job) or next(iter(cache.values()), None)
            if item is None:
                return
""")
mut('c01_s2_no_cache_pop_in_set', P, """            if self._accepted:
                # if not accepted yet, then the set message
                # was received before the ack, which means
                # the ack will remove the entry.
                self._cache.pop(self._job, None)
""", """            pass
""")
mut('c01_s3_senderr_wrong_key', P, "                        job, ind = task[1][:2]\n", "                        job, ind = task[1][0] - 1, task[1][1]\n")
mut('c01_s4_lost_marks_ready_jobs', P, """        for job in [job for job in list(self._cache.values())
                    if not job.ready() and job._worker_lost]:""", """        for job in [job for job in list(self._cache.values())
                    if job._worker_lost]:""")
mut('c01_s5_no_single_assignment', P, """            if self._event.is_set():
                # already resolved: the first outcome stands (the
                # supervisor, the time-limit scanner and the result handler
                # can all try to resolve the same job).
                return
""", "")
mut('c01_s6_ack_keyerror_unguarded', P, """            except (KeyError, AttributeError):
                # Object gone or doesn't support _ack (e.g. IMAPIterator).
                pass""", """            except AttributeError:
                # Object gone or doesn't support _ack (e.g. IMAPIterator).
                pass""")
# ---- C04
mut('c04_s1_grace_lt', P, "            if now - lost_time > job._lost_worker_timeout:", "            if now - lost_time < job._lost_worker_timeout:")
mut('c04_s2_grace_ignored', P, "            if now - lost_time > job._lost_worker_timeout:", "            if now - lost_time > 0:")
mut('c04_s3_acked_by_gone_all_pids', P, "                     if pid in cleaned or pid not in all_pids),", "                     if pid in cleaned or pid in all_pids),")
mut('c04_s4_exitcode_lost', P, "                        exitcode = exitcodes.get(acked_by_gone) or 0", "                        exitcode = 0")
mut('c04_s5_stale_owner_map', P, """            for j in range(i * self._chunksize,
                           min((i + 1) * self._chunksize, self._length)):
                self._worker_pid[j] = None
""", "")
mut('c04_s6_first_detection_not_kept', P, """        if not job._worker_lost:
            # keep the first detection: reaping other workers later must
            # not restart the grace period or forget the exit status.
            job._worker_lost = (monotonic(), exitcode)""", """        job._worker_lost = (monotonic(), exitcode)""")
mut('c04_s7_human_status_sign', C, "    if (status or 0) < 0:", "    if (status or 0) < -9:")
# ---- C05
mut('c05_s1_precedence_swapped', P, """                hard_timeout = job._timeout
                if hard_timeout is None:
                    hard_timeout = t_hard""", """                hard_timeout = t_hard
                if hard_timeout is None:
                    hard_timeout = job._timeout""")
mut('c05_s2_ready_early_return_removed', P, """    def on_hard_timeout(self, job):
        if job.ready():
            return
""", """    def on_hard_timeout(self, job):
""")
mut('c05_s3_kill_without_term', P, """            else:
                worker.terminate()
        except OSError:
            pass
        else:
            if worker._popen.wait(timeout=0.1):
                return""", """            else:
                pass
        except OSError:
            pass
        else:
            if worker._popen.wait(timeout=0.1):
                return""")
mut('c05_s4_trywaitkill_skips_kill', P, """        debug('timeout: TERM timed-out, now sending KILL to %s', worker._name)
        try:""", """        debug('timeout: TERM timed-out, now sending KILL to %s', worker._name)
        return
        try:""")
mut('c05_s5_scan_map_again', P, """                if isinstance(job, MapResult) or \\
                        not isinstance(job, ApplyResult):""", """                if not isinstance(job, ApplyResult):""")
mut('c05_s6_timed_out_gt_soft_only', P, "            if monotonic() >= start + timeout:", "            if monotonic() >= start + timeout + 1.5:")
mut('c05_s7_apply_limit_precedence', P, "        timeout = timeout or self.timeout\n", "        timeout = self.timeout or timeout\n")
# ---- C06
mut('c06_s1_dirty_add_removed', P, "                    on_soft_timeout(job)\n                    dirty.add(i)", "                    on_soft_timeout(job)")
mut('c06_s2_dirty_rebuilt_empty', P, "                dirty = set(k for k in dirty if k in cache)", "                dirty = set()")
mut('c06_s3_elif_to_if', P, "                elif i not in dirty and _timed_out(ack_time, soft_timeout):", "                if i not in dirty and _timed_out(ack_time, soft_timeout):")
mut('c06_s4_soft_precedence_swapped', P, """                soft_timeout = job._soft_timeout
                if soft_timeout is None:
                    soft_timeout = t_soft""", """                soft_timeout = t_soft
                if soft_timeout is None:
                    soft_timeout = job._soft_timeout""")
mut('c06_s5_signal_without_process_check', P, """        process, _index = self._process_by_pid(job._worker_pid)
        if not process:
            return

        # Run timeout callback
        job.handle_timeout(soft=True)""", """        # Run timeout callback
        job.handle_timeout(soft=True)""")
mut('c06_s6_callback_reports_hard', P, "                timeout=self._soft_timeout if soft else self._timeout,", "                timeout=self._timeout if soft else self._soft_timeout,")
# ---- C09
mut('c09_s1_repopulate_off_by_one', P, "        for i in range(self._processes - len(self._pool)):\n            if self._state != RUN:", "        for i in range(self._processes - len(self._pool) + 1):\n            if self._state != RUN:")
mut('c09_s2_avail_index_used', P, "        return next(i for i in range(self._processes) if i not in indices)", "        return next(i for i in range(self._processes) if i in indices or True)")
mut('c09_s3_quota_le', P, "            while maxtasks is None or (maxtasks and completed < maxtasks):", "            while maxtasks is None or (maxtasks and completed <= maxtasks):")
mut('c09_s4_no_wait_consumption', P, "            if self.on_ready_counter.value >= completed:", "            if True:")
mut('c09_s5_grow_no_target', P, "        for i in range(n):\n            self._processes += 1", "        for i in range(n):\n            self._processes += 0")
mut('c09_s6_credit_first_owner', P, "                worker_pid = item._worker_pid_for(i)", "                worker_pid = next(iter(item.worker_pids()), None)")
mut('c09_s7_recycle_status', P, "                return EX_RECYCLE if completed == maxtasks else EX_FAILURE", "                return EX_FAILURE if completed == maxtasks else EX_RECYCLE")
# ---- C10
mut('c10_s1_release_uncapped', P, """                if self._value < self._initial_value:
                    self._value += 1
                    cond.notify_all()""", """                if True:
                    self._value += 1
                    cond.notify_all()""")
mut('c10_s2_clear_le', P, "            while self._value < self._initial_value:\n                _Semaphore.release(self)", "            while self._value <= self._initial_value:\n                _Semaphore.release(self)")
mut('c10_s3_grow_no_notify', P, """                self._initial_value += 1
                self._value += 1
                self._cond.notify()""", """                self._initial_value += 1
                self._value += 1""")
mut('c10_s4_release_every_ready', P, """            if not item.ready():
                if putlock is not None:
                    putlock.release()""", """            if putlock is not None:
                putlock.release()
                putlock.release()""")
mut('c10_s5_no_release_for_replaced', P, """        for i in range(len(joined)):
            if self._putlock is not None:
                self._putlock.release()""", """        for i in range(len(joined)):
            pass""")
mut('c10_s6_shrink_bound_only', P, """    def shrink(self):
        self._initial_value -= 1
        self.acquire()""", """    def shrink(self):
        self._initial_value -= 1""")
mut('c10_s7_no_release_on_ready', P, """            if not item.ready():
                if putlock is not None:
                    putlock.release()""", """            if item.ready():
                if putlock is not None:
                    putlock.release()""")
# ---- C11
mut('c11_s1_window_gt', C, "        if self.T and now - self.T >= self.maxT:", "        if self.T and now - self.T > self.maxT:")
mut('c11_s2_budget_gt', C, "        elif self.maxR and self.R >= self.maxR:", "        elif self.maxR and self.R > self.maxR:")
mut('c11_s3_window_not_reopened', C, "            self.T, self.R = now, 0", "            self.R = 0")
mut('c11_s4_no_reset_on_ack', P, "        def on_ack(job, i, time_accepted, pid, synqW_fd):\n            restart_state.R = 0", "        def on_ack(job, i, time_accepted, pid, synqW_fd):\n            pass")
mut('c11_s5_step_for_clean_exits', P, "                if exitcodes and exitcodes[i] not in (EX_OK, EX_RECYCLE):", "                if exitcodes and exitcodes[i] not in (EX_OK,):")
mut('c11_s6_step_after_fork', P, """            try:
                if exitcodes and exitcodes[i] not in (EX_OK, EX_RECYCLE):
                    self.restart_state.step()
            except IndexError:
                self.restart_state.step()
            self._create_worker_process(self._avail_index())""", """            self._create_worker_process(self._avail_index())
            try:
                if exitcodes and exitcodes[i] not in (EX_OK, EX_RECYCLE):
                    self.restart_state.step()
            except IndexError:
                self.restart_state.step()""")
mut('c11_s7_window_forgotten_on_reset', C, "            self.T, self.R = now, 0", "            self.T, self.R = None, 0")
# ---- C07 / C08 (real lanes)
mut('c07_s1_sentinel_count', P, "            for p in pool:\n                put(None)", "            for p in pool[1:]:\n                put(None)")
mut('c07_s2_result_handler_leaves_early', P, "        while cache and self._state != TERMINATE:\n            if check_timeouts is not None:", "        while False and cache and self._state != TERMINATE:\n            if check_timeouts is not None:")
mut('c07_s3_accept_after_close', P, "        if self._state != RUN:\n            return\n        soft_timeout = soft_timeout or self.soft_timeout", "        if self._state == TERMINATE:\n            return\n        soft_timeout = soft_timeout or self.soft_timeout")
mut('c07_s4_workers_not_joined', P, """        for i, p in enumerate(self._pool):
            debug('joining worker %s/%s (%r)', i + 1, len(self._pool), p)
            if p._popen is not None:  # process started?
                p.join()""", """        for i, p in enumerate(self._pool[1:]):
            debug('joining worker %s/%s (%r)', i + 1, len(self._pool), p)
            if p._popen is not None:  # process started?
                p.join()""")
mut('c08_s1_exit_request_as_task_error', P, """                        if _should_have_exited[0]:
                            # termination signal received while running
                            # the task: exit instead of reporting the
                            # signal's SystemExit as the task's error.
                            raise
""", "")
mut('c08_s2_no_on_exit', P, "        if self.on_exit is not None:\n            self.on_exit(pid, exitcode)", "        if self.on_exit is not None and exitcode in (0, 155):\n            self.on_exit(pid, exitcode)")
mut('c08_s3_join_before_signal', P, """            for p in pool:
                if p._is_alive():
                    p.terminate()
""", """            for p in pool[:1]:
                if p._is_alive():
                    p.terminate()
""")
mut('c08_s4_handler_not_installed', C, "    for sig in TERMSIGS_FULL if full else TERMSIGS_DEFAULT:", "    for sig in TERMSIGS_DEFAULT if full else TERMSIGS_DEFAULT:")
mut('c08_s5_terminate_job_not_marked', P, "                proc._controlled_termination = True\n                proc._job_terminated = True", "                proc._controlled_termination = True")

out='/tmp/vmut/p'
ok=0
for name, path, old, new, count in M:
    src=open(os.path.join(REPO, path)).read()
    if src.count(old) < 1:
        print('NOMATCH', name); continue
    dst=src.replace(old, new, count)
    diff=''.join(difflib.unified_diff(src.splitlines(True), dst.splitlines(True), 'a/'+path, 'b/'+path))
    open(os.path.join(out, name+'.diff'),'w').write(diff); ok+=1
print(ok, 'mutants written of', len(M))
