#!/bin/bash
# usage: tools/mut.sh <name> <python-expr-edit-script-file | patch.diff> <PROP> [more props...]
# Makes a scratch copy of /repo's billiard under /tmp/vmut/<name>, applies the
# patch (git apply) there, runs ./check with VERIF_REPO pointing at it, removes it.
set -u
name=$1; patch=$2; shift 2
d=/tmp/vmut/$name
rm -rf "$d"; mkdir -p "$d"
rsync -a --exclude .git --exclude __pycache__ /repo/ "$d"/
( cd "$d" && git init -q . 2>/dev/null; git apply --unsafe-paths -p1 "$patch" ) || { echo "PATCH FAILED"; rm -rf "$d"; exit 9; }
for p in "$@"; do
  VERIF_NO_EVIDENCE=1 VERIF_REPO="$d" /verif/check "$p" --tier "${TIER:-quick}" 2>&1 | grep -E "VIOLATION|KNOWN-FINDING|INCONCLUSIVE|tier=" | cut -c1-300 | head -${LINES_MAX:-8}
  echo "rc[$p]=${PIPESTATUS[0]}"
done
rm -rf "$d"
