#!/opt/veriftools/pyvenv/bin/python
"""validate MANIFEST.json and evidence/*.json against the given schemas"""
import json, sys, glob, os
import jsonschema
here = os.path.dirname(os.path.dirname(os.path.abspath(__file__)))
ok = True
def check(path, schema):
    global ok
    try:
        jsonschema.validate(json.load(open(path)), json.load(open(schema)))
        print('ok  ', path)
    except Exception as e:
        ok = False
        print('FAIL', path, str(e)[:400])
if os.path.exists(here + '/MANIFEST.json'):
    check(here + '/MANIFEST.json', '/root/.vp/MANIFEST.schema.json')
for p in sorted(glob.glob(here + '/evidence/*.json')):
    check(p, '/root/.vp/EVIDENCE.schema.json')
sys.exit(0 if ok else 1)
