#!/venv/bin/python
"""(re)generate /verif/MANIFEST.json from the check modules that exist"""
import importlib, json, os, sys
here = os.path.dirname(os.path.dirname(os.path.abspath(__file__)))
sys.path.insert(0, here)
props = [json.loads(l) for l in open(here + '/properties.jsonl')]
checks, na = [], []
for p in props:
    pid = p['id']
    try:
        m = importlib.import_module('vmon.checks.%s' % pid.lower())
    except ModuleNotFoundError:
        na.append({'property_id': pid,
                   'reason': 'check not built yet (work in progress; see DESIGN.md section 3)'})
        continue
    checks.append({
        'property_id': pid,
        'quick_cmd': './check %s --tier quick' % pid,
        'thorough_cmd': './check %s --tier thorough' % pid,
        'evidence_file': 'evidence/%s.json' % pid,
        'replay_cmd_template': './check %s --replay {path}' % pid,
        'engine': 'vmon',
        'level_claimed': {
            'category': m.LEVEL,
            'text': getattr(m, 'LEVEL_TEXT', ' '.join(m.__doc__.split())[:1400]),
            'design_ref': 'DESIGN.md section 3, %s' % pid,
        },
        'level_note': getattr(m, 'LEVEL_NOTE', '; '.join(getattr(m, 'ASSUMPTIONS', []))),
        'technique': getattr(m, 'TECHNIQUE', 'runtime monitoring: oracle over executions of the real code'),
    })
manifest = {
    'version': 1,
    'setup_cmd': 'cd /verif && ./setup.sh',
    'hooks': {
        'guard': 'BILLIARD_VERIF',
        'enable': 'no source hooks: BILLIARD_VERIF=1 only switches on the harness-side monitors (wrappers installed from /verif at run time); checks import billiard from /repo working tree',
        'baseline_off_cmd': 'cd /repo && /venv/bin/python -m pytest -ra -q -p no:cacheprovider --timeout=900 --continue-on-collection-errors',
        'source_commits': json.load(open(here + '/hooks.json'))['source_commits'] if os.path.exists(here + '/hooks.json') else [],
        'add_only': True,
    },
    'engines': [{
        'name': 'vmon', 'path': 'vmon/',
        'serves_properties': [c['property_id'] for c in checks],
        'kind_free_text': 'runtime monitoring harness: drives real billiard code (in-process, scripted-worker SIM, real pools, isolated workers) under seeded hostile workloads; oracles = reference models, provenance/conservation over unique tags, invariants at hooks',
    }],
    'checks': checks,
    'notes': 'Exit codes: 0 held on what was observed, 1 VIOLATION, 2 inconclusive (watchdog / reach floor missed). Known findings: known_findings.json (keyed by mechanism).',
    'not_applicable': na,
}
json.dump(manifest, open(here + '/MANIFEST.json', 'w'), indent=1)
print('checks:', [c['property_id'] for c in checks])
print('not_applicable:', [n['property_id'] for n in na])
