#!/bin/bash
# usage: tools/verify_seed.sh <PID> <name> [checks...]
# Verifies an independently produced breaking change kept under /tmp/seed/<PID>/<name>/
# (patch.diff + demo) in a scratch copy of /repo, runs the given checks against it, and
# files it under /verif/seeded/<PID>-<name>/ with meta.json.
set -u
pid=$1; name=$2; shift 2
src=/tmp/seed/${SEEDTAG:-$pid}/$name
dst=/verif/seeded/$pid-$name
w=/tmp/vseed/$pid-$name
rm -rf "$w"; mkdir -p "$w" "$dst"
rsync -a --exclude .git --exclude __pycache__ /repo/ "$w"/
demo=$(ls $src | grep -E '^(demo|test_demo).*\.py$' | head -1)
cp $src/patch.diff $src/$demo $dst/ 2>/dev/null; cp $src/notes.md $dst/ 2>/dev/null
run_demo() { ( cd $src && PYTHONPATH="$w:$src" PYTHONDONTWRITEBYTECODE=1 timeout 300 setsid /venv/bin/python $demo > "$w.demo.$1.txt" 2>&1; echo $? ); }
d0=$(run_demo clean)
( cd "$w" && git init -q . && git apply --unsafe-paths -p1 $src/patch.diff ) || { echo "PATCH FAILED"; exit 9; }
/venv/bin/python -c "import sys; sys.path.insert(0,'$w'); import billiard.pool, billiard.managers, billiard.connection" || { echo "IMPORT FAILED"; exit 8; }
d1=$(run_demo mutant)
( cd "$w" && PYTHONPATH="$w" timeout 1200 /venv/bin/python -m pytest -q -p no:cacheprovider t/unit > "$w.tests.txt" 2>&1 ); trc=$?
tsum=$(tail -1 "$w.tests.txt")
res=""
for p in "$@"; do
  out=$(VERIF_NO_EVIDENCE=1 VERIF_REPO="$w" /verif/check "$p" --tier quick 2>&1 | grep -E "VIOLATION|INCONCLUSIVE|tier=" | grep -v "^KNOWN" | cut -c1-260)
  rc=$(echo "$out" | grep -c VIOLATION)
  first=$(echo "$out" | grep -m1 VIOLATION | sed 's/.*kind=//' | cut -c1-160)
  res="$res{\"check\":\"$p\",\"violation_lines\":$rc,\"first\":$(/venv/bin/python -c "import json,sys;print(json.dumps(sys.argv[1]))" "$first")},"
done
cat > $dst/meta.json <<EOT
{"property": "$pid", "name": "$name",
 "demo": "$demo", "demo_exit_on_clean_tree": $d0, "demo_exit_with_change": $d1,
 "unit_tests_with_change": $(/venv/bin/python -c "import json,sys;print(json.dumps(sys.argv[1]))" "$tsum"), "unit_tests_rc": $trc,
 "breaks_property": "$pid",
 "needs_to_manifest": $(/venv/bin/python -c "import json,sys;print(json.dumps(json.load(open('/verif/tools/seed_needs.json')).get(sys.argv[1],'see notes.md')))" "$pid-$name"),
 "ran": "tools/verify_seed.sh $pid $name $*",
 "checks": [${res%,}]}
EOT
cat $dst/meta.json
rm -rf "$w" "$w".demo.*.txt "$w.tests.txt"
