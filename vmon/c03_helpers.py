"""C03 helpers: code that must be importable by forked / spawned worker
processes and by the REAL-lane scenario host (python -m vmon.realchild):
the task function executed by the real Worker, the exit callback, and the
parent-side scenarios on a real Pool (plain pool: accept/result callback order
and ownership; handshake pool: a Pool subclass supplying a syn-queue per
worker and send_ack, jobs cancelled before acceptance)."""
import os
import sys
import threading
import time

from vmon.evlog import log


class TaskError(Exception):
    pass


class OddBase(BaseException):
    """a BaseException subclass of the task's own"""


def _nest(obj, depth, tag):
    """wrap obj at a chosen nesting depth"""
    if depth <= 0:
        return obj
    if depth == 1:
        return [tag, obj]
    if depth == 2:
        return {'tag': tag, 'in': [obj]}
    return ('v', tag, {'k': [(obj,)], 'pad': list(range(5))})


def _unpicklable(what):
    if what == 'lambda':
        return lambda: 0
    if what == 'gen':
        return (x for x in range(3))
    if what == 'lock':
        return threading.Lock()
    if what == 'local':
        class Local(object):
            pass
        return Local()
    raise RuntimeError('harness: unknown unpicklable %r' % (what,))


EXC = {'KeyError': KeyError, 'ValueError': ValueError, 'TaskError': TaskError,
       'ZeroDivisionError': ZeroDivisionError,
       'KeyboardInterrupt': KeyboardInterrupt, 'GeneratorExit': GeneratorExit,
       'SystemExit': SystemExit, 'OddBase': OddBase}


def task(desc):
    """executed by the worker under test; logs the fact that it ran *before*
    doing anything (the log is the side effect the oracles look for)"""
    tag, kind = desc['tag'], desc['kind']
    log('task_start', tag=tag, tk=kind)
    try:
        if kind == 'ok':
            return ['v', tag]
        if kind == 'none':
            return None
        if kind == 'sleep':
            time.sleep(desc.get('dur', 0.01))
            return ['v', tag]
        if kind == 'big':
            return ['v', tag, 'x' * desc.get('size', 200000)]
        if kind == 'gate':
            t_end = time.monotonic() + desc.get('maxwait', 60.0)
            while not os.path.exists(desc['gate']) and time.monotonic() < t_end:
                time.sleep(0.005)
            return ['v', tag, os.path.exists(desc['gate'])]
        if kind == 'pid':
            if desc.get('dur'):
                time.sleep(desc['dur'])
            return ['pid', tag, os.getpid()]
        if kind in ('exc', 'base'):
            raise EXC[desc['exc']](tag)
        if kind == 'sysexit':
            sys.exit(desc.get('code', 3))
        if kind == 'unpick':
            return _nest(_unpicklable(desc['what']), desc.get('depth', 0), tag)
        if kind == 'exc_unpick':
            raise ValueError(tag, _unpicklable(desc['what']))
        raise RuntimeError('harness: unknown task kind %r' % (kind,))
    finally:
        log('task_end', tag=tag)


def on_exit(pid, exitcode):
    log('on_exit', wpid=pid, exitcode=exitcode)


def pool_on_exit(pid, exitcode):
    log('on_process_exit', wpid=pid, exitcode=exitcode)


# --------------------------------------------------------------------------
# REAL lane scenarios (run in a host process of their own by vmon.real)
# --------------------------------------------------------------------------

def _mk_pool_class():
    from billiard import pool as bpool

    class SynPool(bpool.Pool):
        """the extension points billiard offers for the handshake: one
        syn-queue per worker (get_process_queues) and send_ack"""

        def get_process_queues(self):
            synq = self._ctx.SimpleQueue()
            self._c03_last_synq = synq
            return self._inqueue, self._outqueue, synq

        def _process_register_queues(self, worker, queues):
            worker._c03_synq = queues[2]

        def send_ack(self, response, pid, job, fd):
            log('send_ack', response=response, wpid=pid, job=job, fd=fd)
            proc, _ = self._process_by_pid(pid)
            if proc is None:
                log('send_ack_no_proc', wpid=pid, job=job)
                return
            proc._c03_synq.put((response, (pid, job)))

    return SynPool


def _outcome(res, timeout):
    from vmon.real import exc_name
    try:
        v = res.get(timeout)
        return ['ok', v]
    except BaseException as e:           # noqa
        n, a = exc_name(e)
        return ['exc', n, repr(a)[:200]]


def _mk_cb(cbs, handles, tag, which):
    def cb(*a):
        ent = {'t': time.monotonic(), 'tag': tag, 'which': which,
               'thread': threading.current_thread().name}
        h = handles.get(tag)
        if which == 'accept':
            ent['pid'], ent['time_accepted'] = a[0], a[1]
        elif which == 'ok':
            ent['value'] = a[0]
        else:
            from vmon.real import exc_name
            ent['exc'] = exc_name(getattr(a[0], 'exception', a[0]))[0]
        if h is not None:
            ent['worker_pids'] = list(h.worker_pids())
            ent['accepted'] = h.accepted()
            ent['ready'] = h.ready()
        else:
            ent['no_handle_yet'] = True
        cbs.append(ent)
        log('cb', tag=tag, which=which)
    return cb


def _submit(P, handles, sub, cbs, tag, desc, lock):
    # the callbacks look the handle up: publish it under a lock the callbacks
    # do not need (they only read the dict; a miss is recorded, not fatal)
    t0 = time.monotonic()
    h = P.apply_async(task, (desc,), callback=_mk_cb(cbs, handles, tag, 'ok'),
                      error_callback=_mk_cb(cbs, handles, tag, 'err'),
                      accept_callback=_mk_cb(cbs, handles, tag, 'accept'))
    handles[tag] = h
    sub[tag] = {'t_submit': t0, 'job': h._job}
    return h


def _final(handles, sub):
    for tag, h in handles.items():
        sub[tag]['final_ready'] = h.ready()
        sub[tag]['final_accepted'] = h.accepted()
        sub[tag]['final_worker_pids'] = list(h.worker_pids())
        sub[tag]['time_accepted'] = getattr(h, '_time_accepted', None)
        sub[tag]['t_done'] = time.monotonic()


def sc_plain(params, obs, save):
    """plain pool: accept callback / result callback order, ownership"""
    import billiard
    from billiard import pool as bpool
    wd = os.environ.get('VERIF_WORKDIR') or '/tmp'
    gate = os.path.join(wd, 'gate-%d-%d' % (os.getpid(), int(time.monotonic() * 1e6)))
    ctx = billiard.get_context(params.get('method', 'fork'))
    P = bpool.Pool(params['nproc'], context=ctx, on_process_exit=pool_on_exit)
    obs['initial_pids'] = [w.pid for w in P._pool]
    cbs, handles, sub = [], {}, {}
    gated = 0
    for j in params['jobs']:
        d = dict(j['desc'])
        if d['kind'] == 'gate':
            d['gate'] = gate
            gated += 1
        _submit(P, handles, sub, cbs, j['tag'], d, None)
        if j.get('pause'):
            time.sleep(j['pause'])
    if gated:
        # sample ownership while gated jobs are in flight
        want = min(gated, params['nproc'])
        t_end = time.monotonic() + 20
        while time.monotonic() < t_end:
            acc = [t for t, h in handles.items() if h.accepted() and not h.ready()]
            if len(acc) >= want:
                break
            time.sleep(0.01)
        obs['inflight_samples'] = [
            {'tag': t, 'accepted': h.accepted(), 'ready': h.ready(),
             'worker_pids': list(h.worker_pids()), 't': time.monotonic()}
            for t, h in list(handles.items())]
        time.sleep(params.get('gate_delay', 0.05))
    log('gate_open')
    open(gate, 'w').close()
    outs = {}
    deadline = time.monotonic() + 45
    for tag, h in handles.items():
        outs[tag] = _outcome(h, max(0.5, deadline - time.monotonic()))
    _final(handles, sub)
    obs['outcomes'] = outs
    obs['sub'] = sub
    save()
    # map job: ownership per element while the first element of each chunk is gated
    m = params.get('map')
    if m:
        gate2 = gate + '.map'
        descs = [{'tag': 'm%d' % i, 'kind': 'gate', 'gate': gate2, 'maxwait': 40.0}
                 for i in range(m['n'])]
        mr = P.map_async(task, descs, chunksize=m['chunk'])
        nchunks = (m['n'] + m['chunk'] - 1) // m['chunk']
        inflight = min(nchunks, params['nproc'])
        t_end = time.monotonic() + 20
        while time.monotonic() < t_end:
            if sum(1 for c in range(nchunks) if mr._accepted[c * m['chunk']]) >= inflight:
                break
            time.sleep(0.01)
        obs['map_sample'] = {'worker_pid': list(mr._worker_pid), 'accepted': list(mr._accepted),
                             'worker_pids': list(mr.worker_pids()), 't': time.monotonic(),
                             'chunk': m['chunk'], 'n': m['n'], 'inflight': inflight}
        log('map_gate_open')
        open(gate2, 'w').close()
        obs['map_outcome'] = _outcome(mr, 60)
        obs['map_final_worker_pids'] = list(mr.worker_pids())
    obs['cbs'] = cbs
    save()
    P.close()
    P.join()
    obs['joined'] = True


def sc_synack(params, obs, save):
    """handshake pool: jobs cancelled before acceptance are refused"""
    import billiard
    SynPool = _mk_pool_class()
    wd = os.environ.get('VERIF_WORKDIR') or '/tmp'
    gate = os.path.join(wd, 'gate-%d-%d' % (os.getpid(), int(time.monotonic() * 1e6)))
    ctx = billiard.get_context('fork')
    P = SynPool(params['nproc'], maxtasksperchild=params.get('maxtasks'), context=ctx,
                synack=True, on_process_exit=pool_on_exit)
    obs['initial_pids'] = [w.pid for w in P._pool]
    cbs, handles, sub = [], {}, {}
    blockers = []
    # 1. occupy every worker with a gated job, so that what follows queues up
    for b in range(params['nproc']):
        tag = 'blk%d' % b
        d = {'tag': tag, 'kind': 'gate', 'gate': gate, 'maxwait': 40.0}
        blockers.append(_submit(P, handles, sub, cbs, tag, d, None))
        sub[tag]['cancel'] = None
    t_end = time.monotonic() + 30
    while time.monotonic() < t_end and not all(h.accepted() for h in blockers):
        time.sleep(0.005)
    obs['blockers_accepted'] = all(h.accepted() for h in blockers)
    # 2. queue the jobs; cancel the seeded subset *before* any worker is free
    for j in params['jobs']:
        _submit(P, handles, sub, cbs, j['tag'], dict(j['desc']), None)
        sub[j['tag']]['cancel'] = j.get('cancel')
    for j in params['jobs']:
        if j.get('cancel') == 'before':
            log('cancel', tag=j['tag'])
            handles[j['tag']]._cancel()
            sub[j['tag']]['t_cancel'] = time.monotonic()
    time.sleep(params.get('settle', 0.05))
    log('gate_open')
    open(gate, 'w').close()
    # 3. late cancellations: after acceptance has been observed
    late = [j for j in params['jobs'] if j.get('cancel') == 'after_accept']
    t_end = time.monotonic() + 40
    while late and time.monotonic() < t_end:
        for j in list(late):
            h = handles[j['tag']]
            if h.accepted():
                log('cancel_late', tag=j['tag'])
                h._cancel()
                sub[j['tag']]['t_cancel'] = time.monotonic()
                late.remove(j)
        time.sleep(0.002)
    # 4. wait for everything that must resolve
    outs = {}
    deadline = time.monotonic() + 45
    for tag in handles:
        if sub[tag].get('cancel') != 'before':
            outs[tag] = _outcome(handles[tag], max(0.5, deadline - time.monotonic()))
    # the refused jobs: wait until each was answered, then give a result
    # every chance to show up
    refused = [t for t in handles if sub[t].get('cancel') == 'before']
    t_end = time.monotonic() + 15
    while time.monotonic() < t_end and not all(handles[t].accepted() for t in refused):
        time.sleep(0.01)
    time.sleep(params.get('linger', 0.5))
    _final(handles, sub)
    obs['outcomes'] = outs
    obs['sub'] = sub
    obs['cbs'] = cbs
    obs['cache_left'] = sorted(P._cache.keys())
    save()
    for t in refused:
        handles[t].discard()
    P.close()
    P.join()
    obs['joined'] = True
