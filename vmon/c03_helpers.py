"""C03 helpers: code that must be importable by forked / spawned worker
processes and by the REAL-lane scenario host (python -m vmon.realchild):
the task function executed by the real Worker, the exit callback, and the
parent-side scenarios on a real Pool (plain pool: accept/result callback order
and ownership; handshake pool: a Pool subclass supplying a syn-queue per
worker and send_ack, jobs cancelled before acceptance)."""
import os
import sys
import threading
import time

from vmon.evlog import log


class TaskError(Exception):
    pass


class OddBase(BaseException):
    """a BaseException subclass of the task's own"""


def _nest(obj, depth, tag):
    """wrap obj at a chosen nesting depth"""
    if depth <= 0:
        return obj
    if depth == 1:
        return [tag, obj]
    if depth == 2:
        return {'tag': tag, 'in': [obj]}
    return ('v', tag, {'k': [(obj,)], 'pad': list(range(5))})


def _unpicklable(what):
    if what == 'lambda':
        return lambda: 0
    if what == 'gen':
        return (x for x in range(3))
    if what == 'lock':
        return threading.Lock()
    if what == 'local':
        class Local(object):
            pass
        return Local()
    if what == 'closed_conn':
        # a real-world value whose pickling fails with OSError, not with a
        # pickling error: a connection that was closed already
        from billiard import Pipe
        a, b = Pipe()
        a.close()
        b.close()
        return a
    if what.startswith('reduce:'):
        # any exception class at all may come out of __reduce__
        return ReduceRaises(what.split(':', 1)[1])
    raise RuntimeError('harness: unknown unpicklable %r' % (what,))


REDUCE_EXC = {
    'OSError': lambda: OSError(9, 'Bad file descriptor'),
    'BrokenPipeError': lambda: BrokenPipeError(32, 'Broken pipe'),
    'EOFError': lambda: EOFError('ran out of input'),
    'ConnectionResetError': lambda: ConnectionResetError(104, 'reset'),
    'FileNotFoundError': lambda: FileNotFoundError(2, 'no such file'),
    'MemoryError': lambda: MemoryError(),
    'RecursionError': lambda: RecursionError('too deep'),
    'KeyError': lambda: KeyError('k'),
    'StopIteration': lambda: StopIteration(),
    'AssertionError': lambda: AssertionError('a'),
    'UnicodeError': lambda: UnicodeEncodeError('ascii', 'x', 0, 1, 'bad'),
}
UNPICK_WHATS = (['lambda', 'gen', 'lock', 'closed_conn'] +
                ['reduce:' + k for k in sorted(REDUCE_EXC)])


class ReduceRaises(object):
    def __init__(self, name):
        self.name = name

    def __reduce__(self):
        raise REDUCE_EXC[self.name]()


EXC = {'KeyError': KeyError, 'ValueError': ValueError, 'TaskError': TaskError,
       'ZeroDivisionError': ZeroDivisionError,
       'KeyboardInterrupt': KeyboardInterrupt, 'GeneratorExit': GeneratorExit,
       'SystemExit': SystemExit, 'OddBase': OddBase}


def _raise_deep(n, cls, tag):
    # the exception is raised `n` frames down: a very deep traceback
    if n <= 0:
        raise cls(tag)
    _raise_deep(n - 1, cls, tag)


def task(desc):
    """executed by the worker under test; logs the fact that it ran *before*
    doing anything (the log is the side effect the oracles look for)"""
    tag, kind = desc['tag'], desc['kind']
    log('task_start', tag=tag, tk=kind)
    try:
        if kind == 'ok':
            return ['v', tag]
        if kind == 'none':
            return None
        if kind == 'sleep':
            time.sleep(desc.get('dur', 0.01))
            return ['v', tag]
        if kind == 'big':
            return ['v', tag, 'x' * desc.get('size', 200000)]
        if kind == 'gate':
            t_end = time.monotonic() + desc.get('maxwait', 60.0)
            while not os.path.exists(desc['gate']) and time.monotonic() < t_end:
                time.sleep(0.005)
            return ['v', tag, os.path.exists(desc['gate'])]
        if kind == 'pid':
            if desc.get('dur'):
                time.sleep(desc['dur'])
            return ['pid', tag, os.getpid()]
        if kind in ('exc', 'base'):
            if desc.get('depth'):
                _raise_deep(desc['depth'], EXC[desc['exc']], tag)
            raise EXC[desc['exc']](tag)
        if kind == 'sysexit':
            sys.exit(desc.get('code', 3))
        if kind == 'unpick':
            return _nest(_unpicklable(desc['what']), desc.get('depth', 0), tag)
        if kind == 'exc_unpick':
            raise ValueError(tag, _unpicklable(desc['what']))
        raise RuntimeError('harness: unknown task kind %r' % (kind,))
    finally:
        log('task_end', tag=tag)


def on_exit(pid, exitcode):
    log('on_exit', wpid=pid, exitcode=exitcode)


def pool_on_exit(pid, exitcode):
    log('on_process_exit', wpid=pid, exitcode=exitcode)


# --------------------------------------------------------------------------
# REAL lane scenarios (run in a host process of their own by vmon.real)
# --------------------------------------------------------------------------

def _mk_pool_class():
    from billiard import pool as bpool

    class SynPool(bpool.Pool):
        """the extension points billiard offers for the handshake: one
        syn-queue per worker (get_process_queues) and send_ack"""

        def get_process_queues(self):
            synq = self._ctx.SimpleQueue()
            self._c03_last_synq = synq
            return self._inqueue, self._outqueue, synq

        def _process_register_queues(self, worker, queues):
            worker._c03_synq = queues[2]

        def send_ack(self, response, pid, job, fd):
            log('send_ack', response=response, wpid=pid, job=job, fd=fd)
            proc, _ = self._process_by_pid(pid)
            # a fresh (replacement) worker can announce its first job before the
            # supervisor thread has entered it in the pool's list and registered
            # its queues: wait for that instead of losing the answer
            deadline = time.monotonic() + 15
            while (proc is None or not hasattr(proc, '_c03_synq')) and \
                    time.monotonic() < deadline:
                time.sleep(0.01)
                proc, _ = self._process_by_pid(pid)
            if proc is None or not hasattr(proc, '_c03_synq'):
                log('send_ack_no_proc', wpid=pid, job=job)
                return
            proc._c03_synq.put((response, (pid, job)))

    return SynPool


def _outcome(res, timeout):
    from vmon.real import exc_name
    try:
        v = res.get(timeout)
        return ['ok', v]
    except BaseException as e:           # noqa
        n, a = exc_name(e)
        return ['exc', n, repr(a)[:200]]


def blocked_sample(pid, inodes):
    """(queue name, cpu ticks) when process `pid` sleeps in read(2) on one of
    the pipes in `inodes` {inode: name}, else None (x86_64 /proc/<pid>/syscall)"""
    try:
        with open('/proc/%d/syscall' % pid) as f:
            sc = f.read().split()
        with open('/proc/%d/stat' % pid) as f:
            st = f.read()
        rest = st[st.rindex(')') + 2:].split()
        if rest[0] != 'S' or not sc or sc[0] != '0':
            return None
        fd = int(sc[1], 16)
        link = os.readlink('/proc/%d/fd/%d' % (pid, fd))
        if not link.startswith('pipe:['):
            return None
        name = inodes.get(int(link[6:-1]))
        if name is None:
            return None
        return (name, int(rest[11]) + int(rest[12]))
    except (OSError, ValueError, IndexError, TypeError):
        return None


def sleeping_sample(pid):
    """True when process `pid` is inside nanosleep / clock_nanosleep (x86_64)"""
    try:
        with open('/proc/%d/syscall' % pid) as f:
            sc = f.read().split()
        return bool(sc) and sc[0] in ('230', '35')
    except (OSError, ValueError):
        return False


def _pool_stuck_sample(P):
    """a hashable picture of the pool when every worker sleeps in read() on
    the in-queue or its syn-queue, the result pipe is empty and either one of
    them waits on its syn-queue or there is no task left to take; else None"""
    try:
        if P._outqueue._reader.poll(0):
            return None
        pic = []
        ino_in = os.fstat(P._inqueue._reader.fileno()).st_ino
        for w in list(P._pool):
            synq = getattr(w, '_c03_synq', None)
            inodes = {ino_in: 'inq'}
            if synq is not None:
                inodes[os.fstat(synq._reader.fileno()).st_ino] = 'synq'
            if w.pid is None:            # being started by the supervisor right now
                return None
            b = blocked_sample(w.pid, inodes)
            if b is None:
                return None
            pic.append((w.pid,) + b)
        if not any(x[1] == 'synq' for x in pic):
            if P._inqueue._reader.poll(0) or not P._taskqueue.empty():
                return None
        return tuple(pic)
    except Exception:            # noqa  (pool mutating under our feet: no picture)
        return None


def _await(P, cond, timeout, obs, what):
    """wait for cond(); -> 'ok' | 'deadlock' | 'timeout'.  'deadlock' is a
    state verdict: two identical stuck pictures 3 s apart"""
    deadline = time.monotonic() + timeout
    last = None
    t_chk = 0.0
    while time.monotonic() < deadline:
        if cond():
            return 'ok'
        time.sleep(0.01)
        now = time.monotonic()
        if now - t_chk >= 0.5:
            t_chk = now
            pic = _pool_stuck_sample(P)
            if pic is None:
                last = None
            elif last is None or last[0] != pic:
                last = (pic, now)
            elif now - last[1] >= 3.0 and not cond():
                obs['deadlock'] = {'waiting_for': what, 'workers': [list(x) for x in pic]}
                return 'deadlock'
    return 'ok' if cond() else 'timeout'


def _mk_cb(cbs, handles, tag, which):
    def cb(*a):
        ent = {'t': time.monotonic(), 'tag': tag, 'which': which,
               'thread': threading.current_thread().name}
        h = handles.get(tag)
        if which == 'accept':
            ent['pid'], ent['time_accepted'] = a[0], a[1]
        elif which == 'ok':
            ent['value'] = a[0]
        else:
            from vmon.real import exc_name
            ent['exc'] = exc_name(getattr(a[0], 'exception', a[0]))[0]
        if h is not None:
            ent['worker_pids'] = list(h.worker_pids())
            ent['accepted'] = h.accepted()
            ent['ready'] = h.ready()
        else:
            ent['no_handle_yet'] = True
        cbs.append(ent)
        log('cb', tag=tag, which=which)
    return cb


def _submit(P, handles, sub, cbs, tag, desc, lock):
    # the callbacks look the handle up: publish it under a lock the callbacks
    # do not need (they only read the dict; a miss is recorded, not fatal)
    t0 = time.monotonic()
    h = P.apply_async(task, (desc,), callback=_mk_cb(cbs, handles, tag, 'ok'),
                      error_callback=_mk_cb(cbs, handles, tag, 'err'),
                      accept_callback=_mk_cb(cbs, handles, tag, 'accept'))
    handles[tag] = h
    sub[tag] = {'t_submit': t0, 'job': h._job}
    return h


def _final(handles, sub):
    for tag, h in handles.items():
        sub[tag]['final_ready'] = h.ready()
        sub[tag]['final_accepted'] = h.accepted()
        sub[tag]['final_worker_pids'] = list(h.worker_pids())
        sub[tag]['time_accepted'] = getattr(h, '_time_accepted', None)
        sub[tag]['t_done'] = time.monotonic()


def sc_plain(params, obs, save):
    """plain pool: accept callback / result callback order, ownership"""
    import billiard
    from billiard import pool as bpool
    wd = os.environ.get('VERIF_WORKDIR') or '/tmp'
    gate = os.path.join(wd, 'gate-%d-%d' % (os.getpid(), int(time.monotonic() * 1e6)))
    ctx = billiard.get_context(params.get('method', 'fork'))
    P = bpool.Pool(params['nproc'], context=ctx, on_process_exit=pool_on_exit)
    obs['initial_pids'] = [w.pid for w in P._pool]
    cbs, handles, sub = [], {}, {}
    gated = 0
    for j in params['jobs']:
        d = dict(j['desc'])
        if d['kind'] == 'gate':
            d['gate'] = gate
            gated += 1
        _submit(P, handles, sub, cbs, j['tag'], d, None)
        if j.get('pause'):
            time.sleep(j['pause'])
    if gated:
        # sample ownership while gated jobs are in flight
        want = min(gated, params['nproc'])
        t_end = time.monotonic() + 20
        while time.monotonic() < t_end:
            acc = [t for t, h in handles.items() if h.accepted() and not h.ready()]
            if len(acc) >= want:
                break
            time.sleep(0.01)
        def snap(t, h):
            # read under the handle's own lock: _ack sets "accepted" and the
            # owner in two statements
            m = getattr(h, '_mutex', None)
            if m is not None:
                m.acquire()
            try:
                return {'tag': t, 'accepted': h.accepted(), 'ready': h.ready(),
                        'worker_pids': list(h.worker_pids()), 't': time.monotonic()}
            finally:
                if m is not None:
                    m.release()
        obs['inflight_samples'] = [snap(t, h) for t, h in list(handles.items())]
        time.sleep(params.get('gate_delay', 0.05))
    log('gate_open')
    open(gate, 'w').close()
    obs['wait_results'] = _await(P, lambda: all(h.ready() for h in handles.values()), 45, obs,
                                 'results')
    outs = {}
    for tag, h in handles.items():
        outs[tag] = _outcome(h, 0.01)
    _final(handles, sub)
    obs['outcomes'] = outs
    obs['sub'] = sub
    obs['cbs'] = cbs
    save()
    if obs['wait_results'] != 'ok':
        obs['aborted'] = True
        save()
        P.terminate()
        return
    # map job: ownership per element while the first element of each chunk is gated
    m = params.get('map')
    if m:
        gate2 = gate + '.map'
        descs = [{'tag': 'm%d' % i, 'kind': 'gate', 'gate': gate2, 'maxwait': 40.0}
                 for i in range(m['n'])]
        mr = P.map_async(task, descs, chunksize=m['chunk'])
        nchunks = (m['n'] + m['chunk'] - 1) // m['chunk']
        inflight = min(nchunks, params['nproc'])
        t_end = time.monotonic() + 20
        while time.monotonic() < t_end:
            if sum(1 for c in range(nchunks) if mr._accepted[c * m['chunk']]) >= inflight:
                break
            time.sleep(0.01)
        obs['map_sample'] = {'worker_pid': list(mr._worker_pid), 'accepted': list(mr._accepted),
                             'worker_pids': list(mr.worker_pids()), 't': time.monotonic(),
                             'chunk': m['chunk'], 'n': m['n'], 'inflight': inflight}
        log('map_gate_open')
        open(gate2, 'w').close()
        obs['map_outcome'] = _outcome(mr, 60)
        obs['map_final_worker_pids'] = list(mr.worker_pids())
    obs['cbs'] = cbs
    save()
    P.close()
    P.join()
    obs['joined'] = True


def sc_synack(params, obs, save):
    """handshake pool: jobs cancelled before acceptance are refused"""
    import billiard
    SynPool = _mk_pool_class()
    wd = os.environ.get('VERIF_WORKDIR') or '/tmp'
    gate = os.path.join(wd, 'gate-%d-%d' % (os.getpid(), int(time.monotonic() * 1e6)))
    ctx = billiard.get_context('fork')
    P = SynPool(params['nproc'], maxtasksperchild=params.get('maxtasks'), context=ctx,
                synack=True, on_process_exit=pool_on_exit)
    obs['initial_pids'] = [w.pid for w in P._pool]
    cbs, handles, sub = [], {}, {}
    blockers = []
    # 1. occupy every worker with a gated job, so that what follows queues up
    for b in range(params['nproc']):
        tag = 'blk%d' % b
        d = {'tag': tag, 'kind': 'gate', 'gate': gate, 'maxwait': 40.0}
        blockers.append(_submit(P, handles, sub, cbs, tag, d, None))
        sub[tag]['cancel'] = None
    obs['blockers'] = _await(P, lambda: all(h.accepted() for h in blockers), 30, obs,
                             'acceptance of the first jobs')
    obs['blockers_accepted'] = obs['blockers'] == 'ok'
    if not obs['blockers_accepted']:
        _final(handles, sub)
        obs.update(sub=sub, cbs=cbs, outcomes={}, aborted=True)
        save()
        P.terminate()
        return
    # 2. queue the jobs; cancel the seeded subset *before* any worker is free
    for j in params['jobs']:
        _submit(P, handles, sub, cbs, j['tag'], dict(j['desc']), None)
        sub[j['tag']]['cancel'] = j.get('cancel')
    for j in params['jobs']:
        if j.get('cancel') == 'before':
            log('cancel', tag=j['tag'])
            handles[j['tag']]._cancel()
            sub[j['tag']]['t_cancel'] = time.monotonic()
    time.sleep(params.get('settle', 0.05))
    log('gate_open')
    open(gate, 'w').close()
    # 3. late cancellations: after acceptance has been observed
    late = [j for j in params['jobs'] if j.get('cancel') == 'after_accept']
    t_end = time.monotonic() + 40
    while late and time.monotonic() < t_end:
        for j in list(late):
            h = handles[j['tag']]
            if h.accepted():
                log('cancel_late', tag=j['tag'])
                h._cancel()
                sub[j['tag']]['t_cancel'] = time.monotonic()
                late.remove(j)
        time.sleep(0.002)
    # 4. wait for everything that must resolve, and for the refused jobs to
    # have been answered; then give a late result every chance to show up
    must = [t for t in handles if sub[t].get('cancel') != 'before']
    refused = [t for t in handles if sub[t].get('cancel') == 'before']
    obs['wait_results'] = _await(
        P, lambda: all(handles[t].ready() for t in must) and
        all(handles[t].accepted() for t in refused), 45, obs, 'results')
    outs = {}
    for tag in must:
        outs[tag] = _outcome(handles[tag], 0.01)
    time.sleep(params.get('linger', 0.5))
    _final(handles, sub)
    obs['outcomes'] = outs
    obs['sub'] = sub
    obs['cbs'] = cbs
    obs['cache_left'] = sorted(P._cache.keys())
    save()
    if obs['wait_results'] != 'ok':
        obs['aborted'] = True
        save()
        P.terminate()
        return
    for t in refused:
        handles[t].discard()
    P.close()
    P.join()
    obs['joined'] = True
