"""REAL lane of C06 (soft time limit) - monitor side"""
from vmon.core import rng_for
from vmon import real


def plan(tier, seed):
    rng = rng_for(seed, 'c06real')
    cells = []
    for nproc in (1, 2):
        for (ps, js) in ((1.0, None), (None, 1.0), (3.0, 1.0), (1.0, 3.0), (None, None)):
            for extra in (-0.6, 2.6, 4.6):
                for catch in (True, False):
                    cells.append((nproc, ps, js, extra, catch))
    rng.shuffle(cells)
    n = 18 if tier == 'quick' else len(cells)
    specs = []
    for (nproc, ps, js, extra, catch) in cells[:n]:
        eff = js if js is not None else ps
        dur = max(0.3, (eff or 1.0) + extra)
        if extra < 0:
            if eff is not None and eff < 3.0:
                continue        # margin too small to call "not expired" on a loaded machine
            dur = 0.2
        specs.append({'lane': 'real', 'timeout': 110, 'params': {
            'nproc': nproc, 'pool_soft': ps, 'job_soft': js, 'eff_soft': eff, 'dur': dur,
            'catch': catch, 'expired': bool(eff and extra > 0),
            'pool_hard': rng.choice([None, 30.0]), 'job_hard': rng.choice([None, 30.0]),
            'next_dur': 1.5, 'next_soft': None}})
    for (ps, js) in ((1.0, None), (None, 1.0)) if tier == 'quick' else \
            ((1.0, None), (None, 1.0), (2.0, 1.0), (1.0, 2.0)):
        eff = js if js is not None else ps
        specs.append({'lane': 'real', 'timeout': 110, 'params': {
            'nproc': 2, 'pool_soft': ps, 'job_soft': js, 'eff_soft': eff, 'dur': eff + 4.6,
            'catch': True, 'expired': True, 'pool_hard': None, 'job_hard': None,
            'next_dur': 0.3, 'next_soft': None, 'close_while_running': True}})
    # a pool initializer with signal handling of its own (SIG_DFL, SIG_IGN,
    # faulthandler on the soft-limit signal): the limit must still be raised
    for k, how in enumerate(('dfl', 'faulthandler') if tier == 'quick' else
                            ('dfl', 'faulthandler', 'ign', 'dfl')):
        ps, js = ((1.0, None), (None, 1.0))[k % 2]
        specs.append({'lane': 'real', 'timeout': 110, 'params': {
            'nproc': 1 + k % 2, 'pool_soft': ps, 'job_soft': js, 'eff_soft': 1.0, 'dur': 5.6,
            'catch': True, 'expired': True, 'pool_hard': None, 'job_hard': None,
            'next_dur': 0.3, 'next_soft': None, 'init_signals': how}})
    # finished in time, slow result callback: the limit's instant passes while
    # the callback runs and the worker is busy with the next (unlimited) job
    for nproc in (1, 2) if tier == 'quick' else (1, 1, 2, 3):
        specs.append({'lane': 'real', 'timeout': 110, 'params': {
            'nproc': nproc, 'pool_soft': None, 'job_soft': 3.0, 'eff_soft': 3.0, 'dur': 0.2,
            'catch': True, 'expired': False, 'pool_hard': None, 'job_hard': None,
            'next_dur': 7.0, 'next_soft': None, 'slow_cb': 6.0}})
    return specs


def run_spec(spec, rec):
    p = spec['params']
    r = real.run_scenario('vmon.real_pool', 'sc_soft_limit', p, timeout=spec['timeout'] - 25)
    obs = r['obs']
    if r['status'] == 'scenario_error':
        raise RuntimeError('scenario error: ' + obs.get('scenario_exception', r['stderr'][-2000:]))
    rec.case()
    rec.count('real:scenarios')
    attrs = {'lane': 'real', 'catch': p['catch'], 'expired': p['expired'], 'nproc': p['nproc'],
             'closing': bool(p.get('close_while_running')), 'slow_callback': bool(p.get('slow_cb')),
             'pool_soft': p['pool_soft'] is not None, 'job_soft': p['job_soft'] is not None,
             'initializer_touches_signals': bool(p.get('init_signals'))}
    if r['status'] != 'ok':
        rec.violation('host_process_died' if r['status'] == 'died' else 'pool_hung_with_soft_limit',
                      attrs, rc=r['rc'], stderr=r['stderr'][-3000:], params=p)
        return
    oc, eff = obs['outcome'], p['eff_soft']
    soft_calls = [c for c in obs['timeout_cb'] if c[0] is True]
    seen_events = [e for e in r['events'] if e['k'] == 'soft_seen' and e.get('tag') == 'victim']
    if p['expired']:
        rec.count('real:soft_expired')
        if len(seen_events) != 1:
            rec.violation('soft_limit_not_raised_exactly_once_in_task', attrs, seen=len(seen_events),
                          outcome=oc, params=p)
        if soft_calls != [[True, eff]]:
            rec.violation('soft_timeout_callback_missing_or_wrong', attrs, calls=obs['timeout_cb'],
                          eff=eff)
        if p['catch']:
            if oc != ['ok', ['soft', 'victim', 1]]:
                rec.violation('caught_soft_limit_but_result_lost_or_altered', attrs, outcome=oc)
            else:
                rec.count('real:caught_and_returned')
        elif not (oc[0] == 'exc' and oc[1] == 'SoftTimeLimitExceeded'):
            rec.violation('uncaught_soft_limit_wrong_outcome', attrs, outcome=oc)
    else:
        rec.count('real:soft_not_expired')
        if seen_events or soft_calls:
            rec.violation('soft_limit_raised_without_expiry', attrs, seen=len(seen_events),
                          calls=obs['timeout_cb'], params=p)
        if oc != ['ok', ['soft', 'victim', 0]]:
            rec.violation('job_without_expired_soft_limit_disturbed', attrs, outcome=oc)
    # the next job (soft limit only if the pool has one) must see at most its own
    nxt = obs['next_outcome']
    nxt_seen = [e for e in r['events'] if e['k'] == 'soft_seen' and e.get('tag') == 'next']
    next_may = p['pool_soft'] is not None and p['pool_soft'] < p['next_dur'] + 1.2
    if nxt_seen and not next_may:
        rec.violation('soft_limit_raised_in_wrong_task', attrs, seen=len(nxt_seen), outcome=nxt,
                      params=p)
    if len(nxt_seen) > 1:
        rec.violation('soft_limit_not_raised_exactly_once_in_task', dict(attrs, which='next'),
                      seen=len(nxt_seen))
    rec.sig(['soft', p['nproc'], p['pool_soft'], p['job_soft'], p['catch'], p['expired'],
             round(p['dur'], 1)])
    rec.sample({'params': p, 'outcome': oc, 'timeout_cb': obs['timeout_cb'], 'next': nxt})
