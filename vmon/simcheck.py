"""glue between the SIM engine (vmon.sim) and the per-property checks"""
import logging
import traceback

from vmon.core import rng_for
from vmon.sim import Sim, HarnessError
from vmon.simprof import profile


class FilterRec:
    """forwards to the real Rec only the violations that refute `prop`"""

    def __init__(self, rec, prop):
        self.rec, self.prop = rec, prop

    def violation(self, kind, attrs=None, **detail):
        attrs = dict(attrs or {})
        props = attrs.pop('props', [])
        if self.prop in props:
            attrs['lane'] = 'sim'
            detail['refutes'] = props
            detail['history_index'] = getattr(self, 'current', None)
            return self.rec.violation(kind, attrs, **detail)
        self.rec.count('sim:violations_of_other_properties')

    def __getattr__(self, name):
        return getattr(self.rec, name)


def bucket(n):
    return 0 if n == 0 else (1 if n == 1 else (2 if n < 10 else 3))


def run_sim_spec(spec, rec, prop, nontrivial):
    """spec: {'lane': 'sim', 'profile': name, 'seed': int, 'histories': n}"""
    logging.disable(logging.CRITICAL)      # the pool logs every worker exit
    frec = FilterRec(rec, prop)
    only = spec.get('only')
    for h in range(spec['histories']):
        if only is not None and h != only:
            continue
        frec.current = h
        rng = rng_for(spec['seed'], spec['profile'], h)
        prof = profile(spec['profile'], rng)
        steps = rng.choice(spec.get('steps', [40, 80, 150]))
        sim = Sim(rng, prof, frec, {'profile': spec['profile']})
        try:
            sim.build()
            try:
                sim.run(steps)
            finally:
                sim.teardown()
        except HarnessError:
            raise
        rec.case()
        for k, n in sim.stats.items():
            rec.count('sim:' + k, n)
        rec.count('sim:steps', sim.step_no)
        rec.count('sim:jobs', len(sim.jobs))
        if nontrivial(sim):
            sig = [spec['profile'], prof['n'], bool(prof.get('maxtasks')),
                   bool(prof.get('putlocks'))] + \
                sorted('%s%d' % (k, bucket(n)) for k, n in sim.stats.items()
                       if k not in ('sem_reads', 'size_checks', 'counter_credit_checked',
                                    'on_timeout_set', 'on_timeout_cancel'))
            rec.sig(sig)
            rec.sample({'profile': spec['profile'], 'history': h,
                        'pool': {k: v for k, v in prof.items() if k != 'weights'},
                        'steps': sim.step_no,
                        'head': [list(map(str, x)) for x in sim.hist[:40]],
                        'stats': sim.stats})
        if sim.violated:
            rec.count('sim:histories_with_any_violation')


def sim_specs(profiles, seed, per_profile, histories, base=0):
    specs = []
    for pi, name in enumerate(profiles):
        for k in range(per_profile):
            specs.append({'lane': 'sim', 'profile': name,
                          'seed': seed * 100000 + base + pi * 1000 + k,
                          'histories': histories, 'timeout': 600})
    return specs
