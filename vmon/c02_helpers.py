"""Importable pieces of check C02 (results equal the sequential computation):
item generators, task functions (fork / spawn / forkserver children import
them from here), the canonical form used to compare values, the encoding of
outcomes, the sequential reference, and the REAL-lane scenario that runs a
script of map / starmap / imap / imap_unordered / apply calls on one real
pool inside a host process of its own."""
import collections
import functools
import os
import random
import signal
import hashlib
import struct
import threading
import time
import zlib

from vmon.evlog import log

# True in the monitor process (sequential reference, in-process "perm" lane):
# task functions then neither sleep nor write to the event log.
REFERENCE = False

GET_TIMEOUT = 120.0         # async get()/next(timeout) in the host; the stall guard decides earlier


# --------------------------------------------------------------------------
# canonical form (NaN, -0.0, bytes vs str, list vs tuple, dict order all
# distinguished; object identity / sharing is not)
# --------------------------------------------------------------------------

def canon(o, depth=0):
    t = type(o)
    if o is None or t is bool:
        return repr(o)
    if t is int:
        return 'i%d' % o
    if t is float:
        return 'f' + struct.pack('>d', o).hex()
    if t is complex:
        return 'c' + struct.pack('>dd', o.real, o.imag).hex()
    if t is str:
        if len(o) > 2048:
            return 'sh%d:%s' % (len(o), hashlib.sha1(o.encode('utf-8', 'surrogatepass')).hexdigest())
        return 's' + ascii(o)
    if t is bytes:
        if len(o) > 2048:
            return 'bh%d:%s' % (len(o), hashlib.sha1(o).hexdigest())
        return 'b' + o.hex()
    if t is bytearray:
        return 'B' + bytes(o).hex()
    if depth > 12:
        return '<deep>'
    if t is tuple:
        return '(' + ','.join(canon(x, depth + 1) for x in o) + ')'
    if t is list:
        return '[' + ','.join(canon(x, depth + 1) for x in o) + ']'
    if t is dict:
        return '{' + ','.join(canon(k, depth + 1) + ':' + canon(v, depth + 1)
                              for k, v in o.items()) + '}'
    if t in (set, frozenset):
        return t.__name__ + '<' + ','.join(sorted(canon(x, depth + 1) for x in o)) + '>'
    if t is Box:
        return 'Box<' + canon(o.v, depth + 1) + '>'
    return 'obj:%s:%s' % (t.__name__, ascii(o)[:200])


class Box:
    """a user-defined picklable value"""

    def __init__(self, v):
        self.v = v


# --------------------------------------------------------------------------
# inputs
# --------------------------------------------------------------------------

TYPES = ['int', 'str', 'bytes', 'float', 'nested', 'mixed', 'big']
_FLOATS = [0.0, -0.0, 1.5, -2.25, float('inf'), float('-inf'), float('nan'), 1e308, 5e-324, 0.1]
_STRS = ['', 'a', 'ab', 'x' * 40, 'héllo', '世界', 'nul\x00in', 'line\nbreak', "q'\"uote", '\U0001f600']


def _one(rng, kind, depth=0):
    if kind == 'mixed':
        kind = rng.choice(['int', 'str', 'bytes', 'float', 'nested', 'none', 'bool', 'box'])
    if kind == 'big':
        # values larger than a pipe's capacity next to short ones: a worker
        # is still writing one result while another sends its own
        if rng.random() < 0.5:
            return _one(rng, rng.choice(['int', 'str']))
        size = rng.choice([70000, 150000, 300000])
        seedb = bytes(rng.randrange(256) for _ in range(16))
        body = (seedb * (size // 16 + 1))[:size]
        return body if rng.random() < 0.5 else body.decode('latin-1')
    if kind == 'int':
        return rng.choice([0, 1, -1, 255, 256, 2 ** 31 - 1, 2 ** 31, -2 ** 63, 2 ** 64 + 1,
                           rng.randrange(-10 ** 6, 10 ** 6), 10 ** 30 + rng.randrange(100)])
    if kind == 'str':
        return rng.choice(_STRS) + str(rng.randrange(1000))
    if kind == 'bytes':
        n = rng.choice([0, 1, 3, 17, 255, 256, 1000])
        return bytes(rng.randrange(256) for _ in range(min(n, 64))) * (1 if n <= 64 else n // 64)
    if kind == 'float':
        return rng.choice(_FLOATS + [rng.random() * 10 ** rng.randrange(-5, 6)])
    if kind == 'none':
        return None
    if kind == 'bool':
        return rng.random() < 0.5
    if kind == 'box':
        return Box(_one(rng, rng.choice(['int', 'str', 'float'])))
    # nested
    if depth >= 3:
        return _one(rng, rng.choice(['int', 'str', 'float']))
    shape = rng.choice(['tuple', 'list', 'dict', 'mix', 'empty'])
    k = rng.randrange(0, 4)
    if shape == 'tuple':
        return tuple(_one(rng, 'mixed', depth + 1) for _ in range(k))
    if shape == 'list':
        return [_one(rng, 'mixed', depth + 1) for _ in range(k)]
    if shape == 'dict':
        return {rng.choice(['k', 1, (1, 2), b'k', 2.5]) if rng.random() < 0.5 else 'k%d' % j:
                _one(rng, 'mixed', depth + 1) for j in range(k)}
    if shape == 'empty':
        return rng.choice([(), [], {}, '', b'', frozenset()])
    return (_one(rng, 'int'), [_one(rng, 'str'), {'d': _one(rng, 'float'), 'n': None}],
            frozenset([1, 'a', 2.5][:k]))


def make_payloads(iseed, n, kind):
    rng = random.Random('c02-items/%s/%s/%s' % (iseed, n, kind))
    return [_one(rng, kind) for _ in range(n)]


class NoLen:
    """an iterable without __len__ (neither a generator nor a sequence)"""

    def __init__(self, xs):
        self._xs = xs

    def __iter__(self):
        return iter(list(self._xs))


class LenIter:
    """an iterable with __len__ and __iter__ only (no indexing, no slicing)"""

    def __init__(self, xs):
        self._xs = xs

    def __len__(self):
        return len(self._xs)

    def __iter__(self):
        for x in self._xs:
            yield x


def wrap_iterable(xs, form):
    if form == 'list':
        return list(xs)
    if form == 'tuple':
        return tuple(xs)
    if form == 'gen':
        return (x for x in xs)
    if form == 'iter':
        return iter(list(xs))
    if form == 'deque':
        return collections.deque(xs)
    if form == 'nolen':
        return NoLen(xs)
    if form == 'leniter':
        return LenIter(xs)
    raise ValueError(form)


FORMS = ['list', 'list', 'tuple', 'gen', 'iter', 'deque', 'nolen', 'leniter']


# --------------------------------------------------------------------------
# task functions
# --------------------------------------------------------------------------

class TagError(Exception):
    pass


EXC_KINDS = ['tag', 'value', 'key', 'zero', 'os', 'lookup', 'deep', 'evald']


def _raise_deep(n, tag):
    if n <= 0:
        raise ValueError(tag, 'deep')
    _raise_deep(n - 1, tag)


def _raise_value(*args):
    raise ValueError(*args)


def _raise(exck, cid, pos):
    tag = '%s.%d' % (cid, pos)
    if exck == 'tag':
        raise TagError(tag, pos)
    if exck == 'value':
        raise ValueError(tag)
    if exck == 'key':
        raise KeyError(tag)
    if exck == 'zero':
        return pos // 0
    if exck == 'os':
        raise OSError(2, tag)
    if exck == 'lookup':
        raise LookupError(tag, pos, ('nested', pos))
    if exck == 'stop':
        raise StopIteration(tag)
    if exck == 'deep':
        _raise_deep(700, tag)       # raised 700 frames down: a very deep remote traceback
    if exck == 'evald':
        # the failure passes through a frame of evaluated code whose globals
        # hold neither __name__ nor __file__
        eval(compile('f(t, "evald")', '<c02-evaluated>', 'eval'),
             {'__builtins__': {}, 'f': _raise_value, 't': tag})
    raise RuntimeError('bad exception kind %r' % (exck,))


def _latency(lat, pos):
    """seeded per-item latency in seconds"""
    if not lat:
        return 0.0
    lseed, profile = lat
    h = zlib.crc32(('%s/%d' % (lseed, pos)).encode())
    if profile == 'jitter':
        return [0, 0, 0.001, 0.002, 0.004, 0.008, 0.0, 0.015][h % 8]
    if profile == 'front':            # the first items are the slow ones
        return 0.04 if pos < 2 else 0.001 * (h % 3)
    if profile == 'alt':
        return 0.012 if pos % 2 == 0 else 0.0
    if profile == 'tail':
        return 0.001 * (h % 4) + (0.03 if pos % 7 == 6 else 0)
    return 0.0


def _behave(cfg, pos):
    """cfg = (cid, fkind, raise_positions, exc_kind, latency)"""
    cid, _fkind, bad, exck, lat = cfg
    if not REFERENCE:
        d = _latency(lat, pos)
        if d:
            time.sleep(d)
    if pos in bad:
        if not REFERENCE:
            log('raise', c=cid, p=pos)
        _raise(exck, cid, pos)
    if not REFERENCE:
        log('done', c=cid, p=pos)


def f_item(cfg, x):
    """map / imap function: x = (pos, payload)"""
    pos = x[0]
    _behave(cfg, pos)
    fk = cfg[1]
    if fk == 'echo':
        return ('r', x)
    if fk == 'ident':
        return x
    if fk == 'payload':
        return x[1]
    if fk == 'double':
        return [x[1], pos, x[1]]
    return None                      # fkind 'none'


def f_star(cfg, pos, a, b='dflt-b', c='dflt-c'):
    """starmap function of 2-3 arguments (after the bound cfg)"""
    _behave(cfg, pos)
    return ('s', pos, a, b, c)


def f_apply(cfg, pos, *args, **kwds):
    _behave(cfg, pos)
    return ('a', pos, args, sorted(kwds.items()))


class Fn:
    """a callable object instead of a plain function"""

    def __init__(self, cfg, star):
        self.cfg = cfg
        self.star = star

    def __call__(self, *a, **kw):
        if self.star == 'apply':
            return f_apply(self.cfg, *a, **kw)
        if self.star:
            return f_star(self.cfg, *a)
        return f_item(self.cfg, *a)


def call_cfg(c):
    lat = tuple(c['lat']) if c.get('lat') else None
    return (c['cid'], c.get('fkind', 'echo'), tuple(c.get('bad', ())), c.get('exck', 'tag'), lat)


def call_function(c):
    cfg = call_cfg(c)
    star = 'apply' if c['api'].startswith('apply') else c['api'].startswith('starmap')
    if c.get('callable_obj'):
        return Fn(cfg, star)
    base = f_apply if star == 'apply' else (f_star if star else f_item)
    return functools.partial(base, cfg)


def call_inputs(c):
    """the input sequence of a call, as a list"""
    pay = make_payloads(c['iseed'], c['n'] * (c.get('arity', 1)), c.get('types', 'mixed'))
    api = c['api']
    if api.startswith('starmap'):
        ar = c.get('arity', 2)
        return [(pos,) + tuple(pay[pos * ar:(pos + 1) * ar]) for pos in range(c['n'])]
    if api.startswith('apply'):
        return [(0,) + tuple(pay)]
    return [(pos, pay[pos]) for pos in range(c['n'])]


def apply_kwds(c):
    if not c.get('kw'):
        return {}
    pay = make_payloads(str(c['iseed']) + '/kw', c['kw'], c.get('types', 'mixed'))
    return {'kw%d' % j: pay[j] for j in range(c['kw'])}


def reference(c):
    """the sequential computation: per input position ['ok', canon(value)] or
    ['exc', type name, canon(args)]"""
    fn = call_function(c)
    xs = call_inputs(c)
    out = []
    star = c['api'].startswith('starmap')
    for x in xs:
        try:
            if c['api'].startswith('apply'):
                v = fn(*x, **apply_kwds(c))
            elif star:
                v = fn(*x)
            else:
                v = fn(x)
            out.append(['ok', canon(v)])
        except Exception as e:          # noqa
            out.append(['exc', type(e).__name__, canon(e.args)])
    return out


# --------------------------------------------------------------------------
# encoding of what a call produced
# --------------------------------------------------------------------------

def enc_exc(e):
    cause = getattr(e, '__cause__', None)
    try:
        args = canon(e.args)
    except Exception as x:              # noqa
        args = 'uncanonical:%r' % (x,)
    return {'type': type(e).__name__, 'args': args,
            'cause': type(cause).__name__ if cause is not None else None,
            'cause_text': (str(cause)[-1500:] if cause is not None else ''),
            'is_wrapper': type(e).__name__ == 'ExceptionWithTraceback'}


def enc_imap_exc(e):
    """imap iterators raise Exception(<ExceptionInfo>)"""
    rec = {'wrapper': type(e).__name__, 'nargs': len(getattr(e, 'args', ()))}
    ei = e.args[0] if getattr(e, 'args', None) else None
    if type(ei).__name__ == 'ExceptionInfo':
        rec['einfo'] = True
        rec['einfo_type'] = getattr(getattr(ei, 'type', None), '__name__', None)
        rec['inner'] = enc_exc(ei.exception)
        rec['tb_text'] = str(getattr(ei, 'traceback', ''))[-1500:]
    else:
        rec['einfo'] = False
        rec['raw'] = enc_exc(e)
    return rec


def drain_iterator(it, style, limit):
    """consume an imap / imap_unordered result.  style 'for' = the way users
    do it (next() without a timeout); 'timeout' = it.next(GET_TIMEOUT) when the
    object has one (a chunked imap is a plain generator: no timeout there)."""
    items = []
    end = None
    while len(items) <= limit:
        try:
            if style == 'timeout' and hasattr(it, 'next'):
                v = it.next(GET_TIMEOUT)
            else:
                v = next(it)
            items.append(['ok', canon(v)])
        except StopIteration:
            end = 'stop'
            break
        except Exception as e:          # noqa
            if type(e).__name__ == 'TimeoutError' and not getattr(e, 'args', None):
                end = 'stuck'
                break
            items.append(['exc', enc_imap_exc(e)])
    else:
        end = 'overrun'
    # a finished iterator must stay finished
    if end == 'stop':
        try:
            if style == 'timeout' and hasattr(it, 'next'):
                it.next(0)
            else:
                next(it)
            end = 'restarted'
        except StopIteration:
            pass
        except Exception as e:          # noqa
            end = 'after_stop:' + type(e).__name__
    return ['items', items, end]


def _value_outcome(getter, is_list):
    try:
        v = getter()
    except Exception as e:              # noqa
        if type(e).__name__ == 'TimeoutError' and not getattr(e, 'args', None):
            return ['unresolved']
        return ['exc', enc_exc(e)]
    if is_list:
        if type(v) is not list:
            return ['notlist', type(v).__name__, canon(v)[:400]]
        return ['ok', [canon(x) for x in v]]
    return ['ok', canon(v)]


def _chunk_kw(c):
    return {} if c.get('chunk') is None else {'chunksize': c['chunk']}


def submit(pool, c):
    """start a call; returns a collector closure producing the outcome"""
    api = c['api']
    fn = call_function(c)
    xs = call_inputs(c)
    style = c.get('style', 'for')
    if api in ('apply', 'apply_async'):
        args = xs[0]
        kw = apply_kwds(c)
        if api == 'apply':
            out = _value_outcome(lambda: pool.apply(fn, args, kw), False)
            return lambda: out
        h = pool.apply_async(fn, args, kw)
        return lambda: _value_outcome(lambda: h.get(GET_TIMEOUT), False)
    it = wrap_iterable(xs, c.get('form', 'list'))
    if api in ('map', 'starmap'):
        meth = getattr(pool, api)
        out = _value_outcome(lambda: meth(fn, it, **_chunk_kw(c)), True)
        return lambda: out
    if api in ('map_async', 'starmap_async'):
        cbs = []
        h = getattr(pool, api)(fn, it, callback=lambda v: cbs.append(('cb', v)),
                               error_callback=lambda v: cbs.append(('eb', v)), **_chunk_kw(c))

        def collect():
            out = _value_outcome(lambda: h.get(GET_TIMEOUT), True)
            if out[0] == 'ok':
                # the success callback got the same list
                t_end = time.monotonic() + 5
                while not cbs and time.monotonic() < t_end:
                    time.sleep(0.001)
                cb = [v for k, v in cbs if k == 'cb']
                out.append(['cb', [[canon(x) for x in v] if type(v) is list else canon(v)
                                   for v in cb]])
            return out
        return collect
    if api in ('imap', 'imap_unordered'):
        r = getattr(pool, api)(fn, it, **_chunk_kw(c))
        return lambda: drain_iterator(r, style, c['n'] + 3)
    raise ValueError(api)


# --------------------------------------------------------------------------
# SIGSTOP / SIGCONT of random workers so that chunks finish out of order
# --------------------------------------------------------------------------

class StopCont:
    def __init__(self, pids, seed):
        self.pids = list(pids)
        self.rng = random.Random('c02-stop/%s' % seed)
        self.n = 0
        self._stop = threading.Event()
        self._t = threading.Thread(target=self._run, daemon=True)
        self._t.start()

    def _run(self):
        while not self._stop.is_set():
            pid = self.rng.choice(self.pids)
            try:
                os.kill(pid, signal.SIGSTOP)
                self.n += 1
                try:
                    self._stop.wait(self.rng.choice([0.003, 0.01, 0.03]))
                finally:
                    os.kill(pid, signal.SIGCONT)
            except (ProcessLookupError, PermissionError):
                pass
            self._stop.wait(self.rng.choice([0.002, 0.01, 0.02]))

    def stop(self):
        self._stop.set()
        self._t.join(10)
        for pid in self.pids:
            try:
                os.kill(pid, signal.SIGCONT)
            except (ProcessLookupError, PermissionError):
                pass
        return self.n


# --------------------------------------------------------------------------
# the REAL-lane scenario (runs in vmon.realchild)
# --------------------------------------------------------------------------

STALL = 30.0     # a call is hung when it has not returned and no worker logged anything for this long
HARD = 200.0     # absolute cap per call


def _evlog_size():
    try:
        return os.stat(os.environ['VERIF_EVLOG']).st_size
    except (OSError, KeyError):
        return -1


def guarded(fn):
    """run a (possibly forever blocking) call in a helper thread; the verdict
    'hung' needs STALL seconds without any progress in the worker-side log"""
    box = []

    def run():
        try:
            box.append(('ok', fn()))
        except BaseException:                   # noqa
            import traceback
            box.append(('err', traceback.format_exc()))
    t = threading.Thread(target=run, daemon=True)
    t.start()
    t0 = last = time.monotonic()
    size = _evlog_size()
    while True:
        t.join(0.2)
        if not t.is_alive():
            break
        now = time.monotonic()
        sz = _evlog_size()
        if sz != size:
            size, last = sz, now
        if now - last > STALL or now - t0 > HARD:
            return ['hung', round(now - t0, 1), round(now - last, 1)]
    kind, v = box[0]
    if kind == 'err':
        raise RuntimeError('harness error inside a call: ' + v)
    return v


def sc_calls(params, obs, save):
    import billiard
    from billiard.pool import Pool
    from vmon.real import Heartbeat
    hb = Heartbeat()
    kw = {'processes': params['nproc']}
    if params.get('ctx'):
        kw['context'] = billiard.get_context(params['ctx'])
    pool = Pool(**kw)
    pids = [w.pid for w in pool._pool]
    obs['worker_pids'] = pids
    # warm-up (not judged): workers of a spawn / forkserver pool may still be importing
    obs['warmup'] = _value_outcome(lambda: pool.apply_async(os.getpid).get(240), False)[0]
    obs['results'] = {}
    obs['in_progress'] = None
    obs['aborted_at'] = None
    stopper = StopCont(pids, params.get('seed', 0)) if params.get('stopcont') else None

    def finish(c, out):
        obs['results'][c['cid']] = out
        log('call_end', c=c['cid'])
        if out and out[0] == 'hung':
            obs['aborted_at'] = c['cid']
            return False
        return True
    try:
        for batch in params['batches']:
            if obs['aborted_at']:
                break
            if batch['mode'] == 'seq':
                for c in batch['calls']:
                    obs['in_progress'] = [c['cid']]
                    save()
                    log('call', c=c['cid'], api=c['api'])
                    if not finish(c, guarded(lambda: submit(pool, c)())):
                        break
            else:
                obs['in_progress'] = [c['cid'] for c in batch['calls']]
                save()
                cols = []
                for c in batch['calls']:
                    log('call', c=c['cid'], api=c['api'])
                    cols.append((c, submit(pool, c)))
                for j in batch['collect']:
                    c, col = cols[j]
                    if not finish(c, guarded(col)):
                        break
            if not obs['aborted_at']:
                obs['in_progress'] = None
    finally:
        if stopper is not None:
            obs['stops'] = stopper.stop()
    obs['worst_stall'] = hb.stop()
    obs['cache_left'] = len(pool._cache)
    save()
    # teardown is not this property's business: bounded, then by force
    t = threading.Thread(target=lambda: (pool.terminate(), pool.join()), daemon=True)
    t.start()
    t.join(8)
    obs['teardown_ok'] = not t.is_alive()
    for pid in ([] if obs['teardown_ok'] else pids):
        try:
            os.kill(pid, signal.SIGKILL)
        except (ProcessLookupError, PermissionError):
            pass
