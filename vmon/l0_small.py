"""Lane L0 monitors for two small pure-Python classes used by the pool:
LaxBoundedSemaphore (C10) and restart_state (C11)."""
import threading
import time

from vmon.core import rng_for


# ---------------------------------------------------------------- C10 --

def sem_read(sem):
    with sem._cond:
        return sem._value, sem._initial_value


def c10_sequential(spec, rec):
    """reference model: a counter with a cap, compared after every
    operation of a seeded single-threaded sequence"""
    from billiard.pool import LaxBoundedSemaphore
    rng = rng_for(spec['seed'], 'semseq')
    for case in range(spec['cases']):
        size = rng.choice([1, 1, 2, 3, 4, 8])
        sem = LaxBoundedSemaphore(size)
        v, b = size, size
        ops = []
        attrs = {'lane': 'l0', 'mode': 'sequential'}
        seen = set()
        for step in range(rng.choice([20, 60, 150])):
            op = rng.choice(['acq', 'acq', 'acq_t', 'rel', 'rel', 'rel', 'grow', 'shrink', 'clear'])
            if op == 'acq':
                got = sem.acquire(False)
                want = v > 0
                if want:
                    v -= 1
                if got != want:
                    rec.violation('acquire_result_differs_from_model', attrs, ops=ops[-30:],
                                  got=got, want=want)
                    break
            elif op == 'acq_t':
                t0 = time.monotonic()
                got = sem.acquire(True, 0.001 if v == 0 else 1.0)
                want = v > 0
                if want:
                    v -= 1
                if got != want:
                    rec.violation('acquire_result_differs_from_model', attrs, ops=ops[-30:],
                                  got=got, want=want)
                    break
            elif op == 'rel':
                sem.release()
                v = min(v + 1, b)
                if v == b:
                    seen.add('release_at_cap')
            elif op == 'grow':
                sem.grow()
                b += 1
                v += 1
            elif op == 'shrink':
                if v == 0 or b <= 1:
                    continue        # would block / make the bound zero
                sem.shrink()
                b -= 1
                v -= 1
            elif op == 'clear':
                sem.clear()
                v = b
            ops.append(op)
            seen.add(op)
            rv, rb = sem_read(sem)
            rec.count('l0:sem_ops')
            if rv > rb or rv < 0:
                rec.violation('slot_semaphore_out_of_bounds', attrs, ops=ops[-30:],
                              value=rv, bound=rb)
                break
            if (rv, rb) != (v, b):
                rec.violation('semaphore_differs_from_model', attrs, ops=ops[-30:],
                              value=rv, bound=rb, model_value=v, model_bound=b)
                break
        rec.case()
        if 'release_at_cap' in seen and 'grow' in seen and 'shrink' in seen:
            rec.sig(['semseq', size, sorted(seen), min(len(ops) // 20, 5)])
        rec.count('l0:release_at_cap', 1 if 'release_at_cap' in seen else 0)
        rec.sample({'size': size, 'ops': ops[:40]})


def c10_threads(spec, rec):
    """many threads: bound invariant under the semaphore's own lock, no lost
    wake-up (every blocked acquirer gets through once enough releases /
    grows happened), conservation at quiescence"""
    from billiard.pool import LaxBoundedSemaphore
    rng = rng_for(spec['seed'], 'semmt')
    import sys
    old = sys.getswitchinterval()
    sys.setswitchinterval(1e-5)
    try:
        for case in range(spec['cases']):
            size = rng.choice([1, 2, 3, 4])
            nthreads = rng.choice([2, 4, 6, 8])
            per = rng.choice([50, 200])
            sem = LaxBoundedSemaphore(size)
            attrs = {'lane': 'l0', 'mode': 'threads'}
            bad = []
            inside = [0]
            maxinside = [0]
            lock = threading.Lock()
            stop = threading.Event()
            extra = [0]

            def worker(k):
                r = rng_for(spec['seed'], 'w', case, k)
                for _ in range(per):
                    if not sem.acquire(True, 20):
                        bad.append(('acquire_timed_out_although_slots_are_released', k))
                        return
                    with lock:
                        inside[0] += 1
                        maxinside[0] = max(maxinside[0], inside[0])
                        bound_now = size + extra[0]
                        if inside[0] > bound_now:
                            bad.append(('more_holders_than_slots', inside[0], bound_now))
                    if r.random() < 0.3:
                        time.sleep(0)
                    with lock:
                        inside[0] -= 1
                    sem.release()

            def watcher():
                while not stop.is_set():
                    v, b = sem_read(sem)
                    rec.count('l0:sem_reads_mt')
                    if v > b or v < 0:
                        bad.append(('out_of_bounds', v, b))
                    time.sleep(0.0005)

            def grower():
                # grow while others are blocked: the wake-up must not be lost
                r = rng_for(spec['seed'], 'g', case)
                for _ in range(3):
                    time.sleep(r.random() * 0.01)
                    with lock:
                        sem.grow()
                        extra[0] += 1

            ths = [threading.Thread(target=worker, args=(k,)) for k in range(nthreads)]
            aux = [threading.Thread(target=watcher), threading.Thread(target=grower)]
            for t in ths + aux:
                t.start()
            for t in ths:
                t.join(60)
            stop.set()
            for t in aux:
                t.join(5)
            alive = [t for t in ths if t.is_alive()]
            if alive:
                bad.append(('threads_still_blocked', len(alive)))
            v, b = sem_read(sem)
            if not alive and (v != b or b != size + 3):
                bad.append(('not_all_slots_free_at_quiescence', v, b))
            for x in bad[:3]:
                rec.violation('semaphore_mt_' + x[0], attrs, detail=x, size=size,
                              threads=nthreads)
            rec.case()
            rec.count('l0:sem_mt_acquires', nthreads * per)
            rec.sig(['semmt', size, nthreads, per, maxinside[0]])
    finally:
        sys.setswitchinterval(old)


def c10_cap_race(spec, rec):
    """several threads give slots back at the same moment while the semaphore
    is one below its bound (what the result handler, the supervisor and
    close() do concurrently).  Thread switches are injected at every line of
    the semaphore's release/clear/grow with a sys.monitoring LINE hook
    (yield injection), so the racing pair is visited at every pair of
    positions.  Oracle: the bound, read under the semaphore's own lock."""
    import sys
    from billiard import pool as bp
    rng = rng_for(spec['seed'], 'semrace')
    M = sys.monitoring
    TOOL = 2
    codes = [getattr(bp.LaxBoundedSemaphore, n).__code__ for n in ('release', 'clear', 'grow')
             if hasattr(bp.LaxBoundedSemaphore, n)]
    hits = [0]

    def on_line(code, line):
        hits[0] += 1
        time.sleep(0)           # hand the GIL to another thread here
    M.use_tool_id(TOOL, 'vmon-c10')
    M.register_callback(TOOL, M.events.LINE, on_line)
    for c in codes:
        M.set_local_events(TOOL, c, M.events.LINE)
    old = sys.getswitchinterval()
    sys.setswitchinterval(1e-6)
    try:
        for case in range(spec['cases']):
            size = rng.choice([1, 2, 3])
            ops = rng.choice([['release', 'release'], ['release', 'release', 'release'],
                              ['release', 'clear'], ['clear', 'clear'],
                              ['release', 'clear', 'release']])
            sem = bp.LaxBoundedSemaphore(size)
            sem.acquire()                    # exactly one slot taken
            barrier = threading.Barrier(len(ops))

            def run(op):
                barrier.wait()
                getattr(sem, op)()
            ths = [threading.Thread(target=run, args=(op,)) for op in ops]
            for t in ths:
                t.start()
            for t in ths:
                t.join(30)
            v, b = sem_read(sem)
            rec.case()
            rec.count('l0:cap_race_rounds')
            attrs = {'lane': 'l0', 'mode': 'cap_race', 'ops': '+'.join(sorted(set(ops)))}
            if v > b or v < 0:
                rec.violation('slot_semaphore_out_of_bounds', attrs, value=v, bound=b, ops=ops,
                              size=size)
            elif v != b:
                rec.violation('slot_not_returned', attrs, value=v, bound=b, ops=ops)
            rec.sig(['semrace', size, ops])
    finally:
        sys.setswitchinterval(old)
        for c in codes:
            M.set_local_events(TOOL, c, 0)
        M.register_callback(TOOL, M.events.LINE, None)
        M.free_tool_id(TOOL)
    rec.count('l0:yield_injections', hits[0])


def c10_wakeups(spec, rec):
    """no lost wake-up: a submitter blocked on a full semaphore is released
    by release() and by grow()"""
    from billiard.pool import LaxBoundedSemaphore
    rng = rng_for(spec['seed'], 'semwake')
    for case in range(spec['cases']):
        size = rng.choice([1, 2, 3])
        how = rng.choice(['grow', 'release', 'shrink_full'])
        sem = LaxBoundedSemaphore(size)
        for _ in range(size):
            sem.acquire()
        if how == 'shrink_full':
            # shrink while every slot is taken: the pool gets smaller as soon
            # as a slot comes back; nobody may be served in the meantime
            size = size + 1
            sem.grow()
            sem.acquire()
            attrs = {'lane': 'l0', 'mode': 'shrink_while_full'}
            th = threading.Thread(target=sem.shrink, daemon=True)
            th.start()
            time.sleep(rng.choice([0.0, 0.005, 0.03]))
            rec.case()
            rec.count('l0:shrink_while_full')
            extra = 0
            while extra < 20 and sem.acquire(False):
                extra += 1
            if extra:
                rec.violation('slot_granted_while_all_taken', attrs, size=size, granted=extra,
                              state=list(sem_read(sem)))
                continue
            sem.release()
            th.join(15)
            if th.is_alive():
                rec.violation('shrink_never_completed_after_release', attrs, size=size)
                continue
            if sem.acquire(False):
                rec.violation('slot_granted_while_all_taken', dict(attrs, after='shrink'), size=size,
                              state=list(sem_read(sem)))
                continue
            for _ in range(size - 1):
                sem.release()
            rv, rb = sem_read(sem)
            if (rv, rb) != (size - 1, size - 1):
                rec.violation('semaphore_differs_from_model', attrs, value=rv, bound=rb,
                              model_value=size - 1, model_bound=size - 1)
            rec.sig(['semshrinkfull', size])
            continue
        got = {}
        started = threading.Event()

        def waiter():
            started.set()
            t0 = time.monotonic()
            got['ok'] = sem.acquire(True, 40)
            got['dt'] = time.monotonic() - t0
        th = threading.Thread(target=waiter, daemon=True)
        th.start()
        started.wait(5)
        time.sleep(rng.choice([0.0, 0.01, 0.05]))
        if how == 'grow':
            sem.grow()
        else:
            sem.release()
        th.join(45)
        rec.case()
        rec.count('l0:wakeups_' + how)
        attrs = {'lane': 'l0', 'mode': 'wakeup', 'by': how}
        if not got.get('ok'):
            rec.violation('blocked_acquirer_never_released', attrs, got=got, size=size)
        elif got['dt'] > 12.0:
            rec.violation('blocked_acquirer_woken_only_by_its_timeout', attrs, got=got, size=size)
        rec.sig(['semwake', size, how])


# ---------------------------------------------------------------- C11 --

class LimiterModel:
    """The statement, executable: within one window of W seconds, opened by
    the first restart, at most maxR are admitted and the next one raises; the
    count starts afresh when the window has expired or a job was accepted."""

    def __init__(self, maxR, W):
        self.maxR, self.W = maxR, W
        self.T0, self.n = None, 0

    def step(self, now):
        if self.T0 is not None and now - self.T0 >= self.W:
            self.T0, self.n = now, 0
        elif self.n >= self.maxR:
            return 'raise'
        if self.T0 is None:
            self.T0 = now
        self.n += 1
        return 'admit'

    def accepted(self):
        self.n = 0


def c11_sequences(spec, rec):
    from billiard.common import restart_state
    from billiard.exceptions import RestartFreqExceeded
    rng = rng_for(spec['seed'], 'limiter')
    attrs = {'lane': 'l0', 'mode': 'restart_state'}
    for case in range(spec['cases']):
        maxR = rng.choice([1, 2, 3, 5, 8])
        W = rng.choice([0.5, 1, 2, 5, 10])
        rs = restart_state(maxR, W)
        m = LimiterModel(maxR, W)
        now = 100.0 + rng.random() * 1000
        hist = []
        seen = set()
        grid = rng.random() < 0.5       # gaps on a grid hit the window edge exactly
        for k in range(rng.choice([5, 20, 60])):
            gap = (rng.choice([0, 0.25, 0.5, 1.0, 2.0, 5.0]) if grid
                   else rng.random() * rng.choice([0.1, 1, 3, 12]))
            now += gap
            if rng.random() < 0.15:
                rs.R = 0                 # what ResultHandler.on_ack does
                m.accepted()
                hist.append(('accepted', round(now, 3)))
                seen.add('accepted')
                continue
            want = m.step(now)
            try:
                rs.step(now)
                got = 'admit'
            except RestartFreqExceeded:
                got = 'raise'
            hist.append((got, round(now, 3)))
            seen.add(got)
            rec.count('l0:limiter_steps')
            if got != want:
                rec.violation('limiter_differs_from_statement_model', attrs,
                              maxR=maxR, window=W, history=hist[-25:], want=want, got=got)
                break
            if got == 'raise':
                rec.count('l0:limiter_raises')
                # what follows a raise is not specified: resynchronise
                m.n = rs.R
                m.T0 = rs.T
            if want == 'admit' and m.n == 1 and m.T0 == now and k > 0:
                seen.add('window_reopened')
        rec.case()
        if 'raise' in seen and ('accepted' in seen or 'window_reopened' in seen):
            rec.sig(['limiter', maxR, W, grid, sorted(seen), min(len(hist) // 10, 6)])
        rec.sample({'maxR': maxR, 'window': W, 'history': hist[:30]})
