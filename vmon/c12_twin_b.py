"""twin module: vmon/c12_twin_a.py and vmon/c12_twin_b.py hold the same text,
so that their functions' code objects are equal but for the file they live in
(code-object equality and hash ignore co_filename)"""
from vmon import c12_helpers as H


def _twin(path, i, leaf):
    return H.nxt(path, i, leaf)(path, i + 1, leaf)
