"""C12 - exceptions and tracebacks cross the process boundary intact.

Three lanes, all driving the real billiard code:

* L0  billiard.einfo.ExceptionInfo / Traceback built in-process from seeded
      exceptions (builtin, user, BaseException subclasses; 0-4 args) raised
      through seeded call paths (1 frame ... 3x the frame limit, exactly at the
      limit +-2, genuine RecursionError), then 1..N pickle round trips.
* L3  a real billiard.pool.Worker.workloop running in a thread of the spec
      process over real pipe queues; the harness plays the parent: it sends
      TASK messages, reads ACK/READY (real unpickling) and decides.
* L2  real Pool(1|2) objects: apply_async / map_async / imap; what get(),
      error_callback and the iterator hand to the caller.

Oracles: (a) direct comparison with the exception the generator raised (type,
args, exception-only line); (b) the formatted traceback text - produced by the
stdlib from the *real* traceback - parsed back into frames and used as the
reference for the stand-in tb chain (prefix, completeness under the frame
limit, bound, truncation marker) and for "names the raising frame" (file, line
and function of the raise statement are known to the generator); in L0 the real
traceback object is walked as well; (c) stability: a snapshot (type, args, text,
per-node structure of the tb chain, stdlib-formatted output) after trip k must
equal the one after trip k+1; (d) protocol accounting for unserialisable
results: exactly one READY per job, it is a MaybeEncodingError failure, the
worker (pid / workloop thread) survives and the neighbouring jobs resolve.
Job loss is decided without a clock wherever the worker is sequential (a later
job of the same worker is acknowledged/ready while the earlier one is not)."""
import io
import os
import pickle
import queue
import re
import sys
import threading
import time
import traceback

from vmon.core import rng_for
from vmon import c12_helpers as H

PROPERTY = 'C12'
LEVEL = 'exploration'
TECHNIQUE = ('differential oracle against the raised exception and the real '
             'traceback (text parsed back to frames), k vs k+1 round-trip '
             'snapshots, READY/ACK accounting around unserialisable results')
RULE = ('seeded (exception class, args, call path, leaf) and (unpicklable leaf, '
        'nesting depth, containers) cases; a case is one record (ExceptionInfo) '
        'followed through its pickle round trips, or one pool/worker job; its '
        'signature is (lane, record kind, class family, number of args, leaf kind, '
        'depth bucket relative to the frame limit, truncated?, text folded?) or '
        '(lane, unserialisable leaf kind, nesting depth, outermost container); '
        'non-trivial = the record was really built by billiard, crossed at least '
        'one pickle boundary and every oracle ran on it')
ASSUMPTIONS = [
    'CPython pickle and the traceback module are trusted; the text billiard stores is used as a reference for the stand-in traceback only after it was itself checked against the generator (raising frame, exception line) and, in L0, against the real traceback object',
    'only exception types that round-trip through plain pickle in the harness process are generated (the property says "picklable")',
    'L3 runs Worker.workloop in a thread of the harness process (no fork): worker death is observed as the loop raising / ending early',
    'pickle protocols 3..5 are used (protocol 2 renames OSError subclasses by design of the stdlib) for the round trips; deepcopy and other serialisers are not covered',
]
NESTS = list(range(7))
BAD_KINDS = ['lambda', 'gen', 'lock', 'reduce_raises', 'getstate_raises', 'file',
             'local_instance', 'module', 'memoryview', 'frame']
FLOORS = {
    'quick': dict({
        'records_checked': 600, 'roundtrips': 2000, 'tb_nodes_walked': 40000,
        'truncated_records': 170, 'at_limit_records': 130, 'over_limit_records': 120,
        'complete_records': 400, 'recursion_errors': 15, 'base_exceptions': 80,
        'user_classes': 130, 'native_raises': 40, 'chained_text': 70,
        'folded_text': 120, 'stdlib_format_ok': 2500, 'cause_checked': 600,
        'raising_frame_named': 500, 'custom_max_frames': 180,
        'l3_jobs': 250, 'l3_ready': 240, 'l3_encoding_errors': 70,
        'l3_unpicklable_exc': 10, 'l3_survival_checks': 70, 'l3_exception_records': 80,
        'l2_pools': 9, 'l2_jobs': 130, 'l2_encoding_errors': 35,
        'l2_exception_records': 50, 'l2_pid_checks': 25, 'l2_get_raised': 70,
        'l2_errbacks': 70, 'l2_imap_failures': 12, 'l2_map_failures': 5,
    }, **{'unser_nest_%d' % d: 10 for d in NESTS},
        **{'unser_bad_' + k: 9 for k in BAD_KINDS}),
    'thorough': dict({
        'records_checked': 6000, 'roundtrips': 25000, 'tb_nodes_walked': 400000,
        'truncated_records': 1700, 'at_limit_records': 1300, 'over_limit_records': 1200,
        'complete_records': 4000, 'recursion_errors': 150, 'base_exceptions': 800,
        'user_classes': 1300, 'native_raises': 400, 'chained_text': 700,
        'folded_text': 1200, 'stdlib_format_ok': 25000, 'cause_checked': 6000,
        'raising_frame_named': 5000, 'custom_max_frames': 1800,
        'l3_jobs': 1800, 'l3_ready': 1800, 'l3_encoding_errors': 500,
        'l3_unpicklable_exc': 70, 'l3_survival_checks': 500, 'l3_exception_records': 550,
        'l2_pools': 29, 'l2_jobs': 800, 'l2_encoding_errors': 200,
        'l2_exception_records': 300, 'l2_pid_checks': 150, 'l2_get_raised': 400,
        'l2_errbacks': 400, 'l2_imap_failures': 60, 'l2_map_failures': 25,
    }, **{'unser_nest_%d' % d: 60 for d in NESTS},
        **{'unser_bad_' + k: 40 for k in BAD_KINDS}),
}
JOBS = 14
SPEC_TIMEOUT = 300
# the only verdict that depends on a wall-clock upper bound (2-worker pools,
# where the order of results does not settle whether a job is lost)
CONFIRM_ALONE = ('job_unresolved_after_timeout',)

RL = sys.getrecursionlimit()
TRUNC_NAME = '[rest of traceback truncated]'


def plan(tier, seed):
    q = tier == 'quick'
    specs = []
    for i in range(10 if q else 32):
        specs.append({'mode': 'l0', 'seed': seed * 1000 + i,
                      'cases': 80 if q else 300, 'max_trips': 5 if q else 8})
    for i in range(8 if q else 20):
        specs.append({'mode': 'l3', 'seed': seed * 1000 + 100 + i,
                      'batches': 3 if q else 8, 'jobs': 32})
    for i in range(8 if q else 28):
        specs.append({'mode': 'l2', 'seed': seed * 1000 + 200 + i,
                      'procs': 1 if i % 4 != 3 else 2,
                      'method': 'spawn' if i % 8 == 5 else 'fork',
                      'jobs': 36 if q else 70})
    # hostile representations: results whose repr() fails as well
    specs.append({'mode': 'hostile_l3', 'seed': seed * 1000 + 300})
    for i, kind in enumerate(('repr_raises', 'nested_beyond_recursion_limit')):
        specs.append({'mode': 'hostile_l2', 'seed': seed * 1000 + 310 + i, 'bad': kind})
    specs.append({'mode': 'hostile_map', 'seed': seed * 1000 + 320})
    return specs


# --------------------------------------------------------------------------
# billiard names (looked up late: a modified tree may lack some of them)
# --------------------------------------------------------------------------

class B:
    pass


def load_billiard(rec):
    b = B()
    from billiard import einfo as em
    b.em = em
    b.ExceptionInfo = em.ExceptionInfo
    b.Traceback = getattr(em, 'Traceback', None)
    b.RemoteTraceback = getattr(em, 'RemoteTraceback', None)
    b.EWT = getattr(em, 'ExceptionWithTraceback', None)
    mf = getattr(em, 'DEFAULT_MAX_FRAMES', None)
    if not isinstance(mf, int):
        rec.missing('einfo.DEFAULT_MAX_FRAMES')
        mf = RL // 8
    b.MAXF = mf
    # "depth is bounded": the chain may never be longer than limit + 3 nodes
    b.BOUND = min(mf, RL // 8) + 3
    # call paths are generated relative to the documented limit, whatever the
    # tree under test says
    b.GENF = max(8, min(mf, RL // 8))
    for name in ('Traceback', 'RemoteTraceback', 'EWT'):
        if getattr(b, name) is None:
            rec.missing('einfo.' + name)
    return b


# --------------------------------------------------------------------------
# generators
# --------------------------------------------------------------------------

FREE_BUILTINS = ['ValueError', 'TypeError', 'RuntimeError', 'KeyError', 'IndexError',
                 'LookupError', 'ArithmeticError', 'ZeroDivisionError',
                 'AssertionError', 'AttributeError', 'NameError',
                 'NotImplementedError', 'StopIteration', 'OSError', 'EOFError',
                 'MemoryError', 'RecursionError', 'Exception', 'ImportError',
                 'UnicodeError', 'TimeoutError', 'BufferError', 'FloatingPointError',
                 'Warning', 'UserWarning', 'ConnectionResetError', 'PermissionError']
BASE_CLASSES = ['BaseException', 'KeyboardInterrupt', 'SystemExit', 'GeneratorExit',
                'UserBase', 'UserExit', 'UserInterrupt']
USER_FREE = ['UserErr', 'UserErrState', 'UserErrStr', 'UserErrBadStr', 'UserKeyErr',
             'UserOSErr']
USER_FIXED = {'UserErrInit': (0, 2), 'UserErrReduce': (2, 2)}
STEP_KINDS = sorted(H.STEPS)
ONE_FRAME_STEPS = [k for k in STEP_KINDS if len(H.STEP_NAMES[k]) == 1]
STRS = ['', 'x', 'naïve ☃ \U0001F600', 'multi\nline\n  text', 'q"""q', "it's",
        'tab\there', '\\back\\slash', 'percent %s %d %%', '{curly}', ' lead', 'nul\x00in']
INTS = [0, 1, -1, 255, 2 ** 31, 2 ** 70, -2 ** 63, 10 ** 30]
BYTES = [b'', b'\x00\xff', b'bytes with "quotes"', bytes(range(256))]


def gen_value(rng, depth=0):
    r = rng.random()
    if r < 0.22:
        return rng.choice(INTS)
    if r < 0.47:
        return rng.choice(STRS)
    if r < 0.57:
        return rng.choice(BYTES)
    if r < 0.64:
        return rng.choice([None, True, False, 1.5, -0.0, 1e300])
    if r < 0.67:
        return 'L' * rng.choice([1000, 5000, 70000])
    if r < 0.69:
        return b'\x01' * rng.choice([3000, 66000])
    if depth >= 3:
        return rng.randrange(1000)
    if r < 0.85:
        return tuple(gen_value(rng, depth + 1) for _ in range(rng.randrange(0, 4)))
    if r < 0.91:
        return [gen_value(rng, depth + 1) for _ in range(rng.randrange(0, 3))]
    if r < 0.96:
        return {rng.choice(['k', 'a b', 1, (1, 2)]): gen_value(rng, depth + 1)
                for _ in range(rng.randrange(0, 3))}
    if r < 0.98:
        # (no sets: the repr of a set depends on its insertion history, which a
        # pickle round trip does not preserve)
        return range(rng.randrange(5), rng.randrange(5, 50), rng.choice([1, 3]))
    return H.Box(a=gen_value(rng, depth + 1))


def same_value(a, b):
    try:
        return repr(a) == repr(b) and (a == b or a != a)
    except Exception:
        return False


def gen_leaf(rng, allow_bad_arg=False):
    """-> leaf description for c12_helpers (what is raised and how)"""
    r = rng.random()
    if r < 0.10:
        return {'how': rng.choice(H.NATIVE_LEAVES), 'family': 'native'}
    if r < 0.14:
        return {'how': 'recursion', 'family': 'recursion'}
    r = rng.random()
    if r < 0.50:
        cls, family, lo, hi = rng.choice(FREE_BUILTINS), 'builtin', 0, 4
    elif r < 0.68:
        cls, family, lo, hi = rng.choice(BASE_CLASSES), 'base', 0, 4
    elif r < 0.92:
        cls, family, lo, hi = rng.choice(USER_FREE), 'user', 0, 4
    else:
        cls = rng.choice(sorted(USER_FIXED))
        family = 'user'
        lo, hi = USER_FIXED[cls]
    how = rng.choice(['plain', 'plain', 'plain', 'from', 'handler', 'class'])
    if how == 'class':
        args = ()
    else:
        args = tuple(gen_value(rng) for _ in range(rng.randint(lo, hi)))
    leaf = {'how': how, 'cls': cls, 'args': args, 'family': family}
    if allow_bad_arg and how != 'class' and hi >= 1:
        kind = rng.choice(BAD_KINDS)
        bad = H.Bad(kind, rng.choice(H.REDUCE_ERRORS) if kind == 'reduce_raises' else None)
        a = list(args) or [0]
        k = rng.randrange(len(a))
        a[k] = bad if rng.random() < 0.6 else (a[k], [bad])
        leaf['args'] = tuple(a[:max(hi, 1)])
        leaf['bad_arg'] = kind
    return leaf


def gen_path(rng, maxf, prefix, bucket=None):
    """call path whose traceback has a chosen number of entries (prefix = the
    entries contributed by the lane before run_path's callee, leaf included)"""
    if bucket is None:
        r = rng.random()
        bucket = ('shallow' if r < 0.42 else 'medium' if r < 0.55 else
                  'limit' if r < 0.85 else 'beyond')
    if bucket == 'shallow':
        frames = rng.randrange(0, 13)
    elif bucket == 'medium':
        frames = rng.randrange(13, max(14, maxf - 4))
    elif bucket == 'limit':
        total = maxf + rng.randrange(-2, 7)          # entries in the traceback
        frames = max(0, total - prefix)
    else:
        frames = rng.randrange(maxf + 4, 3 * maxf + 1)
    style = rng.choice(['same', 'alt', 'mixed', 'mixed'])
    path = []
    n = 0
    one = rng.choice(ONE_FRAME_STEPS)
    while n < frames:
        if style == 'same':
            k = one
        elif style == 'alt':
            k = ('f', 'g')[len(path) % 2]
        else:
            k = rng.choice(STEP_KINDS)
        if n + len(H.STEP_NAMES[k]) > frames:
            k = rng.choice(ONE_FRAME_STEPS)
        path.append(k)
        n += len(H.STEP_NAMES[k])
    return path, style


def fix_path_for(leaf, path):
    # PEP 479: StopIteration crossing a generator frame becomes RuntimeError;
    # keep generator frames out of those paths (and of GeneratorExit ones)
    if leaf.get('cls') in ('StopIteration', 'StopAsyncIteration', 'GeneratorExit'):
        return [('f' if k == 'gen' else k) for k in path]
    return path


def expectation(leaf):
    """what the generator raises, computed locally -> dict or None when the
    exception does not round-trip through plain pickle here (out of scope)"""
    how = leaf['how']
    if how == 'recursion':
        return {'type': RecursionError, 'args': None, 'exc': None,
                'raising': (H.THIS_FILE, H.RAISE_LINES['_recurse'], '_recurse')}
    if how in H.NATIVE_LEAVES:
        exc = H.native_exception(how)
    elif how == 'class':
        exc = H.resolve_class(leaf['cls'])()
    else:
        exc = H.build_exc(leaf)
    try:
        back = exc
        for proto in (3, 4, 5):
            back = pickle.loads(pickle.dumps(back, proto))
            if type(back) is not type(exc) or not same_value(back.args, exc.args):
                return None
    except Exception:
        return None
    name = H.LEAF_NAMES[how]
    return {'type': type(exc), 'args': exc.args, 'exc': exc,
            'raising': (H.THIS_FILE, H.RAISE_LINES[name], name)}


def gen_unser(rng, hostile=None):
    """a result that cannot be pickled: Bad leaf at nesting depth 0..6"""
    kind = hostile or rng.choice(BAD_KINDS)
    arg = rng.choice(H.REDUCE_ERRORS) if kind in ('reduce_raises', 'repr_raises') else None
    val = H.Bad(kind, arg)
    depth = rng.randrange(0, 7)
    outer = 'leaf'
    for _ in range(depth):
        c = rng.choice(['list', 'tuple', 'dict', 'box', 'listdict'])
        sib = gen_value(rng, 2)
        if c == 'list':
            val = [sib, val] if rng.random() < 0.5 else [val]
        elif c == 'tuple':
            val = (val, sib)
        elif c == 'dict':
            val = {'sib': sib, 'bad': val}
        elif c == 'box':
            val = H.Box(x=val, y=sib)
        else:
            val = [{'k': (val,)}]
        outer = c
    return val, {'bad': kind, 'arg': arg, 'nest': depth, 'outer': outer}


# --------------------------------------------------------------------------
# observation helpers
# --------------------------------------------------------------------------

FILE_RE = re.compile(r'^  File "(.*)", line (-?\d+), in (.*)$')
REPEAT_RE = re.compile(r'^  \[Previous line repeated (\d+) more times?\]$')
TB_HEAD = 'Traceback (most recent call last):'


def parse_tb_text(text):
    """frames (file, line, name) of the LAST traceback block in a formatted
    traceback, with '[Previous line repeated N more times]' expanded"""
    lines = text.split('\n')
    heads = [i for i, ln in enumerate(lines) if ln == TB_HEAD]
    if not heads:
        return None, False
    entries, folded = [], False
    for ln in lines[heads[-1] + 1:]:
        m = FILE_RE.match(ln)
        if m:
            entries.append((m.group(1), int(m.group(2)), m.group(3)))
            continue
        m = REPEAT_RE.match(ln)
        if m and entries:
            entries.extend([entries[-1]] * int(m.group(1)))
            folded = True
    return entries, folded


def walk_real_tb(tb):
    out = []
    while tb is not None:
        co = tb.tb_frame.f_code
        out.append((co.co_filename, tb.tb_lineno, co.co_name))
        tb = tb.tb_next
    return out


def node_is_marker(tb):
    try:
        if type(tb).__name__ == '_Truncated':
            return True
        return tb.tb_frame.f_code.co_name == TRUNC_NAME
    except Exception:
        return False


def walk_standin(tb, limit=20000):
    """-> (nodes, structure).  nodes: (file, line, name, is_marker);
    structure: per-node tuple of everything a formatter may look at"""
    nodes, struct = [], []
    seen = 0
    while tb is not None and seen < limit:
        seen += 1
        fr = tb.tb_frame
        co = fr.f_code
        marker = node_is_marker(tb)
        nodes.append((co.co_filename, tb.tb_lineno, co.co_name, marker))
        pos = None
        try:
            pos = tuple(co.co_positions())
        except Exception:
            pos = 'n/a'
        g = getattr(fr, 'f_globals', None)
        struct.append((
            type(tb).__name__, co.co_filename, co.co_name, tb.tb_lineno,
            getattr(tb, 'tb_lasti', 'n/a'), getattr(fr, 'f_lineno', 'n/a'),
            getattr(fr, 'f_lasti', 'n/a'), getattr(co, 'co_firstlineno', 'n/a'),
            getattr(co, 'co_qualname', 'n/a'), getattr(co, 'co_argcount', 'n/a'),
            getattr(co, 'co_flags', 'n/a'), repr(getattr(co, 'co_names', 'n/a')),
            pos,
            (g.get('__file__'), g.get('__name__')) if isinstance(g, dict) else 'n/a',
            repr(sorted(getattr(fr, 'f_locals', {}) or {})),
        ))
        tb = tb.tb_next
    return nodes, struct


def stdlib_format(etype, exc, tb, full=True):
    """render a record with the traceback module (full: every common entry
    point); -> (text without chaining, FrameSummary triples or None)"""
    out = ''.join(traceback.format_exception(etype, exc, tb, chain=False))
    if not full:
        return out, None
    fs = traceback.extract_tb(tb)
    ''.join(traceback.format_exception(etype, exc, tb))          # chained
    ''.join(traceback.format_tb(tb))
    buf = io.StringIO()
    traceback.print_exception(etype, exc, tb, file=buf)
    te = traceback.TracebackException(etype, exc, tb)
    ''.join(te.format())
    list(traceback.walk_tb(tb))
    return out, [(f.filename, f.lineno, f.name) for f in fs]


def depth_bucket(n, maxf):
    if n <= maxf - 3:
        return 'under_limit'
    if n <= maxf + 5:
        return 'at_limit'
    return 'over_limit'


def short(o, n=300):
    r = repr(o)
    return r if len(r) <= n else r[:n] + '...<%d chars>' % len(r)


class Once:
    """report each (kind, attrs) once per spec, count the rest"""

    def __init__(self, rec):
        self.rec, self.seen = rec, set()

    def violation(self, kind, attrs, **detail):
        key = (kind, tuple(sorted(attrs.items())))
        self.rec.count('v:' + kind)
        if key in self.seen:
            return
        self.seen.add(key)
        self.rec.violation(kind, attrs, **detail)


# --------------------------------------------------------------------------
# the record oracle (shared by all lanes)
# --------------------------------------------------------------------------

def check_record(ctx, einfo, exp, lane, trips_done, real_chain=None,
                 n_trips=5, rng=None, record='exception', sig_extra=()):
    """einfo: the ExceptionInfo as the observer got it (trips_done = number of
    pickle boundaries it already crossed).  exp: expectation() dict, plus
    optional 'names' (helper frame names) - or for encoding errors a dict with
    type only.  Returns True when every oracle could run."""
    rec, b, V = ctx.rec, ctx.b, ctx.once
    attrs = {'lane': lane, 'record': record, 'family': exp.get('family', '?')}
    rec.count('records_checked')

    # -- 1. shape ---------------------------------------------------------
    try:
        etype, eexc, etb, etext = einfo.type, einfo.exception, einfo.tb, einfo.traceback
    except Exception as e:
        V.violation('record_malformed', attrs, error=repr(e), got=short(einfo))
        return False
    if not isinstance(etext, str):
        V.violation('record_malformed', attrs, what='traceback text is not a str',
                    got=short(etext))
        return False

    def unwrap(x):
        # before the first pickle boundary the exception is wrapped
        if b.EWT is not None and type(x) is b.EWT:
            return x.exc
        return x
    exc0 = unwrap(eexc)

    # -- 2. type and args against what the generator raised -----------------
    want_t = exp['type']
    if etype is not want_t or type(exc0) is not want_t:
        V.violation('type_changed', attrs, want=want_t.__name__,
                    record_type=getattr(etype, '__name__', repr(etype)),
                    exception_type=type(exc0).__name__, trips=trips_done)
    if exp.get('args') is not None:
        if not same_value(getattr(exc0, 'args', None), exp['args']):
            V.violation('args_changed', attrs, want=short(exp['args']),
                        got=short(getattr(exc0, 'args', None)), trips=trips_done,
                        cls=want_t.__name__)
    elif exp.get('args_pred') is not None:
        if not exp['args_pred'](getattr(exc0, 'args', None)):
            V.violation('args_changed', attrs, got=short(getattr(exc0, 'args', None)),
                        trips=trips_done, cls=want_t.__name__)
    if exp.get('family') == 'base':
        rec.count('base_exceptions')
    elif exp.get('family') == 'user':
        rec.count('user_classes')
    elif exp.get('family') == 'native':
        rec.count('native_raises')
    elif exp.get('family') == 'recursion':
        rec.count('recursion_errors')

    # -- 3. the text: names the raising frame, ends with the exception ------
    entries, folded = parse_tb_text(etext)
    if not entries:
        V.violation('text_has_no_frames', attrs, text=etext[-600:])
        return False
    if folded:
        rec.count('folded_text')
    if etext.count(TB_HEAD) > 1:
        rec.count('chained_text')
    n = len(entries)
    attrs_d = dict(attrs, depth=depth_bucket(n, b.MAXF))
    if exp.get('raising') is not None:
        if entries[-1] != tuple(exp['raising']):
            V.violation('text_does_not_name_raising_frame', attrs_d,
                        want=exp['raising'], last_frame_in_text=entries[-1],
                        frames_in_text=n)
        else:
            rec.count('raising_frame_named')
    try:
        only = ''.join(traceback.format_exception_only(type(exc0), exc0))
    except Exception as e:
        only = None
        V.violation('exception_not_formattable', attrs, error=repr(e))
    if only is not None and not etext.endswith(only):
        V.violation('text_wrong_exception_line', attrs, want_tail=only[-300:],
                    text_tail=etext[-300:])
    if exp.get('names') is not None:
        names = [e[2] for e in entries]
        k = exp.get('prefix_len')
        if k is None:
            # helper frames start at run_path
            k = next((i for i, e in enumerate(entries)
                      if e[0] == H.THIS_FILE and e[2] == 'run_path'), None)
            k = None if k is None else k + 1
        w = exp['names']
        if k is None or names[k:k + len(w)] != w or \
                (names[k + len(w):] and (exp.get('how') != 'recursion' or
                                         set(names[k + len(w):]) != {'_recurse'})):
            # the text comes from the stdlib over the real traceback: treat a
            # disagreement with the generator as a harness problem, loudly
            rec.anomaly('text_frames_differ_from_generated_path',
                        want=short(exp['names'], 400), got=short(names, 400))
    if real_chain is not None and entries != real_chain:
        V.violation('text_differs_from_real_traceback', attrs_d,
                    real=short(real_chain[-4:]), text=short(entries[-4:]),
                    n_real=len(real_chain), n_text=n)
    ref = real_chain if real_chain is not None else entries

    # -- 4. the stand-in chain ------------------------------------------------
    try:
        nodes, struct = walk_standin(etb)
    except Exception as e:
        V.violation('tb_chain_not_walkable', attrs_d, error=repr(e),
                    tb=traceback.format_exc()[-800:])
        return False
    rec.count('tb_nodes_walked', len(nodes))
    chain_ok = check_chain(ctx, nodes, ref, attrs_d, b.MAXF, b.BOUND)
    has_marker = bool(nodes) and nodes[-1][3]
    if has_marker:
        rec.count('truncated_records')
    else:
        rec.count('complete_records')
    bucket = depth_bucket(n, b.MAXF)
    rec.count({'under_limit': 'under_limit_records', 'at_limit': 'at_limit_records',
               'over_limit': 'over_limit_records'}[bucket])

    # -- 5. the stdlib can format it --------------------------------------------
    def fmt(e, full=True):
        x = unwrap(e.exception)
        return stdlib_format(e.type, x, e.tb, full)
    try:
        out0, fs0 = fmt(einfo)
        rec.count('stdlib_format_ok')
    except Exception as e:
        V.violation('tb_not_formattable', attrs_d, error=repr(e),
                    tb=traceback.format_exc()[-1200:], trips=trips_done)
        out0, fs0 = None, None
    if fs0 is not None:
        if fs0 != [nd[:3] for nd in nodes]:
            V.violation('stdlib_sees_other_frames', attrs_d,
                        extract_tb=short(fs0[-3:]), chain=short(nodes[-3:]))
        if only is not None and not out0.endswith(only):
            V.violation('formatted_record_wrong_exception_line', attrs_d,
                        want_tail=only[-200:], got_tail=out0[-200:])
        if chain_ok and not has_marker and exp.get('raising') is not None:
            want_line = '  File "%s", line %d, in %s' % tuple(exp['raising'])
            if want_line not in out0:
                V.violation('formatted_record_does_not_name_raising_frame', attrs_d,
                            want=want_line, got_tail=out0[-500:])

    # -- 6. the cause seen by whoever catches the exception ------------------------
    if trips_done == 1:
        check_cause(ctx, exc0, etext, attrs)

    # -- 7. k vs k+1 round trips -----------------------------------------------------
    def snapshot(e, formatted):
        x = unwrap(e.exception)
        nd, st = walk_standin(e.tb)
        return {'type': (e.type, type(x)), 'args': repr(getattr(x, 'args', None)),
                'text': e.traceback, 'tb': st, 'formatted': formatted,
                'internal': getattr(e, 'internal', None)}
    prev = snapshot(einfo, out0)
    cur = einfo
    rng = rng or rng_for(0, 'trips')
    for k in range(1, n_trips + 1):
        proto = rng.choice([3, 4, 5, pickle.HIGHEST_PROTOCOL])
        try:
            data = pickle.dumps(cur, proto)
            cur = pickle.loads(data)
        except Exception as e:
            V.violation('record_not_picklable', attrs_d, trip=trips_done + k,
                        protocol=proto, error=short(e), frames=n,
                        tb=traceback.format_exc()[-1000:])
            return False
        rec.count('roundtrips')
        try:
            out_k, _fs = fmt(cur, full=(k == n_trips))
            rec.count('stdlib_format_ok')
        except Exception as e:
            V.violation('tb_not_formattable', attrs_d, error=repr(e),
                        tb=traceback.format_exc()[-1200:], trips=trips_done + k)
            out_k = None
        try:
            snap = snapshot(cur, out_k)
        except Exception as e:
            V.violation('tb_chain_not_walkable', attrs_d, error=repr(e),
                        trips=trips_done + k)
            return False
        for what in ('type', 'args', 'text', 'tb', 'formatted', 'internal'):
            if snap[what] != prev[what]:
                a = dict(attrs, what=what)
                if what in ('tb', 'formatted'):
                    a['depth'] = bucket
                detail = {'before_trip': trips_done + k - 1, 'after_trip': trips_done + k,
                          'cls': want_t.__name__}
                if what == 'tb':
                    i = next((j for j, (x, y) in enumerate(zip(prev['tb'], snap['tb']))
                              if x != y), min(len(prev['tb']), len(snap['tb'])))
                    detail.update(first_differing_node=i,
                                  before=short(prev['tb'][i:i + 1], 500),
                                  after=short(snap['tb'][i:i + 1], 500),
                                  len_before=len(prev['tb']), len_after=len(snap['tb']))
                else:
                    detail.update(before=short(prev[what], 500), after=short(snap[what], 500))
                V.violation('changed_by_round_trip', a, **detail)
        if trips_done + k == 1:
            check_cause(ctx, cur.exception, cur.traceback, attrs)
        prev = snap
    rec.case()
    rec.sig([lane, record, exp.get('family'), exp.get('nargs'), exp.get('how'),
             bucket, has_marker, folded] + list(sig_extra))
    return True


def check_chain(ctx, nodes, ref, attrs, maxf, bound):
    """nodes: stand-in chain; ref: frames of the real traceback"""
    V = ctx.once
    ok = True
    if not nodes:
        V.violation('tb_chain_empty', attrs, frames=len(ref))
        return False
    if len(nodes) > bound:
        V.violation('tb_chain_unbounded', attrs, chain_length=len(nodes), bound=bound,
                    real_frames=len(ref))
        ok = False
    markers = [i for i, nd in enumerate(nodes) if nd[3]]
    real_part = nodes[:markers[0]] if markers else nodes
    if markers and markers[0] != len(nodes) - 1:
        V.violation('truncation_marker_not_last', attrs, at=markers[0], length=len(nodes))
        ok = False
    got = [nd[:3] for nd in real_part]
    if got != ref[:len(got)]:
        i = next((j for j, (x, y) in enumerate(zip(got, ref)) if x != y),
                 min(len(got), len(ref)))
        V.violation('tb_frame_mismatch', attrs, index=i, real_frames=len(ref),
                    chain=short(got[i:i + 2]), real=short(ref[i:i + 2]),
                    position='first' if i == 0 else ('last' if i >= len(ref) - 1 else 'middle'))
        ok = False
    elif len(got) < len(ref):
        if len(ref) <= maxf:
            V.violation('tb_truncated_below_frame_limit', attrs, real_frames=len(ref),
                        copied=len(got), frame_limit=maxf)
            ok = False
        if not markers:
            V.violation('truncation_not_marked', attrs, real_frames=len(ref),
                        copied=len(got), last_node=short(nodes[-1]))
            ok = False
    elif markers:
        ctx.rec.anomaly('marker_on_complete_traceback', real_frames=len(ref))
    return ok


def check_cause(ctx, exc, text, attrs):
    b, V = ctx.b, ctx.once
    ctx.rec.count('cause_checked')
    cause = getattr(exc, '__cause__', None)
    if b.RemoteTraceback is None:
        return
    if not isinstance(cause, b.RemoteTraceback) or text not in str(cause):
        V.violation('cause_lacks_remote_traceback', attrs, cause=short(cause),
                    exc=short(exc))


class Ctx:
    def __init__(self, rec):
        self.rec = rec
        self.once = Once(rec)
        self.b = load_billiard(rec)


# --------------------------------------------------------------------------
# lane L0
# --------------------------------------------------------------------------

def l0_build(b, path, leaf, form):
    """the harness frame of every L0 traceback: runs the generated path and
    builds the record inside the handler, as the worker loop does"""
    try:
        H.run_path(path, leaf)
    except BaseException as exc:       # noqa: BaseException is the point
        ei = sys.exc_info()
        real = walk_real_tb(ei[2])
        einfo, err = None, None
        try:
            if form == 'implicit':
                einfo = b.ExceptionInfo()
            elif form == 'explicit':
                einfo = b.ExceptionInfo(ei)
            else:
                einfo = b.ExceptionInfo(ei, internal=True)
        except Exception as e:
            err = (repr(e), traceback.format_exc()[-1200:])
        return exc, ei[2], real, einfo, err
    raise RuntimeError('harness: generator did not raise')


def run_l0(spec, rec):
    ctx = Ctx(rec)
    b = ctx.b
    rng = rng_for(spec['seed'], 'l0')
    done = 0
    forced = ['limit'] * 10 + ['beyond'] * 8
    while done < spec['cases']:
        leaf = gen_leaf(rng)
        exp = expectation(leaf)
        if exp is None:
            rec.count('skipped_not_plain_picklable')
            continue
        bucket = forced.pop() if forced and leaf['how'] != 'recursion' else None
        path, style = gen_path(rng, b.GENF, prefix=3, bucket=bucket)
        path = fix_path_for(leaf, path)
        exp.update(family=leaf['family'], how=leaf['how'],
                   nargs=len(exp['args']) if exp.get('args') is not None else -1,
                   names=H.expected_names(path, leaf))
        done += 1
        form = rng.choice(['implicit', 'explicit', 'internal'])
        exc, real_tb, real_chain, einfo, err = l0_build(b, path, leaf, form)
        if exp['exc'] is not None and (type(exc) is not exp['type'] or
                                       not same_value(exc.args, exp['args'])):
            raise RuntimeError('harness: generator raised %r, expected %r'
                               % (exc, exp['exc']))
        if leaf['how'] == 'recursion':
            if type(exc) is not RecursionError:
                raise RuntimeError('harness: recursion leaf raised %r' % (exc,))
            exp['args'] = exc.args
        if err is not None:
            ctx.once.violation('record_construction_failed',
                               {'lane': 'L0', 'family': leaf['family'],
                                'depth': depth_bucket(len(real_chain), b.MAXF)},
                               error=err[0], frames=len(real_chain), tb=err[1])
            continue
        if form == 'internal' and getattr(einfo, 'internal', None) is not True:
            ctx.once.violation('record_malformed', {'lane': 'L0'}, what='internal flag lost')
        if b.EWT is not None:
            if type(einfo.exception) is not b.EWT or einfo.exception.exc is not exc:
                ctx.once.violation('record_does_not_hold_raised_exception', {'lane': 'L0'},
                                   got=short(einfo.exception))
        check_record(ctx, einfo, exp, 'L0', 0, real_chain=real_chain,
                     n_trips=rng.randint(2, spec['max_trips']), rng=rng)
        # the frame limit as a parameter: Traceback(tb, max_frames=m)
        if b.Traceback is not None and rng.random() < 0.55:
            m = rng.choice([0, 1, 2, 3, 5, 8, 13, len(real_chain) - 3,
                            len(real_chain) - 2, len(real_chain) - 1, len(real_chain)])
            custom_max_frames(ctx, real_tb, real_chain, max(0, min(m, 40)), rng)
        if done <= 3:
            rec.sample({'lane': 'L0', 'cls': exp['type'].__name__,
                        'args': short(exp['args'], 120), 'leaf': leaf['how'],
                        'frames': len(real_chain), 'style': style, 'form': form})
        del exc, real_tb, einfo


def custom_max_frames(ctx, tb, real, m, rng):
    rec, V = ctx.rec, ctx.once
    attrs = {'lane': 'L0', 'record': 'Traceback(max_frames)',
             'depth': 'under_limit' if len(real) <= m else 'over_limit'}
    try:
        st = ctx.b.Traceback(tb, max_frames=m)
        nodes, struct = walk_standin(st)
    except Exception as e:
        V.violation('record_construction_failed', attrs, error=repr(e), max_frames=m,
                    frames=len(real))
        return
    rec.count('custom_max_frames')
    rec.count('tb_nodes_walked', len(nodes))
    check_chain(ctx, nodes, real, attrs, m, m + 3)
    try:
        st2 = pickle.loads(pickle.dumps(st, rng.choice([3, 4, 5])))
        rec.count('roundtrips')
        nodes2, struct2 = walk_standin(st2)
        if struct2 != struct:
            V.violation('changed_by_round_trip', dict(attrs, what='tb'),
                        len_before=len(struct), len_after=len(struct2))
        ''.join(traceback.format_tb(st2))
        rec.count('stdlib_format_ok')
    except Exception as e:
        V.violation('record_not_picklable', attrs, error=repr(e), max_frames=m,
                    tb=traceback.format_exc()[-800:])


# --------------------------------------------------------------------------
# job generation shared by L3 / L2
# --------------------------------------------------------------------------

def gen_jobs(ctx, rng, n, prefix, tag0=0):
    """-> list of jobs: {'desc': picklable task description, 'kind', 'exp'...}"""
    b = ctx.b
    jobs = []
    forced = ['limit', 'limit', 'limit', 'beyond', 'beyond']
    while len(jobs) < n:
        r = rng.random()
        tag = tag0 + len(jobs)
        if not jobs or r < 0.22 or len(jobs) == n - 1:
            jobs.append({'kind': 'pid', 'desc': {'op': 'pid', 'tag': tag}, 'tag': tag})
        elif r < 0.27:
            v = gen_value(rng)
            jobs.append({'kind': 'echo', 'desc': {'op': 'echo', 'tag': tag, 'val': v},
                         'tag': tag, 'val': v})
        elif r < 0.52:
            val, meta = gen_unser(rng)
            jobs.append({'kind': 'unser', 'desc': {'op': 'ret', 'val': val},
                         'meta': meta, 'tag': tag})
        elif r < 0.60:
            leaf = gen_leaf(rng, allow_bad_arg=True)
            if 'bad_arg' not in leaf:
                continue
            try:
                # some constructors (OSError family) drop arguments
                if not H.has_bad(H.resolve_class(leaf['cls'])(*leaf['args']).args):
                    continue
            except Exception:
                continue
            path, _style = gen_path(rng, b.GENF, prefix, bucket='shallow')
            path = fix_path_for(leaf, path)
            jobs.append({'kind': 'raise_unpicklable',
                         'desc': {'op': 'raise', 'path': path, 'leaf': leaf},
                         'meta': {'bad': leaf['bad_arg'], 'nest': 'exc_arg',
                                  'outer': 'exception', 'arg': None}, 'tag': tag})
        else:
            leaf = gen_leaf(rng)
            exp = expectation(leaf)
            if exp is None:
                ctx.rec.count('skipped_not_plain_picklable')
                continue
            bucket = forced.pop() if forced and leaf['how'] != 'recursion' else None
            path, style = gen_path(rng, b.GENF, prefix, bucket=bucket)
            path = fix_path_for(leaf, path)
            exp.update(family=leaf['family'], how=leaf['how'],
                       nargs=len(exp['args']) if exp.get('args') is not None else -1,
                       names=H.expected_names(path, leaf))
            if leaf['how'] == 'recursion':
                exp['args_pred'] = lambda a: (isinstance(a, tuple) and len(a) == 1 and
                                              str(a[0]).startswith('maximum recursion depth exceeded'))
            jobs.append({'kind': 'raise', 'desc': {'op': 'raise', 'path': path, 'leaf': leaf},
                         'exp': exp, 'tag': tag, 'style': style})
    return jobs


def check_encoding_error(ctx, einfo, job, lane, trips_done, rng, where):
    """the record of an unserialisable result / exception"""
    rec, V = ctx.rec, ctx.once
    from billiard import pool as bpool
    MEE = getattr(bpool, 'MaybeEncodingError', None)
    meta = job['meta']
    attrs = {'lane': lane, 'result': job['kind'], 'bad': meta['bad']}
    et = getattr(einfo, 'type', None)
    ex = getattr(einfo, 'exception', None)
    if MEE is None or et is not MEE or not isinstance(ex, MEE):
        V.violation('unserialisable_result_not_reported_as_encoding_error', attrs,
                    record_type=getattr(et, '__name__', repr(et)), exception=short(ex),
                    nest=meta['nest'], via=where)
        return False
    if meta['nest'] in NESTS:
        rec.count('unser_nest_%d' % meta['nest'])
    rec.count('unser_bad_' + str(meta['bad']))
    if not (isinstance(getattr(ex, 'exc', None), str) and
            isinstance(getattr(ex, 'value', None), str)):
        V.violation('encoding_error_malformed', attrs, exc=short(getattr(ex, 'exc', None)),
                    value=short(getattr(ex, 'value', None)))
    exp = {'type': MEE, 'args': None, 'family': 'encoding_error', 'how': meta['bad'],
           'nargs': 2, 'raising': None}
    return check_record(ctx, einfo, exp, lane, trips_done, n_trips=2, rng=rng,
                        record='encoding_error',
                        sig_extra=(meta['nest'], meta['outer']))


# --------------------------------------------------------------------------
# lane L3: the real Worker.workloop, the harness is the parent
# --------------------------------------------------------------------------

class L3Worker:
    def __init__(self, n):
        from billiard import pool as bpool
        from billiard.queues import _SimpleQueue
        self.bpool = bpool
        self.inq, self.outq = _SimpleQueue(), _SimpleQueue()
        self.w = bpool.Worker(self.inq, self.outq, maxtasks=n)
        self.w._make_child_methods()
        self.outcome = {}
        self.thread = threading.Thread(target=self._run, daemon=True)
        self.thread.start()
        # sends go through a feeder thread: a TASK larger than the pipe buffer
        # must never block the thread that drains the result pipe
        self.sendq = queue.Queue()
        self.feeder = threading.Thread(target=self._feed, daemon=True)
        self.feeder.start()

    def _feed(self):
        while True:
            item = self.sendq.get()
            if item is None:
                return
            try:
                self.inq.put(item)
            except Exception:
                return

    def _run(self):
        try:
            self.outcome['ret'] = self.w.workloop(pid=os.getpid())
        except BaseException as e:     # noqa
            self.outcome['exc'] = e
            self.outcome['tb'] = traceback.format_exc()

    def send(self, jobid, desc):
        self.sendq.put((self.bpool.TASK, (jobid, None, H.task, (desc,), {})))

    def recv(self, timeout):
        if self.outq._reader.poll(timeout):
            return self.outq.get()
        return None

    def close(self):
        self.sendq.put(None)
        for q in (self.inq, self.outq):
            try:
                q.close()
            except Exception:
                pass


def drive_l3(ctx, jobs, base):
    """send jobs one by one; -> (events, worker).  A job is 'lost' when a later
    job is acknowledged, or the loop has ended, with no READY for it: decided
    by message order, not by a clock."""
    W = L3Worker(len(jobs))
    TASK, ACK, READY = W.bpool.TASK, W.bpool.ACK, W.bpool.READY
    acks, ready, order = {}, {}, []
    dup = []
    nxt_i = 0
    t_end = time.monotonic() + 150
    outstanding = None
    last_send = 0.0
    while time.monotonic() < t_end:
        alive = W.thread.is_alive()
        if nxt_i < len(jobs) and (outstanding is None or
                                  time.monotonic() - last_send > 0.5):
            # normally the previous job is resolved; if it is slow (or lost)
            # pipeline the next one: the order of messages decides
            W.send(base + nxt_i, jobs[nxt_i]['desc'])
            outstanding = nxt_i
            nxt_i += 1
            last_send = time.monotonic()
        msg = W.recv(0.05)
        if msg is None:
            if not alive and not W.outq._reader.poll(0):
                break
            if nxt_i >= len(jobs) and len(ready) == len(jobs):
                break
            continue
        typ, args = msg
        if typ == ACK:
            j = args[0] - base
            acks[j] = len(order)
            order.append(('ACK', j))
        elif typ == READY:
            j = args[0] - base
            if j in ready:
                dup.append(j)
            ready[j] = args[2]
            order.append(('READY', j))
            if outstanding == j:
                outstanding = None
        else:
            order.append((typ, None))
    W.thread.join(10)
    return W, acks, ready, order, dup


def run_l3(spec, rec, hostile=False):
    ctx = Ctx(rec)
    rng = rng_for(spec['seed'], 'l3')
    try:
        from billiard.pool import Worker
        Worker._make_child_methods, Worker.workloop
        from billiard.queues import _SimpleQueue   # noqa
    except Exception as e:
        rec.missing('Worker internals for L3: %r' % (e,))
        return
    for bno in range(spec['batches']):
        jobs = gen_jobs(ctx, rng, spec['jobs'], prefix=4, tag0=bno * 1000)
        l3_batch(ctx, rng, jobs, base=bno * 1000 + 17)


def l3_batch(ctx, rng, jobs, base):
    rec, V = ctx.rec, ctx.once
    W, acks, ready, order, dup = drive_l3(ctx, jobs, base)
    try:
        died = 'exc' in W.outcome
        attributed = False
        if W.thread.is_alive():
            raise RuntimeError('harness: L3 workloop still running after all jobs: %r'
                               % (order[-6:],))
        for j, job in enumerate(jobs):
            rec.count('l3_jobs')
            attrs = {'lane': 'L3', 'result': job['kind'],
                     'bad': job.get('meta', {}).get('bad')}
            if j in dup:
                V.violation('job_resolved_twice', attrs, job=j)
            if j not in ready:
                later = [k for k in acks if k > j]
                if died and j in acks and not later:
                    attributed = True
                    V.violation('worker_killed_by_job', attrs,
                                error=short(W.outcome.get('exc')),
                                tb=W.outcome.get('tb', '')[-1500:],
                                nest=job.get('meta', {}).get('nest'))
                elif j in acks:
                    V.violation('job_lost', attrs, job=j, acked_later=later[:3],
                                loop_ended=not W.thread.is_alive(),
                                loop_result=short(W.outcome),
                                nest=job.get('meta', {}).get('nest'))
                elif died:
                    rec.count('l3_jobs_after_worker_death')
                else:
                    V.violation('job_never_accepted', attrs, job=j)
                continue
            rec.count('l3_ready')
            if j in acks and order.index(('READY', j)) < acks[j]:
                V.violation('ready_before_ack', attrs, job=j)
            ok, val = ready[j]
            judge_outcome(ctx, rng, job, ok, val, 'L3', via='READY')
            # survival: a later job of the same loop was served
            if job['kind'] in ('unser', 'raise_unpicklable') and any(k > j for k in ready):
                rec.count('l3_survival_checks')
        if died and not attributed:
            V.violation('worker_loop_raised', {'lane': 'L3'}, error=short(W.outcome.get('exc')),
                        tb=W.outcome.get('tb', '')[-1500:])
    finally:
        W.close()


def judge_outcome(ctx, rng, job, ok, val, lane, via, exc_from_get=None):
    """ok/val: the (success, value) the parent side received for this job"""
    rec, V = ctx.rec, ctx.once
    L = lane.lower()
    kind = job['kind']
    attrs = {'lane': lane, 'result': kind, 'bad': job.get('meta', {}).get('bad')}
    if kind == 'pid':
        if not ok or not (isinstance(val, tuple) and val[:2] == ('pid', job['tag'])):
            V.violation('neighbour_job_wrong_outcome', attrs, ok=ok, got=short(val))
        return
    if kind == 'echo':
        if not ok or not (isinstance(val, tuple) and val[:2] == ('echo', job['tag']) and
                          same_value(val[2], job['val'])):
            V.violation('neighbour_job_wrong_outcome', attrs, ok=ok, got=short(val))
        return
    if kind in ('unser', 'raise_unpicklable'):
        if ok:
            V.violation('unserialisable_result_not_reported_as_encoding_error', attrs,
                        got=short(val), nest=job['meta']['nest'], via=via, success=True)
            return
        if check_encoding_error(ctx, val, job, lane, 1, rng, via):
            rec.count(L + '_encoding_errors')
            if kind == 'raise_unpicklable':
                rec.count(L + '_unpicklable_exc')
        return
    if kind == 'raise':
        if ok:
            V.violation('exception_delivered_as_success', attrs, got=short(val))
            return
        exp = dict(job['exp'])
        if check_record(ctx, val, exp, lane, 1, n_trips=rng.randint(1, 4), rng=rng):
            rec.count(L + '_exception_records')
        # the first frame of a worker traceback is the worker loop itself
        entries, _f = parse_tb_text(getattr(val, 'traceback', '') or '')
        if entries and not (entries[0][2] == 'workloop' and
                            entries[0][0].endswith(os.path.join('billiard', 'pool.py'))):
            rec.anomaly('first_frame_is_not_workloop', got=entries[0])


# --------------------------------------------------------------------------
# lane L2: real pools
# --------------------------------------------------------------------------

def make_pool(procs, method, **kw):
    import billiard
    from billiard.pool import Pool
    if method == 'fork':
        return Pool(processes=procs, **kw)
    ctx = billiard.get_context(method)
    return Pool(processes=procs, context=ctx)


def pool_pids(pool):
    return sorted(p.pid for p in list(pool._pool))


def run_l2(spec, rec):
    ctx = Ctx(rec)
    rng = rng_for(spec['seed'], 'l2')
    procs = spec['procs']
    pool = make_pool(procs, spec['method'])
    rec.count('l2_pools')
    try:
        try:
            pids0 = pool_pids(pool)
        except Exception:
            pids0 = None
            rec.missing('Pool._pool')
        jobs = gen_jobs(ctx, rng, spec['jobs'], prefix=4)
        l2_apply_phase(ctx, rng, pool, jobs, procs, pids0, spec)
        l2_map_phase(ctx, rng, pool, procs, spec, pids0)
        drain(pool, procs)
        if pids0 is not None:
            pids1 = pool_pids(pool)
            if pids1 != pids0:
                ctx.once.violation('worker_replaced', {'lane': 'L2', 'when': 'end_of_scenario'},
                                   before=pids0, after=pids1)
            else:
                rec.count('l2_pid_checks')
    finally:
        terminate_pool(pool, rec)


def terminate_pool(pool, rec=None):
    """terminate + join with a deadline: a terminate() that hangs is another
    property's business (C08); the driver kills what is left of the session"""
    def body():
        try:
            pool.terminate()
            pool.join()
        except Exception:
            traceback.print_exc()
    t = threading.Thread(target=body, daemon=True)
    t.start()
    t.join(60)
    if t.is_alive() and rec is not None:
        rec.anomaly('pool_terminate_did_not_return_in_60s')


GET_TIMEOUT = 75.0


def l2_apply_phase(ctx, rng, pool, jobs, procs, pids0, spec, windows=(1, 1, 2, 4, 8)):
    rec, V = ctx.rec, ctx.once
    i = 0
    seen_pids = set()
    prev_kind = prev_bad = None
    while i < len(jobs):
        window = jobs[i:i + rng.choice(windows)]
        i += len(window)
        handles = []
        for job in window:
            cb = {'ok': [], 'err': []}
            r = pool.apply_async(H.task, (job['desc'],),
                                 callback=cb['ok'].append,
                                 error_callback=cb['err'].append)
            handles.append((job, r, cb))
        for pos, (job, r, cb) in enumerate(handles):
            rec.count('l2_jobs')
            attrs = {'lane': 'L2', 'result': job['kind'],
                     'bad': job.get('meta', {}).get('bad')}
            verdict = wait_job(r, [h[1] for h in handles[pos + 1:]], procs, pool, pids0)
            if verdict != 'ready':
                nest = job.get('meta', {}).get('nest')
                if verdict == 'overtaken':
                    V.violation('job_lost', attrs, decided_by='jobs submitted later to the same, never replaced, workers are done',
                                nest=nest)
                    continue
                V.violation('job_unresolved_after_timeout', attrs, timeout=GET_TIMEOUT,
                            nest=nest, procs=procs)
                raise RuntimeError('harness: giving up on a pool with an unresolved job')
            try:
                val = r.get(timeout=5)
                ok, raised = True, None
            except BaseException as e:     # noqa: tasks raise BaseExceptions on purpose
                ok, val, raised = False, None, e
            # callbacks run right after the event is set: give them a moment
            t_cb = time.monotonic() + 30
            while not (cb['ok'] or cb['err']) and time.monotonic() < t_cb:
                time.sleep(0.002)
            if ok:
                if cb['err'] or cb['ok'] != [val]:
                    V.violation('callbacks_disagree_with_get', attrs, ok=short(cb['ok']),
                                err=short(cb['err']))
                judge_outcome(ctx, rng, job, True, val, 'L2', via='get')
                if job['kind'] == 'pid':
                    pid = val[2] if isinstance(val, tuple) and len(val) == 3 else None
                    if pids0 is not None and pid not in pids0:
                        V.violation('worker_replaced', {'lane': 'L2', 'when': 'after_' + str(prev_kind),
                                                        'bad': prev_bad},
                                    pid=pid, initial=pids0)
                    else:
                        rec.count('l2_pid_checks')
                    seen_pids.add(pid)
                prev_kind, prev_bad = job['kind'], job.get('meta', {}).get('bad')
                continue
            rec.count('l2_get_raised')
            # pool-made failures (worker lost) come wrapped, see DESIGN section 5
            inner = getattr(raised, 'exc', None) if ctx.b.EWT is not None and \
                type(raised) is ctx.b.EWT else None
            if inner is not None and type(inner).__name__ in ('WorkerLostError', 'Terminated',
                                                             'TimeLimitExceeded'):
                V.violation('worker_killed_by_job', attrs, error=short(inner),
                            nest=job.get('meta', {}).get('nest'))
                prev_kind, prev_bad = job['kind'], job.get('meta', {}).get('bad')
                continue
            if len(cb['err']) != 1 or cb['ok']:
                V.violation('callbacks_disagree_with_get', attrs, ok=short(cb['ok']),
                            n_err=len(cb['err']), raised=short(raised))
                prev_kind, prev_bad = job['kind'], job.get('meta', {}).get('bad')
                continue
            rec.count('l2_errbacks')
            einfo = cb['err'][0]
            # what get() raised is the record's exception
            if raised is not getattr(einfo, 'exception', None):
                V.violation('get_raised_something_else_than_the_record', attrs,
                            raised=short(raised), record=short(getattr(einfo, 'exception', None)))
            judge_outcome(ctx, rng, job, False, einfo, 'L2', via='get', exc_from_get=raised)
            prev_kind, prev_bad = job['kind'], job.get('meta', {}).get('bad')
    if procs == 1 and len(seen_pids) > 1 and not rec.counters.get('v:worker_replaced'):
        V.violation('worker_replaced', {'lane': 'L2', 'when': 'during_applies'},
                    pids=sorted(seen_pids))


def same_workers(pool, pids0):
    try:
        return pids0 is not None and pool_pids(pool) == pids0
    except Exception:
        return False


_probe_no = [0]


class Probe:
    """trivial job(s) put behind everything submitted so far.  One worker: one
    job.  n workers: n barrier jobs that only return while n different worker
    processes sit in the barrier together - each of them has then sent the
    results of all its earlier jobs, and the single result handler thread has
    processed them before it processes the barrier results."""

    def __init__(self, pool, procs):
        self.procs = procs
        if procs == 1:
            self.hs = [pool.apply_async(H.task, ({'op': 'pid', 'tag': -2},))]
        else:
            _probe_no[0] += 1
            tok = 'barrier%d_%d' % (os.getpid(), _probe_no[0])
            d = os.environ.get('VERIF_WORKDIR') or os.getcwd()
            self.hs = [pool.apply_async(H.task, ({'op': 'barrier', 'dir': d, 'token': tok,
                                                  'n': procs, 'timeout': 60},))
                       for _ in range(procs)]

    def passed(self):
        if not all(h.ready() for h in self.hs):
            return False
        try:
            vals = [h.get(timeout=1) for h in self.hs]
        except BaseException:          # noqa
            return False
        if self.procs == 1:
            return True
        return (all(isinstance(v, tuple) and v[:2] == ('barrier', 'met') for v in vals) and
                len({v[2] for v in vals}) == self.procs)


def wait_job(r, later, procs, pool, pids0):
    """-> 'ready' | 'overtaken' | 'timeout'.  As long as no worker was
    replaced, a probe (see Probe) that has passed proves that a still
    unresolved earlier job is lost: decided by message order, not by a clock."""
    t0 = time.monotonic()
    t_end = t0 + GET_TIMEOUT
    later = list(later) if procs == 1 else []
    probe = None
    while True:
        r.wait(0.02)
        if r.ready():
            return 'ready'
        if probe is None and time.monotonic() - t0 > 3.0:
            probe = Probe(pool, procs)
        if (any(x.ready() for x in later) or (probe is not None and probe.passed())) \
                and same_workers(pool, pids0):
            # the result handler may be between the two _set calls: look again
            r.wait(1.0)
            if r.ready():
                return 'ready'
            if same_workers(pool, pids0):
                return 'overtaken'
        if time.monotonic() > t_end:
            return 'timeout'


def drain(pool, procs):
    """a few trivial jobs behind whatever is still queued (chunks of a failed
    map keep running): when they are done the workers are idle again"""
    hs = [pool.apply_async(H.task, ({'op': 'pid', 'tag': -1},)) for _ in range(2 * procs)]
    for h in hs:
        h.wait(GET_TIMEOUT)
    time.sleep(0.05)


class ImapLost(Exception):
    pass


def imap_next(it, pool, procs, pids0):
    """next item of an ordered imap; raises ImapLost('overtaken'|'timeout')"""
    t_end = time.monotonic() + GET_TIMEOUT
    probe = None
    while True:
        try:
            return it.next(timeout=2.0)
        except Exception as e:
            if type(e).__name__ != 'TimeoutError' or e.args:
                raise
        if probe is None:
            probe = Probe(pool, procs)
        if probe.passed() and same_workers(pool, pids0):
            # everything the one worker sent before the probe's result has
            # been handled by now
            try:
                return it.next(timeout=1.0)
            except Exception as e:
                if type(e).__name__ != 'TimeoutError' or e.args:
                    raise
            if same_workers(pool, pids0):
                raise ImapLost('overtaken')
        if time.monotonic() > t_end:
            raise ImapLost('timeout')


def l2_map_phase(ctx, rng, pool, procs, spec, pids0=None):
    """map_async / imap with failing items: what the caller gets"""
    rec, V = ctx.rec, ctx.once
    rounds = 2 if spec.get('tier') == 'quick' else 4
    for _ in range(rounds):
        jobs = gen_jobs(ctx, rng, rng.randrange(4, 9), prefix=5)
        # --- imap, chunksize 1: every item is its own job part
        it = pool.imap(H.task, [j['desc'] for j in jobs], chunksize=1)
        for job in jobs:
            rec.count('l2_jobs')
            attrs = {'lane': 'L2', 'result': job['kind'], 'via': 'imap',
                     'bad': job.get('meta', {}).get('bad')}
            try:
                val = imap_next(it, pool, procs, pids0)
            except StopIteration:
                V.violation('job_lost', attrs, decided_by='imap iterator ended early')
                break
            except ImapLost as e:
                if e.args[0] == 'overtaken':
                    V.violation('job_lost', attrs,
                                decided_by='jobs submitted later to the same, never replaced, workers are done')
                    break
                V.violation('job_unresolved_after_timeout', attrs, timeout=GET_TIMEOUT)
                raise RuntimeError('harness: giving up on a pool with an unresolved imap item')
            except Exception as e:
                # legal form for imap: Exception(record)
                einfo = e.args[0] if e.args else None
                if not isinstance(einfo, ctx.b.ExceptionInfo):
                    V.violation('imap_failure_without_record', attrs, raised=short(e))
                    continue
                rec.count('l2_imap_failures')
                judge_outcome(ctx, rng, job, False, einfo, 'L2', via='imap')
                continue
            judge_outcome(ctx, rng, job, True, val, 'L2', via='imap')
        # --- map_async with exactly one failing item
        good = [{'kind': 'echo', 'desc': {'op': 'echo', 'tag': t, 'val': t * 3},
                 'tag': t, 'val': t * 3} for t in range(rng.randrange(2, 7))]
        # (a StopIteration crossing mapstar's list(map(...)) is the business of
        # the dedicated 'hostile_map' spec)
        bad = next((j for j in gen_jobs(ctx, rng, 12, prefix=5)
                    if j['kind'] == 'unser' or
                    (j['kind'] == 'raise' and
                     not issubclass(j['exp']['type'], (StopIteration, StopAsyncIteration)))), None)
        if bad is None:
            continue
        at = rng.randrange(len(good) + 1)
        seq = good[:at] + [bad] + good[at:]
        errs = []
        r = pool.map_async(H.task, [j['desc'] for j in seq],
                           chunksize=rng.choice([1, 1, 2, 3]),
                           error_callback=errs.append)
        rec.count('l2_jobs')
        attrs = {'lane': 'L2', 'result': bad['kind'], 'via': 'map',
                 'bad': bad.get('meta', {}).get('bad')}
        verdict = wait_job(r, [], procs, pool, pids0)
        if verdict == 'overtaken':
            V.violation('job_lost', attrs, decided_by='jobs submitted later to the same, never replaced, workers are done')
            continue
        if verdict != 'ready':
            V.violation('job_unresolved_after_timeout', attrs, timeout=GET_TIMEOUT)
            raise RuntimeError('harness: giving up on a pool with an unresolved map')
        try:
            val = r.get(timeout=5)
            V.violation('exception_delivered_as_success', attrs, got=short(val))
            continue
        except BaseException as e:     # noqa
            raised = e
        inner = getattr(raised, 'exc', None) if ctx.b.EWT is not None and \
            type(raised) is ctx.b.EWT else None
        if inner is not None:
            V.violation('worker_killed_by_job', attrs, error=short(inner))
            continue
        if len(errs) != 1 or raised is not getattr(errs[0], 'exception', None):
            V.violation('callbacks_disagree_with_get', attrs, n_err=len(errs),
                        raised=short(raised))
            continue
        rec.count('l2_map_failures')
        judge_outcome(ctx, rng, bad, False, errs[0], 'L2', via='map')
        # let the rest of the map drain before the next round (chunks of a
        # failed map keep running)
        drain(pool, procs)


# --------------------------------------------------------------------------
# hostile representations: the result cannot be pickled and repr() fails too
# --------------------------------------------------------------------------

HOSTILE = ('repr_raises', 'nested_beyond_recursion_limit',
           'unpicklable_nested_beyond_recursion_limit')


def hostile_jobs(rng, kind, nest):
    val = H.Bad(kind, 'ValueError' if kind == 'repr_raises' else None)
    outer = 'leaf'
    for _ in range(nest):
        val = [val, 1]
        outer = 'list'
    return [
        {'kind': 'pid', 'desc': {'op': 'pid', 'tag': 0}, 'tag': 0},
        {'kind': 'unser', 'desc': {'op': 'ret', 'val': val}, 'tag': 1,
         'meta': {'bad': kind, 'nest': nest, 'outer': outer, 'arg': None}},
        {'kind': 'pid', 'desc': {'op': 'pid', 'tag': 2}, 'tag': 2},
    ]


def run_hostile_l3(spec, rec):
    ctx = Ctx(rec)
    rng = rng_for(spec['seed'], 'hostile')
    try:
        from billiard.pool import Worker
        Worker._make_child_methods, Worker.workloop
    except Exception as e:
        rec.missing('Worker internals for L3: %r' % (e,))
        return
    n = 0
    for kind in HOSTILE:
        for nest in (0, 2):
            jobs = hostile_jobs(rng, kind, nest)
            l3_batch(ctx, rng, jobs, base=5000 + n * 10)
            rec.count('hostile_cases')
            rec.case()
            n += 1


def run_hostile_l2(spec, rec):
    ctx = Ctx(rec)
    rng = rng_for(spec['seed'], 'hostile')
    pool = make_pool(1, 'fork', lost_worker_timeout=3.0)
    rec.count('l2_pools')
    try:
        pids0 = pool_pids(pool)
        jobs = hostile_jobs(rng, spec['bad'], 1)
        l2_apply_phase(ctx, rng, pool, jobs, 1, pids0, spec, windows=(1,))
        rec.count('hostile_cases')
        rec.case()
    finally:
        terminate_pool(pool, rec)


def run_hostile_map(spec, rec):
    """a task that raises StopIteration inside map(): mapstar runs
    list(map(func, chunk)), which takes the exception for the end of the chunk"""
    ctx = Ctx(rec)
    V = ctx.once
    rng = rng_for(spec['seed'], 'hostile')
    pool = make_pool(1, 'fork')
    rec.count('l2_pools')
    try:
        for cs, at in ((1, 2), (2, 2), (3, 0)):
            good = [{'op': 'echo', 'tag': t, 'val': t * 3} for t in range(4)]
            leaf = {'how': 'plain', 'cls': 'StopIteration', 'args': ('c12-stop', cs),
                    'family': 'builtin'}
            job = {'kind': 'raise', 'tag': 99,
                   'desc': {'op': 'raise', 'path': ['f', 'g'], 'leaf': leaf}}
            exp = expectation(leaf)
            exp.update(family='builtin', how='plain', nargs=2,
                       names=H.expected_names(['f', 'g'], leaf))
            job['exp'] = exp
            seq = good[:at] + [job['desc']] + good[at:]
            errs = []
            r = pool.map_async(H.task, seq, chunksize=cs, error_callback=errs.append)
            r.wait(GET_TIMEOUT)
            attrs = {'lane': 'L2', 'via': 'map', 'exc': 'StopIteration'}
            rec.count('hostile_cases')
            rec.case()
            if not r.ready():
                V.violation('job_unresolved_after_timeout', attrs, timeout=GET_TIMEOUT)
                return
            try:
                val = r.get(timeout=5)
            except BaseException as e:     # noqa
                t_cb = time.monotonic() + 30
                while not errs and time.monotonic() < t_cb:
                    time.sleep(0.002)
                if errs:
                    judge_outcome(ctx, rng, job, False, errs[0], 'L2', via='map')
                else:
                    V.violation('callbacks_disagree_with_get', attrs, raised=short(e))
                continue
            V.violation('exception_swallowed_by_map', attrs, chunksize=cs, failing_index=at,
                        items=len(seq), result=short(val, 600))
            drain(pool, 1)
    finally:
        terminate_pool(pool, rec)


def run_spec(spec, rec):
    import faulthandler
    faulthandler.dump_traceback_later(SPEC_TIMEOUT - 40, exit=False)
    mode = spec['mode']
    if mode == 'l0':
        run_l0(spec, rec)
    elif mode == 'l3':
        run_l3(spec, rec)
    elif mode == 'l2':
        run_l2(spec, rec)
    elif mode == 'hostile_l3':
        run_hostile_l3(spec, rec)
    elif mode == 'hostile_l2':
        run_hostile_l2(spec, rec)
    elif mode == 'hostile_map':
        run_hostile_map(spec, rec)
    else:
        raise ValueError(mode)
