"""C08 - terminate() and termination signals always end workers promptly.
Lane REAL: real pools in a host process of their own.  (a) terminate() with
workers idle / in Python code / in a C-level sleep / inside the task's own
exception handler, with queued jobs, every pool size, with and without helper
threads, on pools whose workers were recycled before the call, and while the
task feeder is busy with one lazily produced imap input / one 300 000-element
map; then a second terminate() and garbage collection.  (b) a worker gets
the termination signal from an operator, terminate_job() or a hard limit in
each of those states: it must stop its task, run the exit callback, exit, take
no further job, and its job must not resolve with the signal's SystemExit.
Oracles: wall-clock bound with confirm-alone re-run and the host's thread
stacks as hang witness, /proc census, thread-set diff, worker-side event log.  Worker states include 'sending its result' (a return value that takes long to serialise)."""
import signal

from vmon.core import rng_for
from vmon import real

PROPERTY = 'C08'
LEVEL = 'fault_enumeration'
TECHNIQUE = 'runtime monitoring of real pools: worker-state x signal-source matrix; oracles over the worker-side event log, /proc census, thread diff, bounded wall-clock with confirm-alone re-run'
RULE = ('one case = one cell of (scenario kind, worker state at the instant of the call/signal, signal source, signal, pool size, queued jobs, '
        'helper threads); signature = the cell; non-trivial = at least one worker was busy or jobs were queued at the instant')
ASSUMPTIONS = [
    'terminate() bound: lost-worker timeout of the running jobs (1 s here) + 20 s; expected 2-8 s; re-run alone before reporting',
    'a task that swallows BaseException defeats every signal short of SIGKILL: thorough tier only, recorded, not judged',
]
JOBS = 8
SPEC_TIMEOUT = 150
CONFIRM_ALONE = ('terminate_slow', 'terminate_hung', 'worker_still_alive_after_signal',
                 'later_job_not_served', 'pool_hung_after_termination_signal',
                 'other_job_failed_because_of_signal', 'job_of_signalled_worker_never_resolved')
FLOORS = {
    'quick': {'real:terminate_scenarios': 14, 'real:signal_scenarios': 14, 'real:busy_at_call': 10,
              'real:exit_callbacks_seen': 8, 'real:gc_scenarios': 1, 'real:supervision_window_reached': 1},
    'thorough': {'real:terminate_scenarios': 20, 'real:signal_scenarios': 35},
}
STATES = ['idle', 'python', 'c_sleep', 'except_handler', 'translate', 'sending_result']
TERMSIGS = ['SIGHUP', 'SIGQUIT', 'SIGALRM', 'SIGUSR2', 'SIGXCPU', 'SIGVTALRM', 'SIGTERM']


def plan(tier, seed):
    rng = rng_for(seed, 'c08plan')
    specs = []
    cells = []
    for st in STATES:
        for nproc in (1, 2, 4):
            for queued in (0, 6):
                cells.append(('terminate', st, nproc, queued))
    rng.shuffle(cells)
    n_t = 18 if tier == 'quick' else len(cells)
    for n, (k, st, nproc, queued) in enumerate(cells[:n_t]):
        specs.append({'lane': 'real', 'sc': 'terminate', 'timeout': 90, 'params': {
            'worker_state': st, 'nproc': nproc, 'queued': queued,
            'busy': 0 if st == 'idle' else rng.choice([1, nproc]),
            'threads': True, 'T': 1.0,
            # every third pool has recycled workers by the time of the call
            'maxtasks': 1 if n % 3 == 0 else None,
            'finished_jobs': 2 if n % 3 else max(2, nproc)}})
    # terminate() on a pool that recycles after every job, with work queued: the
    # call lands at different moments of the workers' exits and of the
    # supervisor's pass that replaces them (it may start a worker after
    # terminate() has signalled the ones it found)
    for k, settle in enumerate((0.2, 0.2, 0.9, 1.3, 1.7) if tier == 'quick' else
                               (0.2, 0.2, 0.5, 0.9, 1.1, 1.3, 1.5, 1.7, 2.1, 0.2)):
        specs.append({'lane': 'real', 'sc': 'terminate', 'timeout': 90, 'params': {
            'worker_state': 'idle', 'nproc': 2 + k % 2, 'queued': 6, 'busy': 0, 'threads': True,
            'T': 1.0, 'maxtasks': 1, 'finished_jobs': 2 + k % 2, 'settle': settle}})
    # the task feeder is busy with one long / lazily produced sequence
    for feeding, st, nproc in (('lazy_imap', 'idle', 2), ('big_map', 'c_sleep', 2)) if tier == 'quick' \
            else (('lazy_imap', 'idle', 2), ('big_map', 'c_sleep', 2), ('lazy_imap', 'python', 3),
                  ('big_map', 'idle', 1), ('lazy_imap', 'c_sleep', 1)):
        specs.append({'lane': 'real', 'sc': 'terminate', 'timeout': 90, 'params': {
            'worker_state': st, 'nproc': nproc, 'queued': 0, 'busy': 0 if st == 'idle' else 1,
            'threads': True, 'T': 1.0, 'feeding': feeding}})
    # without helper threads (the caller is the event loop)
    specs.append({'lane': 'real', 'sc': 'terminate', 'timeout': 70, 'params': {
        'worker_state': 'idle', 'nproc': 2, 'queued': 0, 'busy': 0, 'threads': False, 'T': 1.0}})
    specs.append({'lane': 'real', 'sc': 'terminate', 'timeout': 90, 'params': {
        'worker_state': 'c_sleep', 'nproc': 2, 'queued': 0, 'busy': 2, 'threads': False, 'T': 1.0}})
    # workers leaving after a termination signal, each descheduled for a moment while it
    # reports its exit (still inside the result queue's write lock)
    for st, nproc in (('c_sleep', 3), ('idle', 4)) if tier == 'quick' else \
            (('c_sleep', 3), ('idle', 4), ('python', 2), ('idle', 2)):
        specs.append({'lane': 'real', 'sc': 'terminate', 'timeout': 90, 'params': {
            'worker_state': st, 'nproc': nproc, 'queued': 0, 'busy': 0 if st == 'idle' else nproc,
            'threads': True, 'T': 1.0, 'slow_send': 0.05}})
    specs.append({'lane': 'real', 'sc': 'gc', 'timeout': 80, 'params': {'nproc': 2}})
    for off in ((0.1, 0.6) if tier == 'quick' else (0.0, 0.1, 0.4, 0.8, 1.1)):
        specs.append({'lane': 'real', 'sc': 'race', 'timeout': 90, 'params': {
            'nproc': 3, 'T': 1.0, 'offset': off, 'hook_sleep': 1.2, 'worker_state': 'idle',
            'threads': True}})
    # ... a pass that outlasts terminate() altogether (the hook sleeps longer than
    # terminate() is prepared to wait for the supervisor): nothing may be started
    # once terminate() has returned
    for off in ((0.1,) if tier == 'quick' else (0.1, 0.6)):
        specs.append({'lane': 'real', 'sc': 'race', 'timeout': 110, 'params': {
            'nproc': 2, 'T': 1.0, 'offset': off, 'hook_sleep': 7.0, 'worker_state': 'idle',
            'threads': True}})
    # ... and while the supervisor is building the replacement worker (after its
    # state test, before the worker is started)
    for off in ((0.1, 0.5) if tier == 'quick' else (0.0, 0.1, 0.3, 0.5, 0.9)):
        specs.append({'lane': 'real', 'sc': 'race', 'timeout': 90, 'params': {
            'nproc': 3, 'T': 1.0, 'offset': off, 'hook_sleep': 1.2, 'worker_state': 'idle',
            'threads': True, 'window': 'create'}})
    if tier != 'quick':
        specs.append({'lane': 'real', 'sc': 'gc', 'timeout': 80, 'params': {'nproc': 4}})
        specs.append({'lane': 'real', 'sc': 'terminate', 'timeout': 90, 'params': {
            'worker_state': 'swallow_base', 'nproc': 2, 'queued': 0, 'busy': 1, 'threads': True,
            'T': 1.0, 'judge': False}})
    sig_cells = []
    for src in ('operator', 'terminate_job', 'hard_limit'):
        for st in STATES:
            if st == 'idle' and src != 'operator':
                continue
            for nproc in (1, 3):
                sig_cells.append((src, st, nproc, 'SIGTERM'))
    if tier != 'quick':
        for s in TERMSIGS[:-1]:
            for st in ('python', 'c_sleep', 'idle'):
                sig_cells.append(('operator', st, 2, s))
            sig_cells.append(('terminate_job', 'c_sleep', 2, s))
    rng.shuffle(sig_cells)
    n_s = 18 if tier == 'quick' else len(sig_cells)
    chosen_sig = sig_cells[:n_s]
    if tier == 'quick':
        # signals only the full protection set handles
        chosen_sig += [('operator', 'c_sleep', 2, 'SIGALRM'), ('operator', 'idle', 2, 'SIGXCPU')]
        # the worker is serialising / sending its result when the signal comes
        chosen_sig += [c for c in (('operator', 'sending_result', 2, 'SIGTERM'),
                                   ('terminate_job', 'sending_result', 1, 'SIGTERM'))
                       if c not in chosen_sig]
    for (src, st, nproc, s) in chosen_sig:
        specs.append({'lane': 'real', 'sc': 'signal', 'timeout': 90, 'params': {
            'source': src, 'worker_state': st, 'nproc': nproc,
            'sig': int(getattr(signal, s)), 'signame': s, 'T': 1.0, 'limit': 1.0,
            'others': 2, 'later': 3}})
    return specs


def run_spec(spec, rec):
    p = spec['params']
    sc = spec['sc']
    fn = {'terminate': 'sc_terminate', 'gc': 'sc_gc_pool', 'signal': 'sc_signal_worker',
          'race': 'sc_terminate_during_supervision'}[sc]
    r = real.run_scenario('vmon.real_pool', fn, p, timeout=spec['timeout'] - 25)
    obs, ev = r['obs'], r['events']
    if r['status'] == 'scenario_error':
        raise RuntimeError('scenario error: ' + obs.get('scenario_exception', r['stderr'][-2000:]))
    rec.case()
    attrs = {'lane': 'real', 'scenario': sc, 'worker_state': p.get('worker_state'),
             'recycled_before': bool(p.get('maxtasks')), 'feeding': p.get('feeding'),
             'source': p.get('source'), 'threads': p.get('threads', True)}
    if sc == 'terminate':
        attrs['idle_workers'] = p['nproc'] - p.get('busy', 0) > 0
    if sc == 'terminate':
        rec.count('real:terminate_scenarios')
        check_terminate(p, r, obs, ev, attrs, rec)
    elif sc == 'gc':
        rec.count('real:gc_scenarios')
        check_gc(p, r, obs, ev, attrs, rec)
    elif sc == 'race':
        rec.count('real:terminate_during_supervision')
        check_race(p, r, obs, ev, attrs, rec)
    else:
        attrs['signame'] = p['signame']
        rec.count('real:signal_scenarios')
        check_signal(p, r, obs, ev, attrs, rec)


def check_terminate(p, r, obs, ev, attrs, rec):
    judge = p.get('judge', True)
    busy = p.get('busy', 0) or p.get('queued', 0)
    if busy:
        rec.count('real:busy_at_call')
    if r['status'] == 'hang':
        if judge:
            rec.violation('terminate_hung', attrs, params=p, obs=obs, stacks=r['stderr'][-6000:])
        else:
            rec.anomaly('terminate_hung_with_swallowing_task', params=p)
        return
    if r['status'] == 'died':
        rec.violation('host_process_died', attrs, params=p, rc=r['rc'], stderr=r['stderr'][-3000:])
        return
    bound = (p.get('T') or 1.0) + 20.0
    if obs['terminate_wall'] > bound and judge:
        rec.violation('terminate_slow', attrs, wall=obs['terminate_wall'], bound=bound,
                      worst_stall=obs.get('worst_stall'), params=p)
    rec.maxi('max:terminate_wall_ms', int(obs['terminate_wall'] * 1000))
    if obs['workers_after']:
        rec.violation('worker_alive_after_terminate', attrs, left=obs['workers_after'], params=p)
    if obs['threads_after']:
        rec.violation('pool_thread_alive_after_terminate', attrs, threads=obs['threads_after'],
                      params=p)
    for tag, v, now in obs['pre_results']:
        if now != ['ok', v] or v != ['v', tag]:
            rec.violation('delivered_result_changed_by_terminate', attrs, tag=tag, before=v, after=now)
    if obs.get('second_terminate') != 'ok':
        rec.violation('second_terminate_not_harmless', attrs, what=obs.get('second_terminate'))
    if obs.get('gc') != 'ok':
        rec.violation('gc_after_terminate_not_harmless', attrs, what=obs.get('gc'))
    if obs.get('second_terminate_wall', 0) > 10:
        rec.violation('terminate_slow', dict(attrs, second=True), wall=obs['second_terminate_wall'])
    # no task may *start* in a worker after terminate() returned
    t_ret = next((e['t'] for e in ev if e['k'] == 'terminate_returned'), None)
    late = [e for e in ev if e['k'] == 'task_start' and t_ret and e['t'] > t_ret]
    if late:
        rec.violation('task_started_after_terminate_returned', attrs, events=late[:3])
    exits = [e for e in ev if e['k'] == 'on_process_exit']
    rec.count('real:exit_callbacks_seen', len(exits))
    for pids in obs.get('running_pids', []):
        for pid in pids:
            if not any(e['wpid'] == pid for e in exits) and p['worker_state'] != 'swallow_base':
                rec.violation('exit_callback_not_run', dict(attrs, source='terminate'),
                              pid=pid, params=p)
    if obs.get('replaced_before'):
        rec.count('real:terminate_with_replaced_workers')
    if p.get('feeding'):
        rec.count('real:terminate_while_feeding')
    rec.sig(['terminate', p['worker_state'], p['nproc'], p.get('queued'), p.get('busy'),
             p.get('threads'), bool(obs.get('replaced_before')), p.get('feeding')])
    rec.sample({'scenario': 'terminate', 'params': p, 'terminate_wall': round(obs['terminate_wall'], 2),
                'exit_callbacks': len(exits)})


def check_race(p, r, obs, ev, attrs, rec):
    if r['status'] == 'hang':
        rec.violation('terminate_hung', attrs, params=p, obs=obs, stacks=r['stderr'][-6000:])
        return
    if r['status'] == 'died':
        rec.violation('host_process_died', attrs, params=p, rc=r['rc'], stderr=r['stderr'][-3000:])
        return
    if obs.get('no_victim') or not obs.get('hook_entered'):
        rec.anomaly('supervision_window_not_reached', obs=obs)
        return
    rec.count('real:supervision_window_reached')
    alive = {k: v for k, v in obs['workers_after'].items() if v != 'Z'}
    if alive:
        rec.violation('worker_alive_after_terminate', attrs, left=obs['workers_after'],
                      ups=obs['ups'], params=p)
    # (a worker the supervisor was already starting when terminate() was called,
    # and which terminate() then ends with the others, is harmless: what must not
    # happen is a worker appearing once terminate() has returned)
    t_ret = next((e['t'] for e in ev if e['k'] == 'terminate_returned'), None)
    late_ups = [e for e in ev if e['k'] == 'process_up' and t_ret and e['t'] > t_ret]
    if late_ups:
        rec.violation('worker_started_after_terminate', attrs, events=late_ups[:3], params=p)
    if obs['threads_after']:
        rec.violation('pool_thread_alive_after_terminate', attrs, threads=obs['threads_after'])
    if obs['terminate_wall'] > 25:
        rec.violation('terminate_slow', attrs, wall=obs['terminate_wall'])
    rec.sig(['race', p['offset']])


def check_gc(p, r, obs, ev, attrs, rec):
    if r['status'] != 'ok':
        rec.violation('gc_of_pool_' + r['status'], attrs, obs=obs, stderr=r['stderr'][-3000:])
        return
    if obs['values'] != obs['values_after']:
        rec.violation('delivered_result_changed_by_gc', attrs, before=obs['values'],
                      after=obs['values_after'])
    if obs.get('exit_function') != 'ok':
        rec.violation('exit_handlers_fail_after_gc_of_pool', attrs, what=obs.get('exit_function'))
    if obs.get('workers_after_exit_function'):
        rec.violation('worker_alive_after_exit_handlers', attrs,
                      left=obs['workers_after_exit_function'])
    rec.sig(['gc', p['nproc']])


def check_signal(p, r, obs, ev, attrs, rec):
    if r['status'] == 'hang':
        rec.violation('pool_hung_after_termination_signal', attrs, params=p, obs=obs,
                      stacks=r['stderr'][-6000:])
        return
    if r['status'] == 'died':
        rec.violation('host_process_died', attrs, params=p, rc=r['rc'], stderr=r['stderr'][-3000:])
        return
    if obs.get('no_victim'):
        rec.anomaly('victim_job_not_accepted_in_time', params=p)
        return
    victim = obs['victim']
    busy = p['worker_state'] != 'idle'
    if busy:
        rec.count('real:busy_at_call')
        oc = obs.get('victim_outcome')
        legal = {'operator': ('WorkerLostError', 'Terminated'),
                 'terminate_job': ('Terminated',),
                 'hard_limit': ('TimeLimitExceeded',)}[p['source']]
        if not oc or oc[0] == 'unresolved':
            rec.violation('job_of_signalled_worker_never_resolved', attrs, params=p, obs=obs)
        elif oc[0] == 'ok':
            rec.violation('signalled_worker_finished_its_task', attrs, outcome=oc, params=p)
        elif oc[1] in ('SystemExit', 'Wrapped'):
            rec.violation('job_resolved_with_signals_systemexit', attrs, outcome=oc, params=p)
        elif oc[1] not in legal:
            rec.violation('job_of_signalled_worker_wrong_outcome', attrs, outcome=oc, legal=legal)
    if obs.get('victim_state') not in (None, 'Z'):
        rec.violation('worker_still_alive_after_signal', attrs, state=obs.get('victim_state'),
                      waited=obs.get('victim_gone_after'), params=p)
    t_sig = next((e['t'] for e in ev if e['k'] == 'signal_sent'), None)
    if p['source'] == 'hard_limit':
        # the signal is sent by the pool when the limit expires: use the
        # resolution time of the victim job as the reference instant
        t_sig = (t_sig or 0) + obs.get('victim_resolved_after', 0)
    later_starts = [e for e in ev if e['k'] == 'task_start' and e['pid'] == victim
                    and t_sig and e['t'] > t_sig + 0.25 and e.get('tag') != 'victim']
    if later_starts:
        rec.violation('worker_took_job_after_termination_signal', attrs, events=later_starts[:3],
                      params=p)
    exits = [e for e in ev if e['k'] == 'on_process_exit' and e['wpid'] == victim]
    if exits:
        rec.count('real:exit_callbacks_seen')
    elif p['source'] != 'hard_limit':
        # (after a hard limit the pool may SIGKILL 0.1 s after TERM)
        rec.violation('exit_callback_not_run', attrs, pid=victim, params=p)
    for o in obs['others']:
        if o[0] != 'ok':
            rec.violation('other_job_failed_because_of_signal', attrs, outcome=o, params=p)
    bad_later = [o for o in obs['later'] if o[0] != 'ok']
    if bad_later:
        rec.violation('later_job_not_served', attrs, outcomes=obs['later'], params=p)
    elif any(o[1][2] == victim for o in obs['later']):
        rec.violation('worker_took_job_after_termination_signal', attrs, later=obs['later'])
    rec.sig(['signal', p['source'], p['worker_state'], p['nproc'], p['signame']])
    rec.sample({'scenario': 'signal', 'params': p, 'victim_outcome': obs.get('victim_outcome'),
                'victim_gone_after': obs.get('victim_gone_after'),
                'exit_callback': bool(exits)})
