"""C13 - connections deliver every message intact, in order, within bounds.

Lane L0 (threads and processes).  The real billiard.connection.Connection /
Pipe() is driven with seeded message sequences while fragmentation is
(a) injected at the syscall boundary (Connection._send/_recv take
`write=os.write` / `read=os.read` as default arguments; the harness swaps the
defaults for a shim producing short counts, EINTR and EOF at a chosen byte)
and (b) produced by the kernel (4 KiB pipes, tiny socket buffers, slow
reader, 1 kHz ITIMER_REAL in a forked sender, raw dribbling writer).

Oracles: a FIFO of byte strings (every payload carries tag, length and CRC so
that loss, reordering and alteration are told apart), a reference framing
(4-byte big-endian length + payload) against the raw wire, outcome tables for
the enumerated cut positions / maxlength / buffer / offset combinations, and
an I/O-call account of the shim (a rejected call must not reach the I/O layer
and must not consume data).
"""
import array
import errno
import fcntl
import json
import mmap
import os
import pickle
import select
import signal
import socket
import struct
import threading
import time
import traceback
import zlib

from vmon.core import rng_for

PROPERTY = 'C13'
LEVEL = 'exploration'
TECHNIQUE = ('FIFO reference model over tagged CRC payloads + syscall-boundary '
             'fault shim (short counts, EINTR, EOF at byte k) + kernel-made '
             'fragmentation + I/O-call accounting for rejected calls')
RULE = ('seeded message sequences (lengths 0, 1, around 4 KiB / 16 KiB / 64 KiB '
        'boundaries, random, 1 MiB, 8 MiB; sources bytes/bytearray/memoryview/'
        'array/mmap with every (offset,size) class) over pipes and socket pairs; '
        'a case is one transfer scenario, one enumerated cut position, or one '
        'bounds/offset/handle-state combination; its signature is (mode, '
        'transport, buffer class, fault profile, bucketed counts of injected and '
        'kernel-made short writes/reads and EINTRs, length classes, receive '
        'APIs) resp. (cut class, api, outcome); a transfer is non-trivial when at '
        'least one fragmentation event was observed in it')
ASSUMPTIONS = [
    'messages near the 2 GiB framing limit are not sent; bound checks are exercised at small maxlength values and through crafted raw headers',
    'the kernel and CPython os.read/os.write are trusted; EINTR is injected at the Connection._send/_recv boundary because CPython retries EINTR itself (PEP 475)',
    'POSIX Connection only (PipeConnection / Windows paths are not reachable here)',
    'non-contiguous memoryviews and read-only destination buffers are not bytes-like/writable in the sense of the API and are not driven',
]
FLOORS = {
    'quick': {
        'messages': 1400, 'crc_checked': 1000, 'scenarios_shim': 65, 'scenarios_kfrag': 8,
        'bidirectional_scenarios': 5, 'raw_wire_streams': 8,
        # injected at the syscall boundary
        'short_w': 80000, 'short_r': 80000, 'eintr_w': 10000, 'eintr_r': 10000,
        # made by the kernel (tiny buffers, 1 kHz timer, dribbling writer)
        'k_short_w': 100, 'k_short_r': 4000, 'header_splits': 20,
        # stream ends
        'boundary_eof': 80, 'mid_header_eof': 250, 'mid_payload_eof': 500,
        'clean_eof_seen': 70, 'eof_inj': 450,
        # lengths on both sides of the thresholds
        'len:0': 15, 'len:1': 15, 'len:4k': 100, 'len:16k-': 80, 'len:16k+': 60,
        'len:64k': 90, 'len:1MiB': 2, 'len:8MiB': 1,
        # bounds, offsets, handle state
        'maxlength_equal': 10, 'maxlength_oversized': 17, 'oversized_then_unreadable': 17,
        'buffer_too_short_seen': 150, 'into_fits': 190, 'into_invalid_offset': 100,
        'send_offset_valid': 800, 'send_offset_invalid': 400, 'rejected_calls': 800,
        'closed_handle_calls': 220, 'wrong_direction_calls': 56,
        # readiness
        'poll_calls': 90, 'poll_woken_by_data': 20, 'poll_false_empty': 20,
        'polls_interrupted_by_signal': 25, 'wait_calls': 20,
    },
    'thorough': {
        'messages': 17000, 'crc_checked': 13000, 'scenarios_shim': 500, 'scenarios_kfrag': 40,
        'bidirectional_scenarios': 60, 'raw_wire_streams': 60,
        'short_w': 1000000, 'short_r': 1000000, 'eintr_w': 120000, 'eintr_r': 120000,
        'k_short_w': 1200, 'k_short_r': 50000, 'header_splits': 200,
        'boundary_eof': 250, 'mid_header_eof': 750, 'mid_payload_eof': 3000,
        'clean_eof_seen': 500, 'eof_inj': 2000,
        'len:0': 200, 'len:1': 200, 'len:4k': 1400, 'len:16k-': 1000, 'len:16k+': 800,
        'len:64k': 1300, 'len:1MiB': 8, 'len:8MiB': 4,
        'maxlength_equal': 20, 'maxlength_oversized': 34, 'oversized_then_unreadable': 34,
        'buffer_too_short_seen': 300, 'into_fits': 380, 'into_invalid_offset': 200,
        'send_offset_valid': 1700, 'send_offset_invalid': 850, 'rejected_calls': 1600,
        'closed_handle_calls': 440, 'wrong_direction_calls': 110,
        'poll_calls': 600, 'poll_woken_by_data': 150, 'poll_false_empty': 150,
        'polls_interrupted_by_signal': 150, 'wait_calls': 150,
    },
}
JOBS = 14
SPEC_TIMEOUT = 420
CONFIRM_ALONE = ('transfer_stalled', 'poll_overran', 'poll_false_with_data')

F_SETPIPE_SZ, F_GETPIPE_SZ = 1031, 1032
_os_write, _os_read = os.write, os.read
STALL_S = 45.0          # a transfer normally takes well under 5 s
CASE_GUARD_S = 30.0     # single-threaded cases normally take milliseconds
LOCK = threading.Lock()


def plan(tier, seed):
    q = tier == 'quick'
    specs = []
    base = seed * 1000
    n_shim = 14 if q else 40
    for i in range(n_shim):
        big = []
        if i % 3 == 0:
            big.append(1 << 20)
        if i % 7 == 1:
            big.append(8 << 20)
        if not q and i % 5 == 2:
            big += [(1 << 20) + 1, (8 << 20) - 3]
        specs.append({'mode': 'shim', 'seed': base + i, 'scenarios': 14 if q else 40,
                      'msgs': 20 if q else 30, 'big': big})
    for i, (tr, inj) in enumerate([('pipe', 'close'), ('pipe', 'shim'),
                                   ('sock', 'close'), ('sock', 'shim')]):
        for j in range(1 if q else 3):
            specs.append({'mode': 'eof', 'seed': base + 100 + i * 10 + j,
                          'transport': tr, 'injector': inj,
                          'payload_cuts': 6 if q else 16})
    for i in range(4 if q else 8):
        specs.append({'mode': 'bounds', 'seed': base + 200 + i,
                      'transport': ('pipe', 'sock')[i % 2]})
    for i in range(6 if q else 16):
        specs.append({'mode': 'kfrag', 'seed': base + 300 + i,
                      'scenarios': 4 if q else 8, 'msgs': 14 if q else 24,
                      'big': [1 << 20] if i % 2 == 0 else ([8 << 20] if i % 6 == 1 else [])})
    for i in range(3 if q else 6):
        specs.append({'mode': 'poll', 'seed': base + 400 + i, 'rounds': 120 if q else 400})
    return specs


# --------------------------------------------------------------------------
# reporting helpers (threads report through one lock)
# --------------------------------------------------------------------------

def viol(rec, kind, attrs, **detail):
    with LOCK:
        rec.violation(kind, attrs, **detail)
        try:
            rec.flush()
        except Exception:
            pass


class CaseTimeout(BaseException):
    """raised in the main thread by the guard timer: a blocking call of a
    single-threaded case did not come back"""


def _guard_fire(signum, frame):
    raise CaseTimeout()


def guard_arm(seconds=None):
    signal.signal(signal.SIGALRM, _guard_fire)
    signal.setitimer(signal.ITIMER_REAL, CASE_GUARD_S if seconds is None else seconds)


def guard_off():
    signal.setitimer(signal.ITIMER_REAL, 0)


def tb_tail(n=1500):
    return traceback.format_exc()[-n:]


def bucket(n):
    return 0 if n <= 0 else (1 if n < 10 else (2 if n < 100 else (3 if n < 1000 else 4)))


# --------------------------------------------------------------------------
# the syscall-boundary shim
# --------------------------------------------------------------------------

PROFILES = {
    # name: (p_eintr_w, p_short_w, p_eintr_r, p_short_r)
    'none': (0, 0, 0, 0),
    'light': (.05, .15, .05, .15),
    'heavy': (.25, .5, .25, .5),
    'wonly': (.2, .6, 0, 0),
    'ronly': (0, 0, .2, .6),
    'eintr': (.5, 0, .5, 0),
    'onebyte': (.1, 1.0, .1, 1.0),
}
COUNT_KEYS = ('short_w', 'short_r', 'eintr_w', 'eintr_r', 'eof_inj', 'w_calls',
              'r_calls', 'k_short_w', 'k_short_r', 'zero_w')


class Livelock(BaseException):
    """raised by the shim into a _send that keeps calling write() with an
    empty buffer: the call can never finish (decided by count, not by time)"""


LIVELOCK_N = 5000
READ_CAP = 12 << 20     # no frame put on a wire by this harness exceeds 8 MiB + a little


class Misread(RuntimeError):
    """raised by the shim into a _recv that asks for more bytes than any
    message of this harness has: a length header was mis-read (decided by
    size, so that the receive fails at once instead of blocking)"""


class FdPlan:
    def __init__(self, rng_w=None, rng_r=None, profile='none', eof_at=None):
        self.rng_w, self.rng_r = rng_w, rng_r
        self.pw_eintr, self.pw_short, self.pr_eintr, self.pr_short = PROFILES[profile]
        self.one_byte = profile == 'onebyte'
        self.eof_at = eof_at
        self.rd_off = 0
        self.tiny_w = 150
        self.tiny_r = 150
        self.zero_run = 0
        self.c = dict.fromkeys(COUNT_KEYS, 0)


class Shim:
    def __init__(self):
        self.plans = {}
        self.calls_w = 0
        self.calls_r = 0
        self.installed = False

    def io_calls(self):
        return self.calls_w + self.calls_r

    def _cut(self, rng, n, p, side):
        if p.one_byte:
            return 1
        if n <= 64:
            return rng.randrange(1, n)
        r = rng.random()
        if r < 0.35:
            left = p.tiny_w if side == 'w' else p.tiny_r
            if left > 0:
                if side == 'w':
                    p.tiny_w -= 1
                else:
                    p.tiny_r -= 1
                return rng.randrange(1, 18)
        if r < 0.55:
            cand = [c for c in (3, 4, 5, 4096, 4100, 8192, 16384, 16388, 65536) if c < n]
            if cand:
                return rng.choice(cand)
        return rng.randrange(1, n)

    def write(self, fd, buf):
        self.calls_w += 1
        p = self.plans.get(fd)
        if p is None:
            return _os_write(fd, buf)
        c = p.c
        c['w_calls'] += 1
        n = len(buf)
        if n == 0:
            c['zero_w'] += 1
            p.zero_run += 1
            if p.zero_run > LIVELOCK_N:
                raise Livelock()
        else:
            p.zero_run = 0
        rng = p.rng_w
        if rng is not None and n > 0:
            r = rng.random()
            if r < p.pw_eintr:
                c['eintr_w'] += 1
                raise InterruptedError(errno.EINTR, 'Interrupted system call [injected]')
            if n > 1 and r < p.pw_eintr + p.pw_short:
                k = self._cut(rng, n, p, 'w')
                c['short_w'] += 1
                return _os_write(fd, buf[:k])
        m = _os_write(fd, buf)
        if m < n:
            c['k_short_w'] += 1
        return m

    def read(self, fd, n):
        self.calls_r += 1
        if n > READ_CAP:
            raise Misread('read of %d bytes requested; no message here is longer than %d'
                          % (n, 8 << 20))
        p = self.plans.get(fd)
        if p is None:
            return _os_read(fd, n)
        c = p.c
        c['r_calls'] += 1
        if p.eof_at is not None:
            left = p.eof_at - p.rd_off
            if left <= 0:
                c['eof_inj'] += 1
                return b''
            n = min(n, left)
        want = n
        rng = p.rng_r
        if rng is not None and n > 0:
            r = rng.random()
            if r < p.pr_eintr:
                c['eintr_r'] += 1
                raise InterruptedError(errno.EINTR, 'Interrupted system call [injected]')
            if n > 1 and r < p.pr_eintr + p.pr_short:
                want = self._cut(rng, n, p, 'r')
                c['short_r'] += 1
        chunk = _os_read(fd, want)
        if want == n and 0 < len(chunk) < n:
            c['k_short_r'] += 1
        p.rd_off += len(chunk)
        return chunk


def install_shim(rec):
    from billiard import connection as bc
    sh = Shim()
    ok = True
    for name, arg, fn in (('_send', 'write', sh.write), ('_recv', 'read', sh.read)):
        f = bc.Connection.__dict__.get(name)
        d = getattr(f, '__defaults__', None)
        code = getattr(f, '__code__', None)
        try:
            last = code.co_varnames[code.co_argcount - 1]
        except Exception:
            last = None
        if not d or len(d) != 1 or last != arg:
            rec.missing('Connection.%s default argument %s (syscall shim not installed)' % (name, arg))
            ok = False
            continue
        f.__defaults__ = (fn,)
    sh.installed = ok
    return sh


def add_counts(rec, c, prefix=''):
    for k, v in c.items():
        if v:
            rec.count(prefix + k, v)


# --------------------------------------------------------------------------
# payloads, lengths, sources
# --------------------------------------------------------------------------

BOUNDARY = [0, 1, 2, 3, 4, 5, 11, 12, 13, 255, 256, 4091, 4092, 4093, 4095, 4096,
            4097, 8191, 8192, 8193, 16379, 16380, 16381, 16383, 16384, 16385,
            16387, 16388, 16389, 65531, 65532, 65533, 65535, 65536, 65537]


def make_payload(rng, tag, n):
    if n >= 12:
        body = rng.randbytes(n - 12)
        return struct.pack('!III', tag & 0xffffffff, n, zlib.crc32(body)) + body
    return bytes(((tag * 37 + i * 11 + 5) & 0xff) for i in range(n))


def len_class(n):
    if n < 3:
        return str(n)
    if n < 4000:
        return 'small'
    if 4090 <= n <= 4100:
        return '4k'
    if n < 16379:
        return 'mid'
    if n <= 16384:
        return '16k-'
    if n <= 16389:
        return '16k+'
    if 65530 <= n <= 65540:
        return '64k'
    if n < (1 << 20):
        return 'large'
    if n < (8 << 20) - 16:
        return '1MiB'
    return '8MiB'


def pick_len(rng, cap=None):
    r = rng.random()
    if r < 0.55:
        n = rng.choice(BOUNDARY)
    elif r < 0.85:
        n = rng.randrange(0, 2000)
    elif r < 0.97:
        n = rng.randrange(2000, 200000)
    else:
        n = rng.randrange(200000, 600000)
    if cap is not None and n > cap:
        n = rng.randrange(0, cap + 1)
    return n


SRC_KINDS = ['bytes', 'bytes_off', 'bytearray_off', 'memoryview', 'memoryview_off',
             'memoryview_b', 'array_B', 'array_I', 'mmap']


def build_source(rng, data, kind):
    """-> (obj, offset, size, cleanup) with bytes(obj)[offset:offset+size] == data
    (size None = to the end)."""
    n = len(data)
    lp = rng.choice([0, 1, 3, 8, 17]) if kind.endswith('_off') or kind in ('array_I', 'mmap', 'array_B') else 0
    rp = rng.choice([0, 0, 1, 5]) if lp or kind in ('array_I',) else 0
    if kind == 'bytes':
        return data, 0, None, None
    if kind == 'memoryview':
        ba = bytearray(b'\x5a' * 3) + data + b'\xa5' * 2
        return memoryview(ba)[3:3 + n], 0, rng.choice([None, n]), None
    if kind == 'memoryview_b':
        return memoryview(bytearray(data)).cast('b'), 0, None, None
    if kind == 'array_I':
        total = lp + n + rp
        rp += (-total) % 4
    raw = b'\x5a' * lp + data + b'\xa5' * rp
    size = n if (rp or rng.random() < 0.5) else None
    if kind == 'bytes_off':
        return raw, lp, size, None
    if kind == 'bytearray_off':
        return bytearray(raw), lp, size, None
    if kind == 'memoryview_off':
        return memoryview(bytearray(raw)), lp, size, None
    if kind == 'array_B':
        return array.array('B', raw), lp, size, None
    if kind == 'array_I':
        return array.array('I', raw), lp, size, None
    if kind == 'mmap':
        if not raw:
            raw, size = b'\x00', 0
            lp = rng.choice([0, 1])
        mm = mmap.mmap(-1, len(raw))
        mm[:] = raw

        def cleanup():
            try:
                mm.close()
            except BufferError:
                pass
        return mm, lp, size, cleanup
    raise ValueError(kind)


def frame(data):
    """reference framing"""
    return struct.pack('!i', len(data)) + data


def diagnose(got, expected, idx):
    """classify a mismatch between the message received at position idx and
    the FIFO of expected byte strings"""
    want = expected[idx]
    for j, e in enumerate(expected):
        if j != idx and e == got and len(got) >= 12:
            if j > idx:
                return 'message_lost_or_reordered', {'got_index': j, 'want_index': idx}
            return 'message_duplicated_or_reordered', {'got_index': j, 'want_index': idx}
    if len(got) != len(want):
        return 'message_boundary_shifted', {'got_len': len(got), 'want_len': len(want),
                                            'common_prefix': _common_prefix(got, want)}
    return 'message_altered', {'len': len(want), 'first_bad_offset': _common_prefix(got, want)}


def _common_prefix(a, b):
    n = min(len(a), len(b))
    if a[:n] == b[:n]:
        return n
    lo, hi = 0, n
    while lo < hi:
        mid = (lo + hi) // 2
        if a[:mid + 1] == b[:mid + 1]:
            lo = mid + 1
        else:
            hi = mid
    return lo


# --------------------------------------------------------------------------
# transports
# --------------------------------------------------------------------------

def make_pair(transport, bufcls='default'):
    """-> (reader_conn, writer_conn, duplex)"""
    from billiard.connection import Pipe
    if transport == 'pipe':
        r, w = Pipe(duplex=False)
        if bufcls == 'tiny':
            fcntl.fcntl(w.fileno(), F_SETPIPE_SZ, 4096)
        return r, w, False
    a, b = Pipe(duplex=True)
    if bufcls == 'tiny':
        for c in (a, b):
            s = socket.socket(fileno=os.dup(c.fileno()))
            try:
                s.setsockopt(socket.SOL_SOCKET, socket.SO_SNDBUF, 1024)
                s.setsockopt(socket.SOL_SOCKET, socket.SO_RCVBUF, 1024)
            finally:
                s.close()
    return a, b, True


def safe_close(*conns):
    for c in conns:
        try:
            c.close()
        except Exception:
            pass


# --------------------------------------------------------------------------
# message plans, sending and receiving through the public API
# --------------------------------------------------------------------------

RECV_APIS = ['recv_bytes', 'recv_bytes', 'recv_bytes_max', 'recv_bytes_into', 'poll_recv']
INTO_KINDS = ['bytearray', 'memoryview', 'array_B', 'mmap']


class Msg:
    __slots__ = ('tag', 'n', 'data', 'obj', 'send_api', 'src', 'recv_api',
                 'maxlen', 'into_kind', 'into_off', 'into_slack')


def make_msgs(rng, count, tagbase, cap=None, big=(), objects=True):
    msgs = []
    lens = [pick_len(rng, cap) for _ in range(count)]
    for b in big:
        lens.insert(rng.randrange(len(lens) + 1), b)
    for i, n in enumerate(lens):
        m = Msg()
        m.tag = tagbase + i
        m.n = n
        m.obj = None
        if objects and n < 100000 and rng.random() < 0.12:
            # an object message: send()/recv(); the payload rides inside
            m.send_api = 'send'
            m.src = 'object'
            m.obj = (m.tag, make_payload(rng, m.tag, n), [n, None, 'x' * (n % 7)])
            m.data = None
            m.recv_api = rng.choice(['recv', 'recv', 'recv_bytes'])
        else:
            m.send_api = 'send_bytes'
            m.src = rng.choice(SRC_KINDS)
            m.data = make_payload(rng, m.tag, n)
            m.recv_api = rng.choice(RECV_APIS)
        m.maxlen = None
        if m.recv_api == 'recv_bytes_max':
            m.maxlen = rng.choice([n, n, n + 1, n + 1000, 0x7fffffff])
        m.into_kind = rng.choice(INTO_KINDS)
        m.into_off = rng.choice([0, 0, 1, 7, 64])
        m.into_slack = rng.choice([0, 0, 1, 9])
        msgs.append(m)
    return msgs


def do_send(conn, m, rng):
    if m.send_api == 'send':
        conn.send(m.obj)
        return
    obj, off, size, cleanup = build_source(rng, m.data, m.src)
    try:
        if off == 0 and size is None and rng.random() < 0.5:
            conn.send_bytes(obj)
        elif size is None:
            conn.send_bytes(obj, off)
        else:
            conn.send_bytes(obj, off, size)
    finally:
        del obj
        if cleanup:
            cleanup()


FILL = 0xA5


def make_dest(kind, size):
    """-> (buffer object, function returning its bytes, cleanup)"""
    if kind == 'mmap' and size == 0:
        kind = 'bytearray'
    if kind == 'bytearray':
        b = bytearray([FILL]) * size
        return b, (lambda: bytes(b)), None
    if kind == 'memoryview':
        b = bytearray([FILL]) * (size + 4)
        return memoryview(b)[2:2 + size], (lambda: bytes(b[2:2 + size])), None
    if kind == 'array_B':
        a = array.array('B', bytes([FILL]) * size)
        return a, (lambda: a.tobytes()), None
    if kind == 'array_I':
        a = array.array('I', bytes([FILL]) * size)
        return a, (lambda: a.tobytes()), None
    if kind == 'array_H':
        a = array.array('H', bytes([FILL]) * size)
        return a, (lambda: a.tobytes()), None
    if kind == 'mmap':
        mm = mmap.mmap(-1, size)
        mm[:] = bytes([FILL]) * size
        return mm, (lambda: mm[:]), mm.close
    raise ValueError(kind)


def do_recv(conn, m, expect_len):
    """receive one message with the API the plan chose; -> ('bytes', b) or
    ('obj', o); raises what the connection raises.  Also returns problems
    found with recv_bytes_into / maxlength as a list of (kind, detail)."""
    problems = []
    api = m.recv_api
    if api == 'recv':
        return 'obj', conn.recv(), problems
    if api == 'recv_bytes':
        return 'bytes', conn.recv_bytes(), problems
    if api == 'poll_recv':
        ready = False
        for _attempt in range(4):
            if conn.poll(STALL_S):
                ready = True
                break
        if not ready:
            problems.append(('poll_false_with_data', {'timeout': STALL_S, 'attempts': 4}))
        return 'bytes', conn.recv_bytes(), problems
    if api == 'recv_bytes_max':
        got = conn.recv_bytes(m.maxlen)
        if len(got) > m.maxlen:
            problems.append(('maxlength_exceeded', {'maxlength': m.maxlen, 'got_len': len(got)}))
        return 'bytes', got, problems
    if api == 'recv_bytes_into':
        size = m.into_off + expect_len + m.into_slack
        buf, snapshot, cleanup = make_dest(m.into_kind, size)
        try:
            n = conn.recv_bytes_into(buf, m.into_off)
            after = snapshot()
        finally:
            del buf
            if cleanup:
                try:
                    cleanup()
                except BufferError:
                    pass
        if not isinstance(n, int) or n < 0 or m.into_off + n > size:
            problems.append(('recv_into_bad_count', {'returned': repr(n), 'size': size}))
            return 'bytes', b'', problems
        pad_ok = (after[:m.into_off] == bytes([FILL]) * m.into_off and
                  after[m.into_off + n:] == bytes([FILL]) * (size - m.into_off - n))
        if not pad_ok:
            problems.append(('recv_into_wrote_outside', {'offset': m.into_off, 'count': n,
                                                         'size': size, 'dest': m.into_kind}))
        return 'bytes', after[m.into_off:m.into_off + n], problems
    raise ValueError(api)


class Transfer:
    """one direction: a sender thread and a receiver thread over the real
    Connection objects; the receiver checks against the FIFO."""

    def __init__(self, rec, wconn, rconn, msgs, attrs, seed, close_after=True,
                 raw_reader=False, slow=0.0):
        self.rec, self.wconn, self.rconn, self.msgs = rec, wconn, rconn, msgs
        self.attrs, self.seed = attrs, seed
        self.close_after, self.raw_reader, self.slow = close_after, raw_reader, slow
        self.abort = threading.Event()
        self.failed = False
        self.sent = 0
        self.received = 0
        self.counts = {}
        self.expected = [m.data if m.obj is None else None for m in msgs]
        self.ts = threading.Thread(target=self._guard, args=(self._send_loop,), daemon=True)
        self.tr = threading.Thread(target=self._guard, args=(self._recv_loop,), daemon=True)
        self.harness_error = None
        self.suppress = None
        self.suppressed = None

    def _guard(self, fn):
        try:
            fn()
        except BaseException:
            self.harness_error = tb_tail()
            self.abort.set()

    def cnt(self, k, n=1):
        self.counts[k] = self.counts.get(k, 0) + n

    def fail(self, kind, **detail):
        self.failed = True
        self.abort.set()
        if self.suppress is not None and self.suppress():
            # the harness itself ended the peer (stall watchdog): what the
            # receiver sees after that is not the connection's doing
            self.suppressed = (kind, detail)
            return
        viol(self.rec, kind, self.attrs, **detail)

    def start(self):
        self.ts.start()
        self.tr.start()

    # -- sender --------------------------------------------------------
    def _send_loop(self):
        rng = rng_for(self.seed, 'src')
        try:
            for i, m in enumerate(self.msgs):
                if self.abort.is_set():
                    return
                try:
                    do_send(self.wconn, m, rng)
                except Livelock:
                    self.fail('send_never_completes', api=m.send_api, src=m.src, index=i,
                              length=m.n, symptom='%d consecutive write() calls with an empty '
                              'buffer inside one send' % LIVELOCK_N, tb=tb_tail())
                    return
                except Exception as exc:
                    if self.abort.is_set():
                        return
                    self.fail('send_raised', api=m.send_api, src=m.src, index=i,
                              length=m.n, exc=repr(exc), tb=tb_tail())
                    return
                self.sent += 1
        finally:
            if self.close_after:
                safe_close(self.wconn)

    # -- receiver ------------------------------------------------------
    def _recv_loop(self):
        if self.raw_reader:
            return self._raw_loop()
        for i, m in enumerate(self.msgs):
            if self.abort.is_set():
                return
            if self.slow:
                time.sleep(self.slow)
            try:
                what, got, problems = do_recv(self.rconn, m, m.n)
            except Exception as exc:
                if self.abort.is_set():
                    return
                self.fail('recv_raised', api=m.recv_api, index=i, length=m.n,
                          exc=repr(exc), tb=tb_tail())
                return
            for k, d in problems:
                self.fail(k, api=m.recv_api, index=i, length=m.n, **d)
            if problems:
                return
            if not self._compare(i, m, what, got):
                return
            self.received += 1
            self.cnt('messages')
            self.cnt('len:' + len_class(m.n))
            self.cnt('api:' + m.recv_api)
            self.cnt('src:' + m.src)
        if self.close_after:
            try:
                extra = self.rconn.recv_bytes()
            except EOFError:
                self.cnt('clean_eof_seen')
            except Exception as exc:
                self.fail('clean_eof_not_EOFError', exc=repr(exc), after_messages=len(self.msgs))
            else:
                self.fail('message_from_nowhere', length=len(extra), head=extra[:32])

    def _compare(self, i, m, what, got):
        if m.obj is not None:
            if what == 'bytes':
                try:
                    got = pickle.loads(got)
                except Exception as exc:
                    self.fail('message_altered', api=m.recv_api, index=i, length=m.n,
                              why='pickle of object message does not load: %r' % exc)
                    return False
            if got != m.obj:
                self.fail('message_altered', api=m.recv_api, index=i, length=m.n,
                          why='object differs', got=repr(got)[:200])
                return False
            self.cnt('bytes', m.n)
            return True
        if what != 'bytes' or got != m.data:
            if what != 'bytes':
                self.fail('message_altered', api=m.recv_api, index=i, why='object for bytes message')
                return False
            exp = [e if e is not None else b'' for e in self.expected]
            kind, d = diagnose(got, exp, i)
            self.fail(kind, api=m.recv_api, src=m.src, index=i, **d)
            return False
        self.cnt('bytes', m.n)
        self.cnt('crc_checked')
        return True

    def _raw_loop(self):
        """read the wire with os.read and compare with the reference framing"""
        fd = self.rconn.fileno()
        want = b''.join(frame(m.data) for m in self.msgs)
        got = bytearray()
        while True:
            chunk = _os_read(fd, 1 << 16)
            if not chunk:
                break
            got += chunk
            if len(got) > len(want) + (1 << 16):
                break
        if bytes(got) != want:
            cp = _common_prefix(bytes(got), want)
            self.fail('wire_bytes_differ', got_len=len(got), want_len=len(want),
                      first_bad_offset=cp, got_at=bytes(got[cp:cp + 16]),
                      want_at=want[cp:cp + 16])
            return
        self.received = len(self.msgs)
        self.cnt('messages', len(self.msgs))
        self.cnt('raw_wire_streams')
        self.cnt('bytes', sum(m.n for m in self.msgs))


def wait_transfers(transfers, progress):
    """wait for the transfer threads; give up only when nothing moved (no
    read or write call reached the shim) for STALL_S seconds"""
    last, t_last = progress(), time.monotonic()
    while True:
        alive = [th for t in transfers for th in (t.ts, t.tr) if th.is_alive()]
        if not alive:
            return True
        if any(t.failed for t in transfers):
            for th in alive:
                th.join(2.0)
            return True
        alive[0].join(0.05)
        cur, now = progress(), time.monotonic()
        if cur != last:
            last, t_last = cur, now
        elif now - t_last > STALL_S:
            return False


def shim_scenario(rec, sh, rng, spec, idx):
    transport = rng.choice(['pipe', 'sock'])
    bufcls = rng.choice(['default', 'tiny'])
    profile = rng.choice(['light', 'heavy', 'heavy', 'wonly', 'ronly', 'eintr', 'onebyte', 'none'])
    big = spec.get('big', []) if idx == 0 else []
    if big and profile == 'onebyte':
        profile = 'heavy'
    raw = transport and rng.random() < 0.15
    bidir = transport == 'sock' and not raw and rng.random() < 0.3
    cap = 3000 if profile == 'onebyte' else None
    count = spec['msgs'] if profile != 'onebyte' else max(6, spec['msgs'] // 2)
    a, b, duplex = make_pair(transport, bufcls)   # a reads, b writes
    attrs = {'mode': 'shim', 'transport': transport}
    seed = spec['seed'] * 1000 + idx
    transfers = []
    plans = []

    def plan_for(conn, w, r, tag):
        p = FdPlan(rng_w=rng_for(seed, tag, 'w') if w else None,
                   rng_r=rng_for(seed, tag, 'r') if r else None, profile=profile)
        sh.plans[conn.fileno()] = p
        plans.append(p)

    msgs1 = make_msgs(rng, count, idx * 10000, cap=cap, big=big, objects=not raw)
    if raw:
        for m in msgs1:
            m.recv_api = 'raw'
    if bidir:
        msgs2 = make_msgs(rng, count, idx * 10000 + 5000, cap=cap)
        plan_for(a, True, True, 'a')
        plan_for(b, True, True, 'b')
        transfers.append(Transfer(rec, b, a, msgs1, attrs, seed, close_after=False))
        transfers.append(Transfer(rec, a, b, msgs2, attrs, seed + 1, close_after=False))
    else:
        plan_for(b, True, False, 'b')
        if not raw:
            plan_for(a, False, True, 'a')
        transfers.append(Transfer(rec, b, a, msgs1, attrs, seed, close_after=True,
                                  raw_reader=raw))
    fds = [a.fileno(), b.fileno()]
    for t in transfers:
        t.start()
    done = wait_transfers(
        transfers, lambda: (sum(p.c['r_calls'] + p.c['w_calls'] for p in plans),
                            sum(t.sent + t.received for t in transfers)))
    failed = any(t.failed for t in transfers)
    herr = [t.harness_error for t in transfers if t.harness_error]
    if herr:
        raise RuntimeError('harness error in transfer thread: ' + herr[0])
    stalled = False
    if not done and not failed:
        stalled = True
        viol(rec, 'transfer_stalled', attrs, profile=profile, bufcls=bufcls,
             sent=[t.sent for t in transfers], received=[t.received for t in transfers],
             no_progress_for_s=STALL_S)
    clean = done and not failed
    if clean:
        for fd in fds:
            sh.plans.pop(fd, None)
        safe_close(a, b)
    # evidence
    tot = dict.fromkeys(COUNT_KEYS, 0)
    for p in plans:
        for k, v in p.c.items():
            tot[k] += v
    add_counts(rec, tot)
    lens, apis = set(), set()
    for t in transfers:
        add_counts(rec, t.counts)
        for k in t.counts:
            if k.startswith('len:'):
                lens.add(k[4:])
            if k.startswith('api:'):
                apis.add(k[4:])
    rec.case()
    rec.count('scenarios_shim')
    if bidir:
        rec.count('bidirectional_scenarios')
    frag = tot['short_w'] + tot['short_r'] + tot['eintr_w'] + tot['eintr_r'] + \
        tot['k_short_w'] + tot['k_short_r']
    if frag:
        rec.sig(['shim', transport, bufcls, profile, 'raw' if raw else ('bidir' if bidir else 'uni'),
                 bucket(tot['short_w']), bucket(tot['short_r']),
                 bucket(tot['eintr_w'] + tot['eintr_r']),
                 bucket(tot['k_short_w'] + tot['k_short_r']), sorted(lens)])
    rec.sample({'mode': 'shim', 'transport': transport, 'buffers': bufcls, 'profile': profile,
                'reader': 'raw' if raw else 'api', 'bidirectional': bidir,
                'messages': [t.received for t in transfers],
                'lengths': [m.n for m in msgs1][:30], 'shim_events': tot,
                'recv_apis': sorted(apis)})
    return 'stalled' if stalled else clean


def run_shim(spec, rec):
    sh = install_shim(rec)
    rng = rng_for(spec['seed'], 'shim')
    bad = 0
    for idx in range(spec['scenarios']):
        res = shim_scenario(rec, sh, rng, spec, idx)
        if res is not True:
            bad += 1
            if bad >= 3 or res == 'stalled':
                rec.note('spec stopped early after failed/stalled scenarios')
                break
        if idx % 4 == 0:
            rec.flush()


# --------------------------------------------------------------------------
# mode eof: the peer closes / the stream ends at every position
# --------------------------------------------------------------------------

EOF_LENS = [0, 1, 5, 100, 4096, 16384, 16385, 70000]
EOF_APIS = ['recv_bytes', 'recv_bytes_max', 'recv_bytes_into', 'recv']


def feed_raw(wconn, data, close):
    """write raw bytes on the writer's fd (from a helper thread when they may
    not fit the kernel buffer), then optionally close the writer"""
    fd = wconn.fileno()

    def body():
        mv = memoryview(data)
        while len(mv):
            n = _os_write(fd, mv[:65536])
            mv = mv[n:]
        if close:
            wconn.close()
    if len(data) > 30000:
        t = threading.Thread(target=body, daemon=True)
        t.start()
        return t
    body()
    return None


def eof_case(rec, sh, rng, transport, injector, L, npre, k, api, tagbase, noisy):
    """npre complete messages, then a frame of payload length L cut after k
    bytes (k == 0: clean end at a message boundary)."""
    attrs = {'mode': 'eof', 'injector': injector, 'api': api,
             'cut': 'boundary' if k == 0 else ('header' if k < 4 else
                                               ('after_header' if k == 4 else 'payload'))}
    r, w, duplex = make_pair(transport)
    pre = [make_payload(rng, tagbase + i, rng.choice([0, 1, 40, 300])) for i in range(npre)]
    last = make_payload(rng, tagbase + 9, L)
    if api == 'recv':
        last = pickle.dumps((tagbase, last))
        L = len(last)
        k = min(k, 4 + L - 1)
    stream = b''.join(frame(p) for p in pre)
    cut_at = len(stream) + k
    plan = None
    if injector == 'close':
        th = feed_raw(w, stream + frame(last)[:k], close=True)
        if sh.installed:
            plan = FdPlan(rng_r=rng_for(tagbase, 'eofr') if noisy else None,
                          profile='light' if noisy else 'none')
            sh.plans[r.fileno()] = plan
    else:
        th = feed_raw(w, stream + frame(last) + frame(b'trailing-message'), close=False)
        plan = FdPlan(rng_r=rng_for(tagbase, 'eofr') if noisy else None,
                      profile='heavy' if noisy else 'none', eof_at=cut_at)
        sh.plans[r.fileno()] = plan
    ok = True
    try:
        for i, p in enumerate(pre):
            try:
                got = r.recv_bytes()
            except Exception as exc:
                viol(rec, 'recv_raised', attrs, where='complete message before the cut',
                     index=i, exc=repr(exc), tb=tb_tail())
                return False
            if got != p:
                kind, d = diagnose(got, pre, i)
                viol(rec, kind, attrs, where='complete message before the cut', index=i, **d)
                return False
        outcome = None
        try:
            if api == 'recv_bytes':
                got = r.recv_bytes()
            elif api == 'recv_bytes_max':
                got = r.recv_bytes(L + 10)
            elif api == 'recv_bytes_into':
                buf = bytearray(L + 10)
                n = r.recv_bytes_into(buf)
                got = bytes(buf[:n])
            else:
                got = r.recv()
            outcome = 'returned'
        except EOFError:
            outcome = 'EOFError'
        except OSError as exc:
            outcome = 'OSError'
            exc_s = repr(exc)
        except Exception as exc:
            outcome = type(exc).__name__
            exc_s = repr(exc)
        if outcome == 'returned':
            ok = False
            viol(rec, 'message_from_nowhere' if k == 0 else 'short_message_delivered', attrs,
                 frame_payload_len=L, cut_after_bytes=k, complete_before=npre,
                 got_len=len(got) if hasattr(got, '__len__') else None, got=repr(got)[:80])
        elif k == 0 and outcome != 'EOFError':
            ok = False
            viol(rec, 'clean_eof_not_EOFError', attrs, exc=exc_s, complete_before=npre)
        rec.count('eof_cut_' + attrs['cut'])
        rec.count('eof_outcome_%s_%s' % (attrs['cut'], outcome))
        if k and 4 < k:
            rec.count('mid_payload_eof')
        if k and k < 4:
            rec.count('mid_header_eof')
        if k == 0:
            rec.count('boundary_eof')
        rec.sig(['eof', transport, injector, attrs['cut'], api, len_class(L), npre > 0,
                 outcome, noisy])
    finally:
        if plan is not None:
            add_counts(rec, plan.c)
        sh.plans.pop(r.fileno(), None)
        if th is not None:
            # unblock a feeder that still has bytes to push
            safe_close(r)
            th.join(10)
        safe_close(r, w)
    rec.case()
    return ok


def run_eof(spec, rec):
    sh = install_shim(rec)
    if spec['injector'] == 'shim' and not sh.installed:
        return
    rng = rng_for(spec['seed'], 'eof')
    transport, injector = spec['transport'], spec['injector']
    tag = 0
    bad = 0
    for L in EOF_LENS:
        cuts = list(range(0, min(4, 4 + L) + 1))
        if L == 0:
            cuts = [0, 1, 2, 3]
        if L > 1:
            cand = {5, 4 + L - 1, 4 + L // 2, 4 + 4096, 4 + 4095, 4 + 16384, 4 + 65536}
            cand |= {rng.randrange(5, 4 + L) for _ in range(spec['payload_cuts'])}
            cuts += sorted(c for c in cand if 4 < c < 4 + L)[:spec['payload_cuts'] + 4]
        for k in cuts:
            for npre in (0, 2):
                for api in EOF_APIS:
                    tag += 16
                    noisy = rng.random() < 0.5
                    guard_arm()
                    try:
                        ok = eof_case(rec, sh, rng, transport, injector, L, npre, k, api,
                                      spec['seed'] * 100000 + tag, noisy)
                        guard_off()
                    except CaseTimeout:
                        ok = False
                        bad += 100
                        viol(rec, 'transfer_stalled', {'mode': 'eof', 'injector': injector, 'api': api},
                             frame_payload_len=L, cut_after_bytes=k, complete_before=npre,
                             waited_s=CASE_GUARD_S)
                    finally:
                        guard_off()
                    if not ok:
                        bad += 1
                    if bad > 8:
                        rec.note('eof spec stopped early after failed/stalled cases')
                        return
        rec.flush()
    if spec.get('sample', True):
        rec.sample({'mode': 'eof', 'transport': transport, 'injector': injector,
                    'lengths': EOF_LENS, 'cases': tag // 16})


# --------------------------------------------------------------------------
# mode bounds: maxlength, destination buffers, offsets, handle state
# --------------------------------------------------------------------------

class Bounds:
    def __init__(self, rec, sh, rng, transport):
        self.rec, self.sh, self.rng, self.transport = rec, sh, rng, transport
        self.tag = 0
        self.bad = 0
        self.last = None

    def payload(self, n):
        self.tag += 1
        return make_payload(self.rng, self.tag, n)

    def pair(self):
        """every case starts with a fresh pair; (re)arm the guard timer"""
        guard_arm()
        self.ncase = getattr(self, 'ncase', 0) + 1
        self.last = self.ncase
        return make_pair(self.transport)

    def v(self, kind, attrs, **d):
        self.bad += 1
        a = {'mode': 'bounds'}
        a.update(attrs)
        viol(self.rec, kind, a, transport=self.transport, **d)

    def expect_next(self, r, want, attrs, what):
        """the stream must continue with exactly `want`"""
        try:
            got = r.recv_bytes()
        except Exception as exc:
            self.v('recv_raised', attrs, where=what, exc=repr(exc), tb=tb_tail())
            return False
        if got != want:
            kind, d = diagnose(got, [want], 0)
            self.v(kind, attrs, where=what, **d)
            return False
        return True

    # -- recv_bytes(maxlength) ----------------------------------------------
    def maxlength(self):
        rec = self.rec
        for L in [0, 1, 5, 100, 4096, 16384, 16385, 40000]:
            for m in sorted({0, L - 1, L, L + 1, 2 * L + 7, 0x7fffffff}):
                if m < 0:
                    continue
                r, w, duplex = self.pair()
                attrs = {'case': 'maxlength', 'rel': 'over' if L > m else ('equal' if L == m else 'under')}
                msg, follow = self.payload(L), self.payload(33)
                w.send_bytes(msg)
                w.send_bytes(follow)
                try:
                    got = r.recv_bytes(m)
                    raised = None
                except Exception as exc:
                    raised, got = exc, None
                if L <= m:
                    rec.count('maxlength_within')
                    if L == m:
                        rec.count('maxlength_equal')
                    if raised is not None:
                        self.v('in_limit_message_rejected', attrs, length=L, maxlength=m,
                               exc=repr(raised))
                    elif got != msg:
                        kind, d = diagnose(got, [msg], 0)
                        self.v(kind, attrs, length=L, maxlength=m, **d)
                    else:
                        self.expect_next(r, follow, attrs, 'message after a maxlength receive')
                else:
                    rec.count('maxlength_oversized')
                    if raised is None:
                        self.v('maxlength_exceeded' if len(got) > m else 'oversized_message_delivered',
                               attrs, length=L, maxlength=m, got_len=len(got))
                    else:
                        if not (r.closed or not r.readable):
                            # (not read again: the stream is out of step and
                            # a further receive could block for ever)
                            self.v('readable_after_oversized', attrs, length=L, maxlength=m,
                                   duplex=duplex, closed=r.closed, readable=r.readable)
                            safe_close(r, w)
                            rec.case()
                            continue
                        before = self.sh.io_calls()
                        try:
                            again = r.recv_bytes()
                        except Exception:
                            rec.count('oversized_then_unreadable')
                            if self.sh.io_calls() != before:
                                self.v('io_after_oversized', attrs, duplex=duplex,
                                       io_calls=self.sh.io_calls() - before)
                        else:
                            self.v('read_after_oversized', attrs, length=L, maxlength=m,
                                   duplex=duplex, got_len=len(again))
                rec.sig(['maxlength', self.transport, attrs['rel'], len_class(L),
                         'raised' if raised else 'returned'])
                rec.case()
                safe_close(r, w)
        # negative maxlength is rejected before I/O and consumes nothing
        r, w, duplex = self.pair()
        msg = self.payload(50)
        w.send_bytes(msg)
        self.rejected(lambda: r.recv_bytes(-1), {'case': 'negative_maxlength'})
        self.expect_next(r, msg, {'case': 'negative_maxlength'}, 'message after the rejected call')
        safe_close(r, w)
        # crafted header: claims 2 GiB - 1, limit is small
        r, w, duplex = self.pair()
        _os_write(w.fileno(), struct.pack('!i', 0x7fffffff) + b'x' * 64)
        attrs = {'case': 'crafted_header', 'rel': 'over'}
        try:
            got = r.recv_bytes(1000)
        except Exception:
            rec.count('crafted_header_rejected')
            if not (r.closed or not r.readable):
                self.v('readable_after_oversized', attrs, duplex=duplex)
        else:
            self.v('oversized_message_delivered', attrs, got_len=len(got))
        rec.case()
        safe_close(r, w)

    def rejected(self, call, attrs, buf_snapshot=None):
        """call must raise, without any I/O call reaching the shim"""
        before = self.sh.io_calls()
        try:
            res = call()
        except Exception as exc:
            self.rec.count('rejected_calls')
            self.rec.count('rejected_with_' + type(exc).__name__)
            ok = True
        else:
            ok = False
            self.v('invalid_call_accepted', attrs, result=repr(res)[:80])
        if self.sh.installed and self.sh.io_calls() != before:
            ok = False
            self.v('io_before_rejection', attrs, io_calls=self.sh.io_calls() - before)
        if buf_snapshot is not None:
            snap, orig = buf_snapshot
            if snap() != orig:
                ok = False
                self.v('buffer_modified_by_rejected_call', attrs)
        self.rec.case()
        return ok

    # -- recv_bytes_into -------------------------------------------------------
    def recv_into(self):
        rec = self.rec
        for kind in ['bytearray', 'memoryview', 'array_B', 'array_I', 'mmap']:
            unit = 4 if kind == 'array_I' else 1
            for L in [0, 1, 7, 8, 100, 4096, 16385]:
                if unit > 1:
                    L = (L + unit - 1) // unit * unit
                combos = [(L, 0, 'fit_exact'), (L + 5 * unit, 0, 'fit'),
                          (L + 5 * unit, 5 * unit, 'fit_exact_end'),
                          (L + 8 * unit, 2 * unit, 'fit'),
                          (L + 5 * unit, 6 * unit, 'short_by_offset'),
                          (L + 5 * unit, L + 5 * unit, 'offset_at_end'),
                          (L + 5 * unit, L + 5 * unit + 1, 'offset_beyond'),
                          (L + 5 * unit, -1, 'offset_negative')]
                if L > 0:
                    combos.append((L - unit, 0, 'short'))
                    combos.append((0, 0, 'short_empty_buffer'))
                for (B, o, cls) in combos:
                    if kind == 'mmap' and B == 0:
                        continue
                    attrs = {'case': 'recv_bytes_into', 'dest': kind, 'class': cls}
                    r, w, duplex = self.pair()
                    msg, follow = self.payload(L), self.payload(21)
                    w.send_bytes(msg)
                    w.send_bytes(follow)
                    buf, snap, cleanup = make_dest(kind, B)
                    orig = snap()
                    fits = 0 <= o and o + L <= B
                    try:
                        if o < 0 or o > B:
                            rec.count('into_invalid_offset')
                            self.rejected(lambda: r.recv_bytes_into(buf, o), attrs, (snap, orig))
                            self.expect_next(r, msg, attrs, 'message after the rejected call')
                            out = 'rejected'
                        elif fits:
                            rec.count('into_fits')
                            out = 'returned'
                            try:
                                n = r.recv_bytes_into(buf, o)
                            except Exception as exc:
                                out = 'raised'
                                self.v('recv_raised', attrs, length=L, bufsize=B, offset=o,
                                       exc=repr(exc), tb=tb_tail())
                            else:
                                after = snap()
                                if n != L:
                                    self.v('recv_into_bad_count', attrs, returned=n, length=L)
                                elif after[o:o + L] != msg:
                                    self.v('message_altered', attrs, length=L, bufsize=B, offset=o,
                                           first_bad_offset=_common_prefix(after[o:o + L], msg))
                                elif after[:o] != orig[:o] or after[o + L:] != orig[o + L:]:
                                    self.v('recv_into_wrote_outside', attrs, length=L, bufsize=B,
                                           offset=o)
                                else:
                                    self.expect_next(r, follow, attrs, 'message after recv_bytes_into')
                        else:
                            rec.count('into_too_short')
                            out = 'BufferTooShort'
                            from billiard import BufferTooShort
                            try:
                                n = r.recv_bytes_into(buf, o)
                            except BufferTooShort as exc:
                                if not exc.args or exc.args[0] != msg:
                                    self.v('buffer_too_short_without_whole_message', attrs,
                                           length=L, bufsize=B, offset=o,
                                           carried=repr(exc.args)[:80])
                                if snap() != orig:
                                    self.v('buffer_modified_by_too_short', attrs, length=L,
                                           bufsize=B, offset=o)
                                rec.count('buffer_too_short_seen')
                                self.expect_next(r, follow, attrs, 'message after BufferTooShort')
                            except Exception as exc:
                                out = 'other'
                                self.v('too_short_buffer_wrong_error', attrs, length=L, bufsize=B,
                                       offset=o, exc=repr(exc))
                            else:
                                out = 'returned'
                                self.v('too_short_buffer_accepted', attrs, length=L, bufsize=B,
                                       offset=o, returned=n, modified=snap() != orig)
                        rec.sig(['into', self.transport, kind, cls, len_class(L), out])
                    finally:
                        del buf
                        if cleanup:
                            try:
                                cleanup()
                            except BufferError:
                                pass
                        safe_close(r, w)
                    rec.case()

    def recv_into_unaligned(self):
        """destination with multi-byte items, offset / message size not a
        multiple of the item size: the message must still land, whole, at the
        byte offset asked for (or be refused); never short or misplaced"""
        rec = self.rec
        for kind, unit in (('array_I', 4), ('array_H', 2)):
            attrs = {'case': 'recv_bytes_into_itemsize', 'dest': kind, 'aligned': False}
            witnesses = []
            for (L, o) in [(6, 0), (8, 2), (5, 4), (7, 1), (3, 3), (16, 6)]:
                if L % unit == 0 and o % unit == 0:
                    continue
                B = (o + L + 2 * unit) // unit * unit
                r, w, duplex = self.pair()
                msg = self.payload(L)
                w.send_bytes(msg)
                buf, snap, cleanup = make_dest(kind, B)
                orig = snap()
                try:
                    n = r.recv_bytes_into(buf, o)
                except Exception:
                    rec.count('into_unaligned_refused')
                else:
                    after = snap()
                    rec.count('into_unaligned_accepted')
                    if n != L or after[o:o + L] != msg or after[:o] != orig[:o] or \
                            after[o + L:] != orig[o + L:]:
                        witnesses.append({
                            'length': L, 'offset': o, 'bufsize': B, 'returned': n,
                            'bytes_stored': sum(1 for x, y in zip(after, orig) if x != y),
                            'first_byte_found_at': after.find(msg[:min(L, unit)]),
                            'message': msg, 'buffer_after': after})
                    else:
                        rec.count('into_unaligned_exact')
                del buf
                safe_close(r, w)
                rec.case()
            if witnesses:
                # one report per destination type and spec
                self.v('recv_into_multibyte_buffer_short_or_misplaced', attrs,
                       witnesses=witnesses)

    # -- send_bytes(buf, offset, size) ---------------------------------------------
    def send_offsets(self):
        rec = self.rec
        for kind in ['bytes_off', 'bytearray_off', 'memoryview_off', 'array_B', 'array_I', 'mmap']:
            for n in [0, 1, 8, 100, 16384, 16392, 20000]:
                if kind == 'mmap' and n == 0:
                    continue
                if kind == 'array_I':
                    n = (n + 3) // 4 * 4
                raw = self.payload(n)

                def mk():
                    if kind == 'bytes_off':
                        return raw, None
                    if kind == 'bytearray_off':
                        return bytearray(raw), None
                    if kind == 'memoryview_off':
                        return memoryview(bytearray(raw)), None
                    if kind == 'array_B':
                        return array.array('B', raw), None
                    if kind == 'array_I':
                        return array.array('I', raw), None
                    mm = mmap.mmap(-1, n)
                    mm[:] = raw
                    return mm, mm.close
                r, w, duplex = self.pair()
                # valid classes
                offs = sorted({0, 1, n // 2, n - 1, n} & set(range(0, n + 1)))
                for off in offs:
                    rest = n - off
                    for size in sorted({None, 0, 1, rest - 1, rest}, key=lambda x: -1 if x is None else x):
                        if size is not None and not (0 <= size <= rest):
                            continue
                        attrs = {'case': 'send_offset_valid', 'src': kind}
                        want = raw[off:] if size is None else raw[off:off + size]
                        if len(want) > 30000:
                            continue
                        src, cl = mk()
                        try:
                            if size is None:
                                w.send_bytes(src, off)
                            else:
                                w.send_bytes(src, off, size)
                        except Exception as exc:
                            self.v('send_raised', attrs, total=n, offset=off, size=size,
                                   exc=repr(exc), tb=tb_tail())
                            continue
                        finally:
                            del src
                            if cl:
                                try:
                                    cl()
                                except BufferError:
                                    pass
                        rec.count('send_offset_valid')
                        self.expect_next(r, want, attrs, 'send_bytes(buf, %r, %r) of %d' % (off, size, n))
                        rec.case()
                # invalid classes
                follow = self.payload(17)
                for (off, size, cls) in [(-1, None, 'offset_negative'), (n + 1, None, 'offset_beyond'),
                                         (0, -1, 'size_negative'), (0, n + 1, 'size_beyond'),
                                         (n, 1, 'size_beyond'), (n // 2 + 1, n - n // 2, 'sum_beyond'),
                                         (-2, 1, 'offset_negative'), (n + 4, 0, 'offset_beyond')]:
                    attrs = {'case': 'send_offset_invalid', 'src': kind, 'class': cls}
                    src, cl = mk()
                    try:
                        rec.count('send_offset_invalid')
                        if size is None:
                            self.rejected(lambda: w.send_bytes(src, off), attrs)
                        else:
                            self.rejected(lambda: w.send_bytes(src, off, size), attrs)
                    finally:
                        del src
                        if cl:
                            try:
                                cl()
                            except BufferError:
                                pass
                    rec.sig(['send_invalid', self.transport, kind, cls, len_class(n)])
                # nothing of the rejected calls may have reached the peer
                w.send_bytes(follow)
                self.expect_next(r, follow, {'case': 'send_offset_invalid', 'src': kind},
                                 'first message after rejected send_bytes calls')
                safe_close(r, w)

    # -- closed and wrong-direction handles -----------------------------------------
    def handle_state(self):
        from billiard.connection import Pipe
        rec = self.rec
        calls = [('send_bytes', lambda c: c.send_bytes(b'xyz')),
                 ('send', lambda c: c.send(('x', 1))),
                 ('recv_bytes', lambda c: c.recv_bytes()),
                 ('recv_bytes_max', lambda c: c.recv_bytes(10)),
                 ('recv_bytes_into', lambda c: c.recv_bytes_into(bytearray(64))),
                 ('recv', lambda c: c.recv()),
                 ('poll', lambda c: c.poll(0))]
        for rounds in range(6):
            for duplex in (False, True):
                # closed handle; a fresh pipe is then likely to reuse the fd number
                a, b = Pipe(duplex=duplex)
                old = (a.fileno(), b.fileno())
                safe_close(a, b)
                r2, w2 = os.pipe()
                if r2 in old or w2 in old:
                    rec.count('closed_fd_number_reused')
                canary = frame(self.payload(40))
                _os_write(w2, canary)
                for c in (a, b):
                    for name, fn in calls:
                        self.rejected(lambda: fn(c), {'case': 'closed_handle', 'call': name})
                        rec.count('closed_handle_calls')
                left = _os_read(r2, 4096)
                if left != canary:
                    self.v('closed_handle_consumed_foreign_data', {'case': 'closed_handle'},
                           left_len=len(left), want_len=len(canary))
                os.close(r2)
                os.close(w2)
            # wrong direction
            r, w = Pipe(duplex=False)
            msg = self.payload(60)
            w.send_bytes(msg)
            for name, fn in calls:
                if name.startswith('send'):
                    self.rejected(lambda: fn(r), {'case': 'wrong_direction', 'call': name})
                else:
                    self.rejected(lambda: fn(w), {'case': 'wrong_direction', 'call': name})
                rec.count('wrong_direction_calls')
            self.expect_next(r, msg, {'case': 'wrong_direction'},
                             'message queued before the rejected calls')
            safe_close(r, w)
        rec.sig(['handle_state', 'closed+wrong_direction'])

    # -- latent behaviours outside the statement: anomalies only ---------------------
    def probes(self):
        r, w, duplex = self.pair()
        try:
            _os_write(w.fileno(), struct.pack('!i', -5))
            try:
                got = r.recv_bytes()
                self.rec.anomaly('negative_length_header_delivered_as_message', got=repr(got))
            except Exception as exc:
                self.rec.count('negative_header_rejected')
        finally:
            safe_close(r, w)


def run_bounds(spec, rec):
    sh = install_shim(rec)
    rng = rng_for(spec['seed'], 'bounds')
    b = Bounds(rec, sh, rng, spec['transport'])
    for part in (b.maxlength, b.recv_into, b.recv_into_unaligned, b.send_offsets,
                 b.handle_state, b.probes):
        guard_arm()
        try:
            part()
            guard_off()
        except CaseTimeout:
            viol(rec, 'transfer_stalled', {'mode': 'bounds', 'part': part.__name__},
                 waited_s=CASE_GUARD_S, case_number_in_part=b.last)
        finally:
            guard_off()
        rec.flush()
    rec.sample({'mode': 'bounds', 'transport': spec['transport'], 'failed_checks': b.bad,
                'parts': ['maxlength', 'recv_bytes_into', 'recv_bytes_into(itemsize>1, unaligned)',
                          'send_bytes offsets', 'closed/wrong-direction handles']})


# --------------------------------------------------------------------------
# mode kfrag: fragmentation made by the kernel (forked peer)
# --------------------------------------------------------------------------

def _noop(signum, frame):
    pass


def _child_real_sender(sh, r, w, msgs, seed, outfile):
    res = {'counts': {}, 'error': None, 'sent': 0}
    try:
        safe_close(r)
        sh.plans.clear()
        plan = FdPlan(profile='none')
        sh.plans[w.fileno()] = plan
        signal.signal(signal.SIGALRM, _noop)
        signal.setitimer(signal.ITIMER_REAL, 0.001, 0.001)
        rng = rng_for(seed, 'src')
        try:
            for m in msgs:
                do_send(w, m, rng)
                res['sent'] += 1
        except BaseException as exc:
            res['error'] = {'exc': repr(exc), 'tb': tb_tail(), 'index': res['sent'],
                            'length': msgs[res['sent']].n, 'api': msgs[res['sent']].send_api}
        signal.setitimer(signal.ITIMER_REAL, 0, 0)
        safe_close(w)
        res['counts'] = plan.c
    except BaseException:
        res['harness'] = tb_tail()
    finally:
        try:
            with open(outfile, 'w') as f:
                json.dump(res, f)
        finally:
            os._exit(0)


def _child_dribbler(r, w, msgs, seed, outfile):
    res = {'counts': {'dribble_writes': 0, 'header_splits': 0}, 'error': None}
    try:
        safe_close(r)
        fd = w.fileno()
        rng = rng_for(seed, 'dribble')
        for m in msgs:
            data = m.data if m.obj is None else pickle.dumps(m.obj)
            fr = frame(data)
            pos = 0
            first = rng.choice([1, 2, 3, 4, 4, 5, len(fr)])
            sizes = [first]
            while pos < len(fr):
                k = sizes.pop() if sizes else rng.choice([1, 7, 100, 4096, 5000, 65536, 1 << 20])
                k = min(k, len(fr) - pos)
                mv = memoryview(fr)[pos:pos + k]
                while len(mv):
                    n = _os_write(fd, mv)
                    mv = mv[n:]
                res['counts']['dribble_writes'] += 1
                if pos == 0 and k < 4:
                    res['counts']['header_splits'] += 1
                    time.sleep(0.001)
                elif rng.random() < 0.05:
                    time.sleep(0.0003)
                pos += k
        safe_close(w)
    except BaseException:
        res['harness'] = tb_tail()
    finally:
        try:
            with open(outfile, 'w') as f:
                json.dump(res, f)
        finally:
            os._exit(0)


def kfrag_scenario(rec, sh, rng, spec, idx):
    transport = rng.choice(['pipe', 'sock'])
    variant = ('real_sender', 'dribble')[idx % 2]
    bufcls = rng.choice(['tiny', 'tiny', 'default'])
    big = spec.get('big', []) if idx == 0 else []
    if big:
        variant = 'real_sender'
    seed = spec['seed'] * 1000 + idx
    msgs = make_msgs(rng, spec['msgs'], idx * 10000, big=big)
    attrs = {'mode': 'kfrag', 'transport': transport, 'variant': variant}
    r, w, duplex = make_pair(transport, bufcls)
    outfile = os.path.join(os.environ.get('VERIF_WORKDIR', '/tmp'), 'kfrag-%d-%d.json' % (os.getpid(), idx))
    rec.flush()
    pid = os.fork()
    if pid == 0:
        if variant == 'real_sender':
            _child_real_sender(sh, r, w, msgs, seed, outfile)
        else:
            _child_dribbler(r, w, msgs, seed, outfile)
        os._exit(0)
    safe_close(w)
    plan = FdPlan(profile='none')
    sh.plans[r.fileno()] = plan
    stop = threading.Event()
    state = {'killed': False}

    def watchdog():
        last, t_last = -1, time.monotonic()
        while not stop.wait(0.5):
            cur, now = plan.c['r_calls'], time.monotonic()
            if cur != last:
                last, t_last = cur, now
            elif now - t_last > STALL_S:
                state['killed'] = True
                try:
                    os.kill(pid, signal.SIGKILL)
                except ProcessLookupError:
                    pass
                return
    wd = threading.Thread(target=watchdog, daemon=True)
    wd.start()
    slow = rng.choice([0, 0, 0.001, 0.003])
    t = Transfer(rec, None, r, msgs, attrs, seed, close_after=True, slow=slow)
    t.suppress = lambda: state['killed']
    try:
        t._recv_loop()
        if t.failed and not state['killed']:
            try:
                os.kill(pid, signal.SIGKILL)
            except ProcessLookupError:
                pass
        sh.plans.pop(r.fileno(), None)
        safe_close(r)
        _, status = os.waitpid(pid, 0)
    finally:
        stop.set()
        wd.join()
    child = None
    try:
        with open(outfile) as f:
            child = json.load(f)
        os.unlink(outfile)
    except (OSError, ValueError):
        pass
    if state['killed']:
        viol(rec, 'transfer_stalled', attrs, received=t.received, of=len(msgs),
             no_progress_for_s=STALL_S, receiver_then_saw=repr(t.suppressed)[:300])
        t.failed = True
    elif child is None and not t.failed:
        raise RuntimeError('kfrag child left no report (status %r)' % (status,))
    if child:
        if child.get('harness'):
            raise RuntimeError('kfrag child harness error: ' + child['harness'])
        if child.get('error') and not t.failed:
            e = child['error']
            viol(rec, 'send_raised', attrs, **e)
            t.failed = True
        c = child.get('counts', {})
        add_counts(rec, {k: v for k, v in c.items() if k in ('k_short_w', 'w_calls', 'zero_w',
                                                              'dribble_writes', 'header_splits')})
    else:
        c = {}
    add_counts(rec, {k: v for k, v in plan.c.items() if k in ('k_short_r', 'r_calls')})
    add_counts(rec, t.counts)
    rec.case()
    rec.count('scenarios_kfrag')
    ksw, ksr = c.get('k_short_w', 0), plan.c['k_short_r']
    if ksw + ksr:
        rec.sig(['kfrag', transport, bufcls, variant, bucket(ksw), bucket(ksr),
                 sorted({len_class(m.n) for m in msgs})])
    rec.sample({'mode': 'kfrag', 'transport': transport, 'buffers': bufcls, 'variant': variant,
                'messages': t.received, 'kernel_short_writes': ksw, 'kernel_short_reads': ksr,
                'sender_write_calls': c.get('w_calls'), 'lengths': [m.n for m in msgs][:30]})
    return not t.failed


def run_kfrag(spec, rec):
    sh = install_shim(rec)
    rng = rng_for(spec['seed'], 'kfrag')
    bad = 0
    for idx in range(spec['scenarios']):
        if not kfrag_scenario(rec, sh, rng, spec, idx):
            rec.note('kfrag spec stopped early after a failed scenario')
            break


# --------------------------------------------------------------------------
# mode poll: readiness under a 1 kHz signal storm
# --------------------------------------------------------------------------

POLL_OVERRUN_S = 20.0


def run_poll(spec, rec):
    from billiard import connection as bc
    rng = rng_for(spec['seed'], 'poll')
    nsig = [0]

    def handler(signum, frame):
        nsig[0] += 1
    signal.signal(signal.SIGALRM, handler)
    signal.setitimer(signal.ITIMER_REAL, 0.001, 0.001)
    tag = [0]

    def payload(n):
        tag[0] += 1
        return make_payload(rng, tag[0], n)

    def timed_poll(conn, t):
        s0 = nsig[0]
        t0 = time.monotonic()
        res = conn.poll() if t == 'default' else conn.poll(t)
        el = time.monotonic() - t0
        rec.count('poll_calls')
        rec.count('signals_during_poll', nsig[0] - s0)
        if nsig[0] - s0:
            rec.count('polls_interrupted_by_signal')
        return res, el, t0

    def check_time(attrs, t, el, res):
        tt = 0 if t in ('default', None) or t < 0 else t
        if t is not None and el > tt + POLL_OVERRUN_S:
            viol(rec, 'poll_overran', attrs, timeout=t, elapsed=el)
        if not res and tt > 0 and el < int(tt * 1000) / 1000.0 - 0.002:
            rec.anomaly('poll_returned_early', timeout=t, elapsed=el)

    try:
        for rnd in range(spec['rounds']):
            transport = rng.choice(['pipe', 'sock'])
            case = rng.choice(['empty', 'ready', 'delayed', 'closed', 'wait_multi'])
            attrs = {'mode': 'poll', 'case': case}
            r, w, duplex = make_pair(transport)
            out = None
            try:
                if case == 'empty':
                    t = rng.choice([0, 'default', -1, 0.001, 0.01, 0.05, 0.2, 0.0004])
                    res, el, _ = timed_poll(r, t)
                    out = bool(res)
                    if res:
                        ref = select.select([r.fileno()], [], [], 0)[0]
                        viol(rec, 'poll_true_without_data', attrs, timeout=t, transport=transport,
                             select_says_readable=bool(ref))
                    else:
                        rec.count('poll_false_empty')
                    check_time(attrs, t, el, res)
                elif case == 'ready':
                    msg = payload(rng.choice([0, 1, 100, 5000]))
                    w.send_bytes(msg)
                    t = rng.choice([0, 'default', 0.05, None, -1])
                    res, el, _ = timed_poll(r, t)
                    out = bool(res)
                    if not res:
                        viol(rec, 'poll_false_with_data', attrs, timeout=t, transport=transport,
                             length=len(msg))
                    else:
                        rec.count('poll_true_ready')
                    check_time(attrs, 0 if t is None else t, el, True)
                    got = r.recv_bytes()
                    if got != msg:
                        kind, d = diagnose(got, [msg], 0)
                        viol(rec, kind, attrs, **d)
                elif case == 'delayed':
                    msg = payload(rng.choice([0, 10, 3000]))
                    d = rng.choice([0.005, 0.02, 0.06])
                    T = rng.choice([5.0, None])
                    info = {}

                    def writer():
                        signal.pthread_sigmask(signal.SIG_BLOCK, [signal.SIGALRM])
                        time.sleep(d)
                        try:
                            w.send_bytes(msg)
                            info['tw'] = time.monotonic()
                        except Exception:
                            info['err'] = tb_tail()
                    th = threading.Thread(target=writer, daemon=True)
                    th.start()
                    res, el, t0 = timed_poll(r, T)
                    out = bool(res)
                    th.join(60)
                    if 'err' in info:
                        viol(rec, 'send_raised', attrs, tb=info['err'])
                    elif not res:
                        tw = info.get('tw')
                        if T is None or (tw is not None and tw < t0 + T - 0.1 and el >= T - 0.1):
                            viol(rec, 'poll_false_with_data', attrs, timeout=T, elapsed=el,
                                 data_written_after_s=None if tw is None else tw - t0)
                        else:
                            rec.anomaly('poll_false_before_data', timeout=T, elapsed=el)
                    else:
                        rec.count('poll_woken_by_data')
                        check_time(attrs, 5.0, el, True)
                        got = r.recv_bytes()
                        if got != msg:
                            kind, dd = diagnose(got, [msg], 0)
                            viol(rec, kind, attrs, **dd)
                elif case == 'closed':
                    npre = rng.choice([0, 1])
                    msg = payload(20)
                    if npre:
                        w.send_bytes(msg)
                    w.close()
                    res, el, _ = timed_poll(r, rng.choice([0, 0.05]))
                    out = bool(res)
                    rec.count('poll_at_eof_%s' % out)
                    if npre:
                        if not res:
                            viol(rec, 'poll_false_with_data', attrs, transport=transport,
                                 peer='closed')
                        got = r.recv_bytes()
                        if got != msg:
                            kind, dd = diagnose(got, [msg], 0)
                            viol(rec, kind, attrs, **dd)
                    try:
                        extra = r.recv_bytes()
                    except EOFError:
                        rec.count('clean_eof_seen')
                    except Exception as exc:
                        viol(rec, 'clean_eof_not_EOFError', attrs, exc=repr(exc))
                    else:
                        viol(rec, 'message_from_nowhere', attrs, length=len(extra))
                else:
                    pairs = [(r, w)] + [make_pair(rng.choice(['pipe', 'sock']))[:2]
                                        for _ in range(rng.randrange(2, 5))]
                    with_data = set()
                    for i, (rr, ww) in enumerate(pairs):
                        if rng.random() < 0.5:
                            ww.send_bytes(payload(rng.choice([0, 5, 900])))
                            with_data.add(i)
                    t = rng.choice([0, 0.01, 0.05]) if not with_data else rng.choice([0, 0.05, None])
                    t0 = time.monotonic()
                    ready = bc.wait([p[0] for p in pairs], t)
                    el = time.monotonic() - t0
                    rec.count('wait_calls')
                    got_idx = {i for i, p in enumerate(pairs) if any(p[0] is x for x in ready)}
                    out = (len(with_data), len(got_idx))
                    if with_data - got_idx:
                        viol(rec, 'wait_missed_ready', attrs, with_data=sorted(with_data),
                             reported=sorted(got_idx), timeout=t)
                    if got_idx - with_data:
                        viol(rec, 'wait_false_ready', attrs, with_data=sorted(with_data),
                             reported=sorted(got_idx), timeout=t)
                    if with_data:
                        rec.count('wait_ready_subset_exact')
                    check_time(attrs, 0 if t is None else t, el, bool(ready))
                    for p in pairs[1:]:
                        safe_close(*p)
                rec.sig(['poll', case, transport, repr(out)])
            except Exception as exc:
                viol(rec, 'poll_raised', attrs, exc=repr(exc), tb=tb_tail())
            finally:
                safe_close(r, w)
            rec.case()
    finally:
        signal.setitimer(signal.ITIMER_REAL, 0, 0)
    rec.count('signals_delivered', nsig[0])
    # latent (outside the statement, cannot happen on CPython >= 3.5): EINTR
    # surfacing from poll(2) after the deadline -> negative timeout
    try:
        orig = bc._poll
        calls = []

        def fake(fds, timeout):
            calls.append(timeout)
            if len(calls) == 1:
                time.sleep((timeout or 0) + 0.01)
                raise InterruptedError(errno.EINTR, 'injected')
            if timeout is not None and int(timeout * 1000) < 0:
                return []
            return orig(fds, timeout)
        r, w, _d = make_pair('pipe')
        bc._poll = fake
        try:
            bc.wait([r], 0.02)
        finally:
            bc._poll = orig
            safe_close(r, w)
        if len(calls) > 1 and calls[1] is not None and int(calls[1] * 1000) < 0:
            rec.anomaly('wait_would_block_forever_on_negative_timeout_after_EINTR',
                        second_timeout=calls[1])
    except AttributeError:
        pass
    rec.sample({'mode': 'poll', 'rounds': spec['rounds'], 'signals_delivered': nsig[0]})


# --------------------------------------------------------------------------

def run_spec(spec, rec):
    mode = spec['mode']
    try:
        # a modified tree that mis-reads a length header must fail with
        # MemoryError instead of filling the machine's memory
        import resource
        resource.setrlimit(resource.RLIMIT_AS, (2 << 30, 2 << 30))
    except (ImportError, ValueError, OSError):
        pass
    if mode == 'shim':
        run_shim(spec, rec)
    elif mode == 'eof':
        run_eof(spec, rec)
    elif mode == 'bounds':
        run_bounds(spec, rec)
    elif mode == 'kfrag':
        run_kfrag(spec, rec)
    elif mode == 'poll':
        run_poll(spec, rec)
    else:
        raise ValueError(mode)
    try:
        with open('/proc/self/status') as f:
            for ln in f:
                if ln.startswith('VmPeak:'):
                    rec.maxi('max:vm_peak_mb', int(ln.split()[1]) // 1024)
    except (OSError, ValueError):
        pass
