"""C17 - locks, semaphores, conditions and events: no lost wake-ups.

Lane L0 (real processes + threads).  The real billiard.synchronize objects are
driven by seeded scripts executed by actors (threads inside forked billiard
Processes, plus spawn children for the pickling path).  The three semaphores
of a Condition (and an Event's flag) are swapped for logging / delaying /
gating proxies (attribute lookup is per call, nothing in billiard is patched),
so that the timeout-versus-notify race is visited at every pair of positions.

Oracles
  * mutual exclusion: per-actor occupancy slots + an unprotected
    read-modify-write counter in anonymous shared memory;
  * condition: (a) under the condition's own lock, at the end of every
    notify/notify_all, every entitled sleeper must have acknowledged its
    wake-up (confirmed by a generous wall-clock bound before it is called a
    lost wake-up), (b) offline token conservation: every True return is
    matched to a notification inside its wait window (notify justifies one,
    notify_all any number), every False return needs an elapsed timeout,
    (c) quiescent internals: sleeping - woken == 0, wait semaphore == 0;
  * event: brute-force linearizability of short histories against a boolean
    register + sequential differential histories + flag in {0, 1}.
"""
import json
import mmap
import os
import select
import signal
import sys
import threading
import time
import traceback

from vmon.core import rng_for

PROPERTY = 'C17'
LEVEL = 'exploration'
TECHNIQUE = ('runtime monitoring: mutual-exclusion witnesses in shared memory, '
             'token-conservation model of Condition over logged wait/notify '
             'histories with delay/gate-injecting semaphore proxies, '
             'linearizability of Event histories against a boolean register')
RULE = ('a case is one round: a seeded script of wait(timeout)/notify/notify_all '
        '(or set/clear/is_set/wait, or acquire/release) steps executed by 2-8 actors '
        '(threads in 1-4 forked processes) on one long-lived object, with random '
        'delays or position gates injected at each semaphore operation; signature = '
        '(mode, layout, bucketed waiter/timeout/notification counts, race patterns seen) '
        'and, for racing rounds, the merged order of the logged semaphore operations of '
        'notifier and timing-out waiter; a round is non-trivial when at least one waiter '
        'was asleep when a notification ran (cond), two actors overlapped (event) or '
        'a holder was contended (mutex)')
ASSUMPTIONS = [
    'the C SemLock (CPython _multiprocessing, used because _billiard does not build) and the kernel semaphores are trusted; billiard.synchronize logic is what is checked',
    'interleavings are sampled (random delays 0-2 ms and position gates at each semaphore operation), not enumerated',
    'a lost wake-up is declared only when a sleeper that had not acknowledged by the time notify returned stays blocked for a further 5 s (plus confirm-alone re-run); an unbounded liveness claim is not decided',
    'BoundedSemaphore over-release is probed only at quiescent points (the C check sem_getvalue+sem_post is not atomic by design)',
]
FLOORS = {
    'quick': {
        'cond_rounds': 1000, 'wait_true': 1000, 'wait_timeout': 500,
        'notify': 500, 'notify_all': 1200, 'notify_checked_exact': 70,
        'notify_all_checked': 500, 'reconciled_timeout': 400,
        'timeout_before_token': 30, 'token_before_timeout': 50,
        'rezero_took_token': 50, 'race_orderings_distinct': 100,
        'gate_hit': 80, 'quiescent_checks': 1000,
        'event_histories': 200, 'event_ops': 800, 'event_wait_true': 120,
        'event_wait_false': 4, 'event_concurrent_histories': 40,
        'event_seq_ops': 1800,
        'mutex_sections': 7000, 'mutex_contended': 500, 'sem_full_occupancy': 1,
        'nonblocking_refused': 150, 'over_release_refused': 80,
        'rlock_reentries': 400, 'spawn_children': 2,
    },
    'thorough': {
        'cond_rounds': 6000, 'wait_true': 6000, 'wait_timeout': 3000,
        'notify': 3000, 'notify_all': 7000, 'notify_checked_exact': 400,
        'notify_all_checked': 3000, 'reconciled_timeout': 2400,
        'timeout_before_token': 180, 'token_before_timeout': 300,
        'rezero_took_token': 300, 'race_orderings_distinct': 400,
        'gate_hit': 500, 'quiescent_checks': 6000,
        'event_histories': 1500, 'event_ops': 5000,
        'event_wait_false': 60, 'event_concurrent_histories': 250,
        'event_seq_ops': 12000,
        'mutex_sections': 60000, 'mutex_contended': 4000,
        'sem_full_occupancy': 3, 'over_release_refused': 200,
        'spawn_children': 5,
    },
}
JOBS = 12
SPEC_TIMEOUT = 900
CONFIRM_ALONE = ('lost_wakeup', 'waiter_never_returned', 'lock_unavailable',
                 'round_stuck', 'event_wait_never_returned',
                 'wait_returned_false_before_timeout', 'acquire_false_before_timeout',
                 'event_wait_false_before_deadline')

BOUND = 60.0          # "eventually" for the harness' own lock acquisitions / drains
LATE_BOUND = 5.0      # a sleeper that should have been woken gets this long
EPS = 0.0005          # timeout lower-bound allowance (clock granularity)
MAX_VIOL_PER_SPEC = 2


def plan(tier, seed):
    q = tier == 'quick'
    specs = []
    n_rand, r_rand = (8, 130) if q else (24, 300)
    n_gate, r_gate = (4, 90) if q else (10, 250)
    n_ev, r_ev = (4, 70) if q else (10, 200)
    n_mx = 4 if q else 8
    for i in range(n_rand):
        specs.append({'mode': 'cond', 'gates': False, 'seed': seed * 1000 + i,
                      'rounds': r_rand, 'variant': i})
    for i in range(n_gate):
        specs.append({'mode': 'cond', 'gates': True, 'seed': seed * 1000 + 100 + i,
                      'rounds': r_gate, 'variant': i})
    for i in range(n_ev):
        specs.append({'mode': 'event', 'seed': seed * 1000 + 200 + i,
                      'rounds': r_ev, 'variant': i,
                      'seq_histories': 40 if q else 150})
    for i in range(n_mx):
        specs.append({'mode': 'mutex', 'seed': seed * 1000 + 300 + i, 'variant': i,
                      'iters': 250 if q else 1200})
    specs.append({'mode': 'spawn', 'seed': seed * 1000 + 400,
                  'children': 2, 'reps': 1 if q else 2})
    if not q:
        specs.append({'mode': 'spawn', 'seed': seed * 1000 + 401,
                      'children': 3, 'reps': 2})
    return specs


# --------------------------------------------------------------------------
# shared memory + per-actor cells
# --------------------------------------------------------------------------

STRIDE = 16
PH, GEN, TIMED, ACK, TOUT, NTRUE, NFALSE, DONE, POS, INWAIT = range(10)
G_ABORT, G_ROUND = 0, 1
NGLOBAL = 8


class Shm:
    def __init__(self, ncells):
        self.mm = mmap.mmap(-1, 8 * ncells)
        self.a = memoryview(self.mm).cast('q')


def base(aid):
    return NGLOBAL + aid * STRIDE


TL = threading.local()


class SemProxy:
    """stands in for one semaphore of a Condition / the flag of an Event:
    records, delays, gates, re-dispatches."""
    __slots__ = ('_real', '_nm')

    def __init__(self, real, nm):
        self._real = real
        self._nm = nm

    def acquire(self, block=True, timeout=None):
        a = getattr(TL, 'actor', None)
        if a is None:
            return self._real.acquire(block, timeout)
        op = self._nm + ('-' if block else '?')
        a.pre(op)
        r = self._real.acquire(block, timeout)
        a.post(op, r)
        return r

    def release(self):
        a = getattr(TL, 'actor', None)
        if a is None:
            return self._real.release()
        op = self._nm + '+'
        a.pre(op)
        self._real.release()
        a.post(op, None)

    def __getattr__(self, k):
        return getattr(self._real, k)


def install_cond_proxies(cond, rec=None):
    ok = True
    for attr, nm in (('_sleeping_count', 'sl'), ('_woken_count', 'wk'),
                     ('_wait_semaphore', 'ws')):
        real = getattr(cond, attr, None)
        if real is None or not hasattr(real, 'acquire'):
            ok = False
            if rec is not None:
                rec.missing('Condition.%s' % attr)
            continue
        setattr(cond, attr, SemProxy(real, nm))
    return ok


def sem_value(s):
    return s._semlock._get_value()


def cond_internals(cond):
    try:
        return (sem_value(cond._sleeping_count), sem_value(cond._woken_count),
                sem_value(cond._wait_semaphore))
    except Exception:
        return None


class Actor:
    def __init__(self, world, aid, p, rnd, t0):
        self.w = world
        self.aid = aid
        self.b = base(aid)
        self.a = world.shm.a
        self.rng = rng_for(p.get('seed', 0), 'actor', aid, rnd)
        self.dp = p.get('dp', 0.0)
        self.dmax = p.get('dmax', 0.0)
        self.gate = p.get('gate') or {}
        self.gate_used = False
        self.rnd = rnd
        self.t0 = t0
        self.log = []
        self.in_notify = False
        self.posted = False
        self.gen = 0

    def ev(self, *x):
        self.log.append((time.monotonic_ns(),) + x)

    def nap(self):
        d = self.rng.random() * self.dmax
        if d < 3e-5:
            time.sleep(0)
        else:
            time.sleep(d)

    def aborted(self):
        return self.a[G_ABORT] != 0

    # -- hooks called by the proxies ----------------------------------------
    def pre(self, op):
        a = self.a
        if self.in_notify:
            if op == 'ws?':
                code = 6 if self.posted else 1
            elif op == 'wk?':
                code = 2
            elif op == 'sl?':
                code = 3
            elif op == 'ws+':
                code = 4
            elif op == 'wk-':
                code = 5
            else:
                code = 0
            if code:
                a[self.b + POS] = code
                g = self.gate
                if g and not self.gate_used and g.get('hold_pos') == code:
                    self.gate_used = True
                    self.hold_for_timeout(g)
        elif op == 'wk+':
            g = self.gate
            if g and 'ack_pos' in g and a[self.b + TOUT] == self.gen:
                nb = base(g['nid']) + POS
                want = g['ack_pos']
                end = time.monotonic() + g.get('max', 0.03)
                hit = False
                while time.monotonic() < end:
                    if a[nb] >= want:
                        hit = True
                        break
                    time.sleep(0.00005)
                self.ev('G_ack', want, hit)
        if self.dp and self.rng.random() < self.dp:
            self.nap()
        if op == 'wk+' and not self.in_notify:
            a[self.b + ACK] = self.gen          # acknowledged (about to)
        if op == 'ws+':
            self.posted = True
        if op[-1] == '+':
            self.log.append((time.monotonic_ns(), op))

    def post(self, op, r):
        if op[-1] != '+':
            self.log.append((time.monotonic_ns(), op + ('T' if r else 'F')))
            if op == 'ws-' and not r:
                self.a[self.b + TOUT] = self.gen
        elif op == 'sl+' and self.a[self.b + INWAIT] == 1:
            self.a[self.b + INWAIT] = 2       # event waiter announced itself
        if self.dp and self.rng.random() < self.dp:
            self.nap()

    def hold_for_timeout(self, g):
        """notifier side of a gate: stay at this position until the target
        waiter's timeout has fired (its timed acquire returned False)"""
        a = self.a
        tb = base(g['tout_of'])
        end = time.monotonic() + g.get('max', 0.25)
        hit = False
        while time.monotonic() < end:
            gg = a[tb + GEN]
            if a[tb + PH] == 1 and gg > 0 and a[tb + TOUT] == gg:
                hit = True
                break
            if gg > 0 and (a[tb + PH] == 2 or a[tb + ACK] == gg):
                break               # it left / took a token: nothing to wait for
            time.sleep(0.00005)
        self.ev('G_hold', g.get('hold_pos'), hit)


def sleep_until(t):
    while True:
        d = t - time.monotonic()
        if d <= 0:
            return
        time.sleep(min(d, 0.05))


# --------------------------------------------------------------------------
# worlds: what the forked children execute
# --------------------------------------------------------------------------

class World:
    def __init__(self, nact, extra=0):
        self.nact = nact
        self.shm = Shm(NGLOBAL + nact * STRIDE + extra)
        self.xbase = NGLOBAL + nact * STRIDE

    def run_round(self, pidx, cmd):
        rnd = cmd['round']
        t0 = cmd['t0']
        actors = []
        threads = []
        for aid_s, p in cmd['actors'].items():
            aid = int(aid_s)
            ac = Actor(self, aid, p, rnd, t0)
            actors.append(ac)
            th = threading.Thread(target=self._body, args=(ac, p['steps']),
                                  daemon=True)
            threads.append(th)
        for th in threads:
            th.start()
        end = time.monotonic() + cmd.get('deadline', BOUND + 30)
        stuck = []
        for ac, th in zip(actors, threads):
            while th.is_alive():
                th.join(0.02)
                if time.monotonic() > end:
                    break
                if self.shm.a[G_ABORT] and time.monotonic() > t0 + 0.5:
                    th.join(0.3)
                    break
            if th.is_alive():
                stuck.append(ac.aid)
        return {'logs': {str(ac.aid): list(ac.log) for ac in actors},
                'stuck': stuck}

    def _body(self, ac, steps):
        TL.actor = ac
        a = self.shm.a
        try:
            for st in steps:
                sleep_until(ac.t0 + st.get('at', 0.0))
                if 'after' in st:
                    # event-driven start: once that actor's cell has the value
                    # (cond: PH == 1 inside wait(); event: INWAIT == 2 announced)
                    w_, cell_, val_ = st['after']
                    pb = base(w_) + cell_
                    end = time.monotonic() + 0.3
                    while a[pb] < val_ and time.monotonic() < end:
                        time.sleep(0.00005)
                    if st.get('lag', 0) > 0:
                        time.sleep(st['lag'])
                if ac.aborted():
                    break
                try:
                    self.step(ac, st)
                except HarnessStuck as exc:
                    ac.ev('STUCK', str(exc))
                    a[G_ABORT] = 1
                    break
        except BaseException as exc:       # harness bug inside a child
            ac.ev('CRASH', repr(exc), traceback.format_exc()[-1500:])
        finally:
            a[ac.b + DONE] = ac.rnd
            TL.actor = None


class HarnessStuck(Exception):
    pass


class CondWorld(World):
    def __init__(self, ctx, nact, lock_kind, rec=None):
        World.__init__(self, nact)
        if lock_kind == 'lock':
            self.cond = ctx.Condition(ctx.Lock())
        elif lock_kind == 'rlock_explicit':
            self.cond = ctx.Condition(ctx.RLock())
        else:
            self.cond = ctx.Condition()
        self.recursive = lock_kind != 'lock'
        self.proxied = install_cond_proxies(self.cond, rec)

    # ---- steps -------------------------------------------------------------
    def step(self, ac, st):
        k = st['k']
        if k == 'wait':
            self.do_wait(ac, st)
        elif k in ('notify', 'notify_all'):
            self.do_notify(ac, k, st)
        elif k == 'drain':
            self.do_drain(ac, st)

    def lock(self, ac, what):
        if not self.cond.acquire(True, BOUND):
            ac.ev('L_to', what)
            raise HarnessStuck('lock_unavailable:' + what)

    def do_wait(self, ac, st):
        c, a, b = self.cond, ac.a, ac.b
        timeout = st['timeout']
        depth = st.get('depth', 1) if self.recursive else 1
        self.lock(ac, 'wait')
        want = depth
        for _ in range(want - 1):
            if not c.acquire(False):      # the owner of an RLock re-enters at once
                ac.ev('W_bad', 'rlock_reentry_refused')
                depth -= 1
        ac.gen = a[b + GEN] + 1
        a[b + GEN] = ac.gen
        a[b + TIMED] = 0 if timeout is None else 1
        a[b + PH] = 1
        ac.ev('W_in', ac.gen, timeout, depth)
        t0 = time.monotonic()
        t0r = time.time()
        try:
            r = c.wait(timeout)
        except BaseException as exc:
            a[b + PH] = 2
            ac.ev('W_exc', ac.gen, repr(exc), traceback.format_exc()[-1200:])
            try:
                for _ in range(depth):
                    c.release()
            except Exception:
                pass
            return
        # the C semaphore's deadline is on the realtime clock: take the longer
        # of the two elapsed times so that a clock step is never a violation
        t1 = max(time.monotonic(), t0 + (time.time() - t0r))
        held = None
        try:
            sl = c._lock._semlock
            held = bool(sl._is_mine()) and (not self.recursive or sl._count() == depth)
        except Exception:
            pass
        a[b + PH] = 2
        if r is True:
            a[b + NTRUE] += 1
        else:
            a[b + NFALSE] += 1
        ac.ev('W_out', ac.gen, r if isinstance(r, bool) else repr(r), t1 - t0, held)
        try:
            for _ in range(depth):
                c.release()
        except Exception as exc:
            ac.ev('W_relexc', ac.gen, repr(exc))

    def sleepers(self, a):
        """actors inside wait(): [(aid, gen, timed, acknowledged)]"""
        out = []
        for aid in range(self.nact):
            bb = base(aid)
            if a[bb + PH] == 1:
                g = a[bb + GEN]
                out.append((aid, g, a[bb + TIMED], a[bb + ACK] == g))
        return out

    def do_notify(self, ac, kind, st):
        c, a, b = self.cond, ac.a, ac.b
        g = ac.gate
        if g and g.get('hold_pos') == 0 and not ac.gate_used:
            ac.gate_used = True
            ac.hold_for_timeout(g)
        self.lock(ac, kind)
        inwait = self.sleepers(a)
        A0 = [x for x in inwait if not x[3]]
        ac.ev('N_in', kind, len(A0), sum(1 for x in A0 if x[2]))
        ac.in_notify = True
        ac.posted = False
        err = None
        try:
            if kind == 'notify':
                c.notify()
            else:
                c.notify_all()
        except BaseException as exc:
            err = (repr(exc), traceback.format_exc()[-1200:])
        ac.in_notify = False
        a[b + POS] = 99
        A1 = set((x[0], x[1]) for x in self.sleepers(a) if not x[3])
        if err:
            ac.ev('N_exc', kind, err[0], err[1])
        unt0 = [(x[0], x[1]) for x in A0 if not x[2]]
        still = [x for x in unt0 if x in A1]
        suspect = None
        if kind == 'notify_all':
            checked = 'all' if unt0 else None
            if still:
                suspect = still
        else:
            # "the only waiter(s)": nobody with a timeout is anywhere inside
            # wait() (a timed-out waiter that has not left yet may absorb it)
            timed_inside = [x for x in inwait if x[2]]
            checked = None
            if unt0 and not timed_inside:
                checked = 'exact'
                if len(still) == len(unt0):
                    suspect = still
        ac.ev('N_out', kind, len(unt0) - len(still), checked, self.proxied)
        try:
            c.release()
        except Exception as exc:
            ac.ev('N_relexc', kind, repr(exc))
        if suspect and self.proxied:
            self.confirm_lost(ac, kind, suspect)

    def confirm_lost(self, ac, kind, suspect):
        """the sleepers did not acknowledge before notify returned: legal for
        some other implementation, so give them LATE_BOUND to return"""
        a = ac.a
        end = time.monotonic() + LATE_BOUND
        need_all = kind == 'notify_all'

        def returned(x):
            bb = base(x[0])
            return a[bb + GEN] != x[1] or a[bb + PH] == 2
        while time.monotonic() < end:
            got = [x for x in suspect if returned(x)]
            if (need_all and len(got) == len(suspect)) or (not need_all and got):
                ac.ev('N_late', kind, len(got))
                return
            time.sleep(0.002)
        lost = [x for x in suspect if not returned(x)]
        ac.ev('N_lost', kind, lost, len(suspect))
        a[G_ABORT] = 1

    def do_drain(self, ac, st):
        a = ac.a
        others = st['others']
        end = time.monotonic() + BOUND
        while True:
            if ac.aborted():
                return
            if all(a[base(o) + DONE] == ac.rnd for o in others):
                break
            if time.monotonic() > end:
                ac.ev('DRAIN_to', [(o, a[base(o) + PH], a[base(o) + GEN], a[base(o) + TIMED])
                                   for o in others if a[base(o) + DONE] != ac.rnd])
                a[G_ABORT] = 1
                return
            if any(a[base(o) + PH] == 1 and not a[base(o) + TIMED] for o in others):
                self.do_notify(ac, 'notify_all', {})
            time.sleep(0.0003)
        # quiescent: everybody finished its script
        self.lock(ac, 'quiesce')
        q = cond_internals(self.cond)
        ac.ev('Q', q)
        self.cond.release()


# --------------------------------------------------------------------------
# child process plumbing
# --------------------------------------------------------------------------

def child_main(world, pidx, cmd_r, res_w):
    try:
        signal.signal(signal.SIGTERM, signal.SIG_DFL)
        signal.signal(signal.SIGINT, signal.SIG_DFL)
    except Exception:
        pass
    buf = b''
    while True:
        while b'\n' not in buf:
            chunk = os.read(cmd_r, 65536)
            if not chunk:
                os._exit(0)
            buf += chunk
        line, buf = buf.split(b'\n', 1)
        cmd = json.loads(line)
        if cmd.get('op') == 'quit':
            os._exit(0)
        try:
            res = world.run_round(pidx, cmd)
        except BaseException as exc:
            res = {'logs': {}, 'stuck': [], 'crash': repr(exc) + traceback.format_exc()[-1500:]}
        data = json.dumps(res).encode() + b'\n'
        while data:
            n = os.write(res_w, data)
            data = data[n:]


class SessionDead(Exception):
    pass


class Session:
    """a group of forked billiard Processes sharing one world"""

    def __init__(self, ctx, world, layout):
        self.world = world
        self.layout = layout            # [[aid, ...] per child]
        self.kids = []
        for pidx, aids in enumerate(layout):
            cr, cw = os.pipe()
            rr, rw = os.pipe()
            p = ctx.Process(target=child_main, args=(world, pidx, cr, rw))
            p.daemon = True
            p.start()
            os.close(cr)
            os.close(rw)
            self.kids.append({'p': p, 'cw': cw, 'rr': rr, 'buf': b'', 'aids': aids})
        self.proc_of = {}
        for pidx, aids in enumerate(layout):
            for aid in aids:
                self.proc_of[aid] = pidx

    def round(self, rnd, actors, deadline=BOUND + 30, lead=0.002):
        """actors: {aid: params}; returns merged {aid: log}, stuck list"""
        t0 = time.monotonic() + lead
        per = {}
        a = self.world.shm.a          # quiescent here: start-of-round cell state
        for aid in range(self.world.nact):
            bb = base(aid)
            a[bb + PH] = 0
            a[bb + POS] = 0
            a[bb + INWAIT] = 0
        for aid, p in actors.items():
            per.setdefault(self.proc_of[aid], {})[str(aid)] = p
        for pidx, acts in per.items():
            cmd = {'op': 'round', 'round': rnd, 't0': t0, 'actors': acts,
                   'deadline': deadline}
            os.write(self.kids[pidx]['cw'], json.dumps(cmd).encode() + b'\n')
        logs, stuck = {}, []
        end = time.monotonic() + deadline + 8
        for pidx in per:
            k = self.kids[pidx]
            while b'\n' not in k['buf']:
                left = end - time.monotonic()
                if left <= 0:
                    raise SessionDead('child %d silent' % pidx)
                r, _, _ = select.select([k['rr']], [], [], min(left, 1.0))
                if r:
                    chunk = os.read(k['rr'], 1 << 20)
                    if not chunk:
                        raise SessionDead('child %d died' % pidx)
                    k['buf'] += chunk
            line, k['buf'] = k['buf'].split(b'\n', 1)
            res = json.loads(line)
            if res.get('crash'):
                raise RuntimeError('harness crashed in child: ' + res['crash'])
            logs.update(res['logs'])
            stuck.extend(res['stuck'])
        return t0, logs, stuck

    def close(self, kill=False):
        for k in self.kids:
            if not kill:
                try:
                    os.write(k['cw'], b'{"op":"quit"}\n')
                except OSError:
                    pass
        end = time.monotonic() + (0 if kill else 2.0)
        for k in self.kids:
            p = k['p']
            while p.is_alive() and time.monotonic() < end:
                time.sleep(0.005)
            if p.is_alive():
                try:
                    os.kill(p.pid, signal.SIGKILL)
                except OSError:
                    pass
            try:
                p.join(5)
            except Exception:
                pass
            for fd in (k['cw'], k['rr']):
                try:
                    os.close(fd)
                except OSError:
                    pass
        self.kids = []


LAYOUTS = [
    # (name, [[aids per child]])
    ('1p8t', [[0, 1, 2, 3, 4, 5, 6, 7]]),
    ('4p2t', [[0, 1], [2, 3], [4, 5], [6, 7]]),
    ('8p1t', [[0], [1], [2], [3], [4], [5], [6], [7]]),
    ('2p4t', [[0, 1, 2, 3], [4, 5, 6, 7]]),
    ('3p', [[0, 1, 2], [3, 4], [5, 6, 7]]),
]


# --------------------------------------------------------------------------
# condition: round generator + offline oracle
# --------------------------------------------------------------------------

def gen_cond_round(rng, nact, gates, spec_seed, rnd):
    """returns {aid: params}, meta"""
    closer = 0
    others = list(range(1, nact))
    rng.shuffle(others)
    nw = rng.choice([1, 1, 2, 2, 3, 3, 4, 5, 6])
    nw = min(nw, len(others) - 1)
    waiters = others[:nw]
    second = others[nw] if rng.random() < 0.35 else None
    dp = rng.choice([0.0, 0.0, 0.1, 0.25, 0.5])
    dmax = rng.choice([0.0001, 0.0004, 0.001, 0.002])
    T = rng.choice([0.002, 0.004, 0.006])
    # notification schedule
    nn = rng.choice([1, 1, 2, 2, 3, 4])
    ntimes = sorted(rng.uniform(0.0006, T) for _ in range(nn))
    nsteps = {closer: []}
    if second is not None:
        nsteps[second] = []
    for t in ntimes:
        who = closer if (second is None or rng.random() < 0.6) else second
        kind = 'notify' if rng.random() < 0.62 else 'notify_all'
        nsteps[who].append({'k': kind, 'at': t})
    actors = {}
    meta = {'nw': nw, 'nn': nn, 'second': second is not None, 'dp': dp,
            'gates': None}
    wplans = {}
    untimed_only = rng.random() < 0.3
    meta['untimed_only'] = untimed_only
    for w in waiters:
        steps = []
        at = rng.uniform(0.0, 0.0012)
        for _ in range(rng.choice([1, 1, 1, 2])):
            r = rng.random()
            if r < 0.42 or untimed_only:
                to = None
            elif r < 0.72:       # racing: deadline near one of the notifications
                tn = rng.choice(ntimes)
                to = max(0.00005, tn - at + rng.uniform(-0.0004, 0.0004))
            elif r < 0.86:
                to = rng.uniform(0.0001, 0.0015)
            elif r < 0.90:
                to = 0
            elif r < 0.93:
                to = -1.0
            else:
                to = 0.05
            steps.append({'k': 'wait', 'at': at, 'timeout': to,
                          'depth': rng.choice([1, 1, 2, 3])})
            at += rng.uniform(0.0005, 0.003)
        wplans[w] = steps
    gate_n, gate_w = None, None
    if gates:
        # one timed waiter races one designated notification at chosen positions
        w = waiters[0]
        to = rng.uniform(0.0008, 0.002)
        wplans[w] = [{'k': 'wait', 'at': 0.0, 'timeout': to,
                      'depth': rng.choice([1, 2])}]
        k = rng.choice([0, 1, 2, 3, 4, 5, 6])
        j = rng.choice([x for x in (1, 2, 3, 4, 5, 6, 99, 100) if x >= k])
        kind = 'notify' if rng.random() < 0.6 else 'notify_all'
        # the designated notification is the closer's first one, started just
        # before the deadline; it holds at position k until the timeout fired
        nsteps[closer] = [{'k': kind, 'at': 0.0, 'after': [w, PH, 1],
                           'lag': max(0.0, to - rng.choice([0.0004, 0.0008]))}] + \
            [s for s in nsteps[closer] if s['at'] > to + 0.0015]
        if second is not None:
            nsteps[second] = [s for s in nsteps[second] if s['at'] > to + 0.0015]
        gate_n = {'hold_pos': k, 'tout_of': w, 'max': 0.25 if k < 4 else 0.01}
        gate_w = {'ack_pos': j, 'nid': closer, 'max': 0.02}
        dp = rng.choice([0.0, 0.0, 0.1])
        meta['gates'] = (k, j, kind)
    horizon = T + 0.004
    for aid in [closer] + others:
        steps = []
        if aid in wplans:
            steps += wplans[aid]
        if aid in nsteps:
            steps += nsteps[aid]
        if not steps and aid != closer:
            continue
        steps.sort(key=lambda s: s['at'])
        p = {'seed': spec_seed, 'dp': dp, 'dmax': dmax, 'steps': steps}
        if gates and aid == closer:
            p['gate'] = gate_n
        if gates and aid == waiters[0]:
            p['gate'] = gate_w
        actors[aid] = p
    part = [a for a in actors if a != closer]
    actors[closer]['steps'].append({'k': 'drain', 'at': horizon, 'others': part})
    return actors, meta


def bucket(n):
    return 0 if n == 0 else (1 if n == 1 else (2 if n <= 3 else 3))


def judge_cond_round(rec, attrs, logs, stuck, meta, state):
    """offline oracle over the merged log of one round.  `state` carries
    nothing between rounds except counters (each round starts quiescent)."""
    evs = []
    for aid, log in logs.items():
        for e in log:
            evs.append((e[0], int(aid)) + tuple(e[1:]))
    evs.sort(key=lambda e: (e[0], e[1]))
    waits = {}
    notifs = []
    open_n = {}
    semops = []
    nviol = [0]

    def V(kind, extra_attrs=None, **detail):
        at = dict(attrs)
        if extra_attrs:
            at.update(extra_attrs)
        nviol[0] += 1
        rec.violation(kind, at, meta=meta, **detail)

    for e in evs:
        t, aid, k = e[0], e[1], e[2]
        if k == 'W_in':
            waits[(aid, e[3])] = {'aid': aid, 'gen': e[3], 't_in': t, 'timeout': e[4],
                                  'depth': e[5], 't_out': None, 'r': None}
        elif k == 'W_out':
            w = waits.get((aid, e[3]))
            if w is not None:
                w.update(t_out=t, r=e[4], elapsed=e[5], held=e[6])
        elif k == 'W_exc':
            w = waits.get((aid, e[3]))
            if w is not None:
                w.update(t_out=t, r='exc')
            V('condition_wait_raised', exc=e[4], tb=e[5])
        elif k == 'W_bad':
            V(e[3], note='Condition() default lock / ctx.RLock()')
        elif k == 'W_relexc':
            V('lock_not_restored_after_wait', what='release raised', exc=e[4])
        elif k == 'N_in':
            n = {'aid': aid, 'kind': e[3], 't_in': t, 't_out': None, 'nA0': e[4],
                 'ntimed': e[5], 'ops': []}
            notifs.append(n)
            open_n[aid] = n
        elif k == 'N_out':
            n = open_n.pop(aid, None)
            if n is not None:
                n.update(t_out=t, woke=e[4], checked=e[5])
            rec.count(e[3])
            if e[5] == 'exact':
                rec.count('notify_checked_exact')
            elif e[5] == 'all':
                rec.count('notify_all_checked')
        elif k == 'N_exc':
            V('notify_raised', {'op': e[3]}, exc=e[4], tb=e[5])
        elif k == 'N_relexc':
            V('lock_lost_during_notify', {'op': e[3]}, exc=e[4])
        elif k == 'N_late':
            rec.anomaly('wake_acknowledged_after_notify_returned', op=e[3], n=e[4])
        elif k == 'N_lost':
            V('lost_wakeup', {'op': e[3]}, still_blocked=e[4], entitled=e[5],
              note='sleeper(s) announced before the notifier took the lock were '
                   'not woken by it and stayed blocked for %.0f s' % LATE_BOUND)
        elif k == 'L_to':
            V('lock_unavailable', {'step': e[3]},
              note='condition lock not acquired within %.0f s' % BOUND)
        elif k == 'DRAIN_to':
            V('waiter_never_returned', pending=e[3])
        elif k == 'Q':
            rec.count('quiescent_checks')
            q = e[3]
            if q is None:
                rec.missing('Condition internals (_get_value)')
            elif q[0] - q[1] != 0 or q[2] != 0:
                V('condition_inconsistent_at_quiescence', sleeping=q[0], woken=q[1],
                  wait_semaphore=q[2])
        elif k == 'CRASH':
            raise RuntimeError('harness crash in actor %s: %s %s' % (aid, e[3], e[4]))
        elif k in ('G_hold', 'G_ack'):
            if e[4]:
                rec.count('gate_hit')
            else:
                rec.count('gate_timeout')
        elif k == 'STUCK':
            pass
        elif isinstance(k, str) and k[:2] in ('sl', 'wk', 'ws'):
            semops.append((t, aid, k))
            n = open_n.get(aid)
            if n is not None:
                n['ops'].append((t, k))
    if stuck:
        blocked = [(a, [w for w in waits.values() if w['aid'] == a and w['t_out'] is None])
                   for a in stuck]
        if not nviol[0]:
            V('round_stuck', stuck=[a for a, _ in blocked],
              waits=[[(w['gen'], w['timeout']) for w in ws] for _, ws in blocked])
    # ---- per-wait checks ---------------------------------------------------
    alls = sorted(n['t_in'] for n in notifs if n['kind'] == 'notify_all')
    singles = sorted(n['t_in'] for n in notifs if n['kind'] == 'notify')
    need_single = []
    import bisect
    for key, w in sorted(waits.items(), key=lambda kv: kv[1]['t_in']):
        r = w['r']
        if w['t_out'] is None:
            continue
        if r is True:
            rec.count('wait_true')
            i = bisect.bisect_right(alls, w['t_in'])
            if i < len(alls) and alls[i] < w['t_out']:
                continue
            need_single.append(w)
        elif r is False:
            rec.count('wait_timeout')
            to = w['timeout']
            if to is None:
                V('untimed_wait_returned_false', elapsed=w['elapsed'])
            elif to > 0 and w['elapsed'] < to - EPS:
                V('wait_returned_false_before_timeout', timeout=to, elapsed=w['elapsed'])
        elif r != 'exc':
            V('wait_returned_non_bool', value=r)
        if w.get('held') is False:
            V('lock_not_restored_after_wait', depth=w['depth'])
    # greedy interval/point matching for single notifies
    used = [False] * len(singles)
    for w in sorted(need_single, key=lambda w: w['t_out']):
        i = bisect.bisect_right(singles, w['t_in'])
        ok = False
        while i < len(singles) and singles[i] < w['t_out']:
            if not used[i]:
                used[i] = True
                ok = True
                break
            i += 1
        if not ok:
            inwin = [s for s in singles if w['t_in'] < s < w['t_out']]
            if inwin:
                V('notify_woke_more_than_one', timeout=w['timeout'],
                  notifies_in_window=len(inwin),
                  true_returns_needing_them=len([x for x in need_single
                                                 if any(x['t_in'] < s < x['t_out'] for s in inwin)]))
            else:
                V('wait_true_without_notification',
                  {'timed': w['timeout'] is not None},
                  timeout=w['timeout'], elapsed=w['elapsed'],
                  note='stray wake-up token: no notify/notify_all ran inside the wait window')
    # ---- lock exclusion: nobody else logs an under-lock event inside a notify
    under = [(e[0], e[1], e[2]) for e in evs if e[2] in ('W_in', 'W_out', 'N_in')]
    for n in notifs:
        if n['t_out'] is None:
            continue
        for (t, aid, k) in under:
            if aid != n['aid'] and n['t_in'] < t < n['t_out']:
                V('condition_lock_not_exclusive', inside=n['kind'], intruder=k)
                break
    # ---- race evidence -----------------------------------------------------
    pats = set()
    for n in notifs:
        if n['t_out'] is None:
            continue
        rec_ops = n['ops']
        for (t, k) in rec_ops:
            if k == 'wk?T':
                rec.count('reconciled_timeout')
        posts = [t for (t, k) in rec_ops if k == 'ws+']
        rez = [k for (t, k) in rec_ops if k in ('ws?T', 'ws?F') and posts and t > posts[0]]
        if 'ws?T' in rez:
            rec.count('rezero_took_token')
            pats.add('rezero')
        # timed waiters whose semaphore wait ended inside this notification
        for w in waits.values():
            if w['timeout'] is None or w['t_out'] is None:
                continue
            wops = [(t, k) for (t, a, k) in semops if a == w['aid'] and
                    w['t_in'] <= t <= w['t_out'] and k in ('ws-T', 'ws-F', 'wk+')]
            end = [x for x in wops if x[1] in ('ws-T', 'ws-F')]
            if not end:
                continue
            te, ke = end[0]
            ack = [x[0] for x in wops if x[1] == 'wk+']
            ta = ack[0] if ack else None
            if not (n['t_in'] <= te <= n['t_out'] or
                    (ta is not None and te < n['t_in'] <= ta)):
                continue
            if ke == 'ws-F':
                if posts and ta is not None and te < posts[0] < ta:
                    rec.count('timeout_before_token')
                    pats.add('to<tok')
                elif posts and te > posts[0]:
                    rec.count('timeout_after_token_posted')
                    pats.add('tok<to')
            else:
                if w['elapsed'] is not None and w['timeout'] > 0 and \
                        w['elapsed'] >= 0.6 * w['timeout']:
                    rec.count('token_before_timeout')
                    pats.add('tok-wins')
            merged = sorted([(t, 'n:' + k) for (t, k) in rec_ops] +
                            [(t, 'w:' + k) for (t, k) in wops if t <= n['t_out']])
            if ta is not None and ta > n['t_out']:
                merged.append((ta, 'w:wk+late'))
            seq = ' '.join(k for _t, k in merged)
            state['orderings'].add(n['kind'][6:] + '|' + seq)
            rec.sig('race:' + n['kind'][6:] + '|' + seq)
    asleep_at_notify = any(n['nA0'] for n in notifs)
    if asleep_at_notify:
        rec.sig(['cond', attrs.get('layout'), attrs.get('lock'), bucket(meta['nw']),
                 bucket(sum(1 for w in waits.values() if w['timeout'] is not None)),
                 bucket(len(singles)), bucket(len(alls)), meta['second'],
                 sorted(pats), meta['gates'][:2] if meta.get('gates') else None])
    return nviol[0]


def run_cond(spec, rec):
    import billiard
    ctx = billiard.get_context('fork')
    rng = rng_for(spec['seed'], 'cond')
    state = {'orderings': set()}
    rounds_left = spec['rounds']
    per_session = 45 if spec['tier'] == 'quick' else 70
    sno = 0
    viol = 0
    sampled = 0
    while rounds_left > 0 and viol < MAX_VIOL_PER_SPEC:
        lname, layout = LAYOUTS[(spec['variant'] + sno) % len(LAYOUTS)]
        lock_kind = ['rlock', 'lock', 'rlock_explicit'][(spec['variant'] // 2 + sno) % 3]
        sno += 1
        world = CondWorld(ctx, 8, lock_kind, rec)
        attrs = {'mode': 'gates' if spec['gates'] else 'random', 'lock': lock_kind,
                 'layout': lname}
        sess = Session(ctx, world, layout)
        rec.count('sessions')
        rec.count('actor_processes', len(layout))
        dead = False
        try:
            for r in range(min(per_session, rounds_left)):
                rnd = sno * 1000 + r + 1
                actors, meta = gen_cond_round(rng, 8, spec['gates'], spec['seed'], rnd)
                try:
                    t0, logs, stuck = sess.round(rnd, actors)
                except SessionDead as exc:
                    rec.violation('round_stuck', attrs, note=str(exc), meta=meta)
                    viol += 1
                    dead = True
                    break
                rounds_left -= 1
                rec.case()
                rec.count('cond_rounds')
                rec.maxi('max:round_ms', int((time.monotonic() - t0) * 1000))
                v = judge_cond_round(rec, attrs, logs, stuck, meta, state)
                if sampled < 2 and not v:
                    sampled += 1
                    rec.sample({'mode': attrs['mode'], 'layout': lname, 'lock': lock_kind,
                                'meta': meta,
                                'events': sorted(
                                    [[e[0] - int(t0 * 1e9), int(a)] + list(e[1:])
                                     for a, lg in logs.items() for e in lg
                                     if e[1] in ('W_in', 'W_out', 'N_in', 'N_out', 'Q')])[:40]})
                if v or stuck or world.shm.a[G_ABORT]:
                    viol += v
                    dead = True
                    if v:
                        rec.flush()
                    if any(x['kind'] in CONFIRM_ALONE for x in rec.violations):
                        viol = MAX_VIOL_PER_SPEC     # bounded-wait verdicts are slow: one is enough
                    break
        finally:
            sess.close(kill=dead)
        if dead and not viol:
            # aborted without a verdict: harness problem -> inconclusive
            raise RuntimeError('session aborted without a violation')
    rec.count('race_orderings_distinct', len(state['orderings']))


# --------------------------------------------------------------------------
# event
# --------------------------------------------------------------------------

class EventWorld(World):
    def __init__(self, ctx, nact, rec=None):
        World.__init__(self, nact)
        self.ev = ctx.Event()
        self.proxied = False
        try:
            self.proxied = install_cond_proxies(self.ev._cond, rec)
            self.ev._flag = SemProxy(self.ev._flag, 'fl')
        except AttributeError:
            if rec is not None:
                rec.missing('Event._cond/_flag')

    def step(self, ac, st):
        k = st['k']
        ev = self.ev
        if k == 'final':
            return self.do_final(ac, st)
        arg = st.get('timeout')
        t0r = time.time()
        t0 = time.monotonic_ns()
        try:
            if k == 'set':
                r = ev.set()
            elif k == 'clear':
                r = ev.clear()
            elif k == 'is_set':
                r = ev.is_set()
            else:
                ac.a[ac.b + INWAIT] = 1
                try:
                    r = ev.wait(arg)
                finally:
                    ac.a[ac.b + INWAIT] = 0
        except BaseException as exc:
            ac.ev('E_exc', k, repr(exc), traceback.format_exc()[-1200:])
            return
        t1 = time.monotonic_ns()
        ac.ev('E', k, arg, t0, t1, r if (r is None or isinstance(r, bool)) else repr(r),
              time.time() - t0r)
        ac.a[ac.b + POS] += 1             # progress: steps completed this round

    def do_final(self, ac, st):
        a = ac.a
        others = st['others']
        # let the scripted part play out: start only when every other actor
        # has finished or sits inside a wait()
        end = time.monotonic() + 2.0
        while time.monotonic() < end:
            if all(a[base(o) + DONE] == ac.rnd or a[base(o) + INWAIT] for o in others):
                break
            time.sleep(0.0002)
        end = time.monotonic() + BOUND
        pause = 0.001
        while True:
            if all(a[base(o) + DONE] == ac.rnd for o in others):
                break
            self.step(ac, {'k': 'set'})
            if time.monotonic() > end:
                ac.ev('FINAL_to', [o for o in others if a[base(o) + DONE] != ac.rnd])
                a[G_ABORT] = 1
                return
            time.sleep(pause)
            pause = min(pause * 2, 0.02)
        # everybody else has finished: this set() is the last write
        self.step(ac, {'k': 'set'})
        self.step(ac, {'k': 'is_set'})
        try:
            q = cond_internals(self.ev._cond)
            fl = sem_value(self.ev._flag)
        except Exception:
            q, fl = None, None
        ac.ev('EQ', q, fl)


def gen_event_round(rng, nact, spec_seed):
    n_act = rng.choice([1, 2, 2, 3, 3, 4])
    aids = list(range(1, nact))
    rng.shuffle(aids)
    aids = aids[:n_act]
    nops = rng.randint(2, 8)
    T = rng.choice([0.001, 0.002, 0.004])
    dp = rng.choice([0.0, 0.0, 0.15, 0.4])
    dmax = rng.choice([0.0002, 0.0008, 0.002])
    shape = rng.choice(['mixed', 'mixed', 'no_clear', 'burst', 'set_clear', 'set_clear', 'readers'])
    plans = {a: [] for a in aids}
    tburst = rng.uniform(0.0003, T)
    if shape == 'set_clear' and n_act >= 2:
        # sleepers, then set() directly followed by clear() (same or other actor)
        setter = aids[0]
        dp, dmax = 0.5, rng.choice([0.0008, 0.002])   # widen every window
        plans[setter].append({'k': 'clear', 'at': 0.0})
        for a in aids[1:]:
            r2 = rng.random()
            plans[a].append({'k': 'wait', 'at': rng.uniform(0.0, 0.0004),
                             'after': [setter, POS, 1],
                             'timeout': None if r2 < 0.4 else rng.choice([0.02, 0.05])})
        ts = rng.uniform(0.0008, 0.002)
        aft = [aids[-1], INWAIT, 2]
        plans[setter].append({'k': 'set', 'at': ts, 'after': aft})
        clr = setter if (n_act < 3 or rng.random() < 0.6) else aids[1]
        if clr == setter:
            plans[clr].append({'k': 'clear', 'at': ts + rng.choice([0.0, 0.0001, 0.0005])})
        else:
            plans[clr] = [{'k': 'clear', 'at': ts, 'after': aft,
                           'lag': rng.uniform(0.0, 0.0003)}]
        if rng.random() < 0.5:
            plans[setter].append({'k': 'is_set', 'at': ts + 0.001})
        nops = 0
    if shape == 'readers' and n_act >= 2:
        # the event is set (every history ends with set()): concurrent readers
        # must all see it
        for a in aids:
            at = tburst
            for _ in range(rng.randint(1, 3)):
                if rng.random() < 0.5:
                    plans[a].append({'k': 'is_set', 'at': at})
                else:
                    plans[a].append({'k': 'wait', 'at': at,
                                     'timeout': rng.choice([0, 0, 0.0005, 0.002])})
                at += rng.uniform(0.0, 0.0003)
        nops = 0
    for _ in range(nops):
        a = rng.choice(aids)
        r = rng.random()
        if r < 0.25:
            k = 'set'
        elif r < 0.45:
            k = 'clear' if shape != 'no_clear' else 'is_set'
        elif r < 0.62:
            k = 'is_set'
        else:
            k = 'wait'
        st = {'k': k, 'at': tburst + rng.uniform(-0.0002, 0.0002) if shape == 'burst'
              else rng.uniform(0.0, T)}
        if k == 'wait':
            r2 = rng.random()
            st['timeout'] = (None if r2 < 0.3 else 0 if r2 < 0.4 else
                             rng.uniform(0.0002, 0.003) if r2 < 0.85 else 0.05)
        plans[a].append(st)
    actors = {}
    for a in aids:
        if plans[a]:
            plans[a].sort(key=lambda s: s['at'])
            actors[a] = {'seed': spec_seed, 'dp': dp, 'dmax': dmax, 'steps': plans[a]}
    actors[0] = {'seed': spec_seed, 'dp': dp, 'dmax': dmax,
                 'steps': [{'k': 'final', 'at': T + 0.0025,
                            'others': [a for a in actors]}]}
    return actors, {'actors': n_act, 'nops': nops, 'shape': shape, 'dp': dp}


def linearizable(ops, init):
    """ops: list of dicts(k, lo, hi, r) -> bool; Wing&Gong search against a
    boolean register.  lo/hi bound the linearization point."""
    n = len(ops)
    order = sorted(range(n), key=lambda i: ops[i]['lo'])
    seen = set()

    def rec_(done, flag):
        if len(done) == n:
            return True
        key = (done, flag)
        if key in seen:
            return False
        seen.add(key)
        rest = [i for i in order if i not in done]
        minhi = min(ops[i]['hi'] for i in rest)
        for i in rest:
            o = ops[i]
            if o['lo'] > minhi:
                break
            k = o['k']
            if k == 'set':
                nf = True
            elif k == 'clear':
                nf = False
            else:                       # is_set / wait: a read
                if o['r'] != flag:
                    continue
                nf = flag
            if rec_(done | frozenset([i]), nf):
                return True
        return False
    return rec_(frozenset(), init)


def judge_event_round(rec, attrs, logs, stuck, meta, init):
    ops = []
    semops = {}
    nviol = [0]

    def V(kind, extra=None, **detail):
        at = dict(attrs)
        if extra:
            at.update(extra)
        if kind != 'event_wait_false_despite_set':
            nviol[0] += 1          # (that one is a defect of the pinned tree: keep going)
        else:
            seen_race[0] += 1
        rec.violation(kind, at, meta=meta, **detail)

    seen_race = [0]
    for aid, log in logs.items():
        for e in log:
            k = e[1]
            if k == 'E':
                ops.append({'aid': int(aid), 'k': e[2], 'arg': e[3], 'inv': e[4],
                            'ret': e[5], 'r': e[6], 'rel': e[7] if len(e) > 7 else 0.0})
            elif k == 'E_exc':
                V('event_op_raised', {'op': e[2]}, exc=e[3], tb=e[4])
            elif k == 'FINAL_to':
                V('event_wait_never_returned', pending=e[2],
                  note='repeated set() for %.0f s did not release the waiter(s)' % BOUND)
            elif k == 'EQ':
                rec.count('quiescent_checks')
                q, fl = e[2], e[3]
                if fl is not None and fl not in (0, 1):
                    V('event_flag_out_of_range', flag=fl)
                if q is not None and (q[0] - q[1] != 0 or q[2] != 0):
                    V('condition_inconsistent_at_quiescence', {'via': 'event'},
                      sleeping=q[0], woken=q[1], wait_semaphore=q[2])
            elif k == 'CRASH':
                raise RuntimeError('harness crash in actor %s: %s %s' % (aid, e[2], e[3]))
            elif k in ('G_hold', 'G_ack', 'STUCK'):
                pass
            elif isinstance(k, str) and k[:2] in ('sl', 'wk', 'ws', 'fl'):
                semops.setdefault(int(aid), []).append((e[0], k))
    if stuck and not nviol[0]:
        V('event_wait_never_returned', stuck=stuck)
    ops.sort(key=lambda o: o['inv'])
    rec.count('event_ops', len(ops))
    sets = [o for o in ops if o['k'] == 'set']
    clears = [o for o in ops if o['k'] == 'clear']
    lin = []
    overlap = False
    for i, o in enumerate(ops):
        if any(p['aid'] != o['aid'] and p['inv'] < o['ret'] and o['inv'] < p['ret']
               for p in ops[:i]):
            overlap = True
    for o in ops:
        k, r = o['k'], o['r']
        if k in ('set', 'clear'):
            if r is not None:
                V('event_op_bad_return', {'op': k}, value=r)
            lin.append({'k': k, 'lo': o['inv'], 'hi': o['ret'], 'r': None})
        elif k == 'is_set':
            if not isinstance(r, bool):
                V('event_op_bad_return', {'op': k}, value=r)
                continue
            lin.append({'k': k, 'lo': o['inv'], 'hi': o['ret'], 'r': r})
        else:
            to = o['arg']
            if not isinstance(r, bool):
                V('event_op_bad_return', {'op': k}, value=r)
                continue
            if r:
                rec.count('event_wait_true')
                lin.append({'k': k, 'lo': o['inv'], 'hi': o['ret'], 'r': True})
                continue
            rec.count('event_wait_false')
            elapsed = max((o['ret'] - o['inv']) / 1e9, o['rel'])
            dl = None if to is None else o['inv'] + int(max(to, 0) * 1e9)
            dlx = o['ret'] if dl is None else min(o['ret'], dl - int(EPS * 1e9))
            # the waiter was asleep in the condition (announced) when a set()
            # was invoked, and that set() returned before the deadline
            ann = [t for (t, k) in semops.get(o['aid'], ())
                   if k == 'sl+' and o['inv'] <= t <= o['ret']]
            asleep_set = [s for s in sets if ann and s['inv'] > ann[0] and s['ret'] <= dlx]
            early = to is None or elapsed < max(to, 0) - EPS
            if early or asleep_set:
                sets_in = [s for s in sets if s['ret'] >= o['inv'] and s['inv'] <= o['ret']]
                clears_in = [c for c in clears if c['ret'] >= o['inv'] and c['inv'] <= o['ret']]
                if sets_in and clears_in:
                    s0 = (asleep_set or sets_in)[0]
                    c0 = ([c for c in clears_in if c['ret'] >= s0['inv']] or clears_in)[0]
                    V('event_wait_false_despite_set', {'raced_with': 'clear'},
                      timeout=to, elapsed=elapsed, waiter_was_asleep=bool(asleep_set),
                      set_invoked_after_wait_start_s=(s0['inv'] - o['inv']) / 1e9,
                      clear_invoked_after_set_returned_s=(c0['inv'] - s0['ret']) / 1e9,
                      note='set() ran while the waiter was blocked and before its deadline; '
                           'wait() returned False before the deadline because a clear() '
                           'that followed won the lock before the woken waiter re-read '
                           'the flag')
                elif early:
                    V('event_wait_false_before_deadline', {'timed': to is not None},
                      timeout=to, elapsed=elapsed)
                else:
                    V('event_wait_missed_set', timeout=to, elapsed=elapsed)
                continue
            lin.append({'k': k, 'lo': min(max(o['inv'], dl), o['ret']), 'hi': o['ret'],
                        'r': False})
    if len(lin) <= 24 and not nviol[0]:
        if not linearizable(lin, init):
            V('event_history_not_linearizable', init=init,
              history=[(o['aid'], o['k'], o['arg'], o['r'],
                        (o['inv'] - ops[0]['inv']) // 1000, (o['ret'] - ops[0]['inv']) // 1000)
                       for o in ops])
    rec.count('event_histories')
    if overlap:
        rec.count('event_concurrent_histories')
        kinds = sorted(set(o['k'] for o in ops))
        rec.sig(['event', attrs.get('layout'), meta['actors'], bucket(len(ops)), kinds,
                 sorted(set((o['k'], o['r']) for o in ops if o['k'] in ('wait', 'is_set'))),
                 meta['shape']])
    return nviol[0]


def event_sequential(rec, ctx, rng, n_hist):
    """single-actor differential histories against a boolean"""
    attrs = {'mode': 'sequential'}
    for h in range(n_hist):
        ev = ctx.Event()
        flag = False
        hist = []
        for i in range(rng.randint(10, 60)):
            r = rng.random()
            try:
                if r < 0.3:
                    got, want, op = ev.set(), None, 'set'
                    flag = True
                elif r < 0.55:
                    got, want, op = ev.clear(), None, 'clear'
                    flag = False
                elif r < 0.8:
                    got, want, op = ev.is_set(), flag, 'is_set'
                else:
                    to = rng.choice([0, 0.0002, 0.001, -1])
                    t0, t0r = time.monotonic(), time.time()
                    got, want, op = ev.wait(to), flag, 'wait'
                    el = max(time.monotonic() - t0, time.time() - t0r)
                    if not flag and to > 0 and el < to - EPS:
                        rec.violation('event_wait_false_before_deadline',
                                      dict(attrs, timed=True), timeout=to, elapsed=el,
                                      history=hist[-12:])
            except Exception as exc:
                rec.violation('event_op_raised', dict(attrs, op='?'), exc=repr(exc),
                              tb=traceback.format_exc()[-1200:], history=hist[-12:])
                break
            hist.append(op)
            rec.count('event_seq_ops')
            if got is not want and got != want or (want is not None and not isinstance(got, bool)):
                rec.violation('event_differs_from_register', dict(attrs, op=op),
                              got=got, want=want, history=hist[-12:])
                break
            try:
                fl = sem_value(ev._flag)
                if fl not in (0, 1):
                    rec.violation('event_flag_out_of_range', attrs, flag=fl,
                                  history=hist[-12:])
                    break
            except Exception:
                pass
        rec.case()


def run_event(spec, rec):
    import billiard
    ctx = billiard.get_context('fork')
    rng = rng_for(spec['seed'], 'event')
    event_sequential(rec, ctx, rng, spec['seq_histories'])
    rounds_left = spec['rounds']
    per_session = 40
    sno = 0
    viol = 0
    sampled = 0
    while rounds_left > 0 and viol < MAX_VIOL_PER_SPEC:
        lname, layout = [('1p5t', [[0, 1, 2, 3, 4]]),
                         ('5p1t', [[0], [1], [2], [3], [4]]),
                         ('3p', [[0, 1], [2, 3], [4]])][(spec['variant'] + sno) % 3]
        sno += 1
        world = EventWorld(ctx, 5, rec)
        attrs = {'mode': 'concurrent', 'layout': lname}
        sess = Session(ctx, world, layout)
        rec.count('sessions')
        init = False
        dead = False
        try:
            for r in range(min(per_session, rounds_left)):
                rnd = sno * 1000 + r + 1
                actors, meta = gen_event_round(rng, 5, spec['seed'])
                try:
                    t0, logs, stuck = sess.round(rnd, actors)
                except SessionDead as exc:
                    rec.violation('event_wait_never_returned', attrs, note=str(exc), meta=meta)
                    viol += 1
                    dead = True
                    break
                rounds_left -= 1
                rec.case()
                rec.maxi('max:event_round_ms', int((time.monotonic() - t0) * 1000))
                v = judge_event_round(rec, attrs, logs, stuck, meta, init)
                init = True        # every history ends with set()
                if sampled < 2 and not v and len(actors) > 2:
                    sampled += 1
                    rec.sample({'mode': 'event', 'layout': lname, 'meta': meta,
                                'ops': sorted([[e[4] - int(t0 * 1e9), e[5] - int(t0 * 1e9),
                                                int(a), e[2], e[3], e[6]]
                                               for a, lg in logs.items() for e in lg
                                               if e[1] == 'E'])[:20]})
                viol += v
                if stuck or world.shm.a[G_ABORT]:
                    dead = True
                    break
        finally:
            sess.close(kill=dead)
        if dead and not viol:
            raise RuntimeError('event session aborted without a violation')


# --------------------------------------------------------------------------
# mutual exclusion
# --------------------------------------------------------------------------

class MutexWorld(World):
    """slots: xbase+aid = enter/exit counter of the actor (odd while inside);
    xbase+40 = unprotected read-modify-write counter"""

    def __init__(self, ctx, nact, kind, n):
        World.__init__(self, nact, extra=64)
        self.kind, self.n = kind, n
        if kind == 'Lock':
            self.obj = ctx.Lock()
        elif kind == 'RLock':
            self.obj = ctx.RLock()
        elif kind == 'Semaphore':
            self.obj = ctx.Semaphore(n)
        else:
            self.obj = ctx.BoundedSemaphore(n)

    def step(self, ac, st):
        a, obj, n = ac.a, self.obj, self.n
        xb = self.xbase
        me = xb + ac.aid
        rng = ac.rng
        nact = self.nact
        sections = refused = contended = maxocc = over = reent = tofalse = snaps = 0
        early = []
        rlock = self.kind == 'RLock'
        for it in range(st['iters']):
            if ac.aborted():
                break
            style = rng.random()
            got = False
            if style < 0.5:
                if not obj.acquire(True, BOUND):
                    ac.ev('L_to', 'mutex')
                    raise HarnessStuck('lock_unavailable')
                got = True
            elif style < 0.75:
                if obj.acquire(False):
                    got = True
                else:
                    refused += 1
                    time.sleep(0)
            elif style < 0.9:
                to = rng.choice([0.0002, 0.001])
                t0, t0r = time.monotonic(), time.time()
                if obj.acquire(True, to):
                    got = True
                else:
                    el = max(time.monotonic() - t0, time.time() - t0r)
                    tofalse += 1
                    if el < to - EPS:
                        early.append((to, el))
            else:
                obj.__enter__()
                got = True
            if not got:
                continue
            depth = 1
            if rlock and rng.random() < 0.5:
                # the owner re-enters without blocking
                for _ in range(rng.choice([1, 2])):
                    if not obj.acquire(False):
                        ac.ev('M_bad', 'rlock_reentry_refused')
                    else:
                        depth += 1
                        reent += 1
            a[me] += 1                   # odd: inside (only the owner writes its slot)
            # atomic snapshot by double collect: two identical reads of the
            # per-actor enter/exit counters bracket an instant at which all
            # of them held together (a single pass could count a holder that
            # left and another that entered while the reader was descheduled)
            occ = 0
            for _try in range(4):
                s1 = [a[xb + j] for j in range(nact)]
                s2 = [a[xb + j] for j in range(nact)]
                if s1 == s2:
                    occ = sum(v & 1 for v in s1)
                    snaps += 1
                    break
            if occ > maxocc:
                maxocc = occ
            if occ > n:
                over += 1
                if over <= 3:
                    ac.ev('M_over', occ, n)
            if occ > 1:
                contended += 1
            if n == 1:
                v = a[xb + 40]
                if rng.random() < 0.3:
                    time.sleep(0)
                a[xb + 40] = v + 1
            elif rng.random() < 0.5:
                time.sleep(rng.random() * 0.0003)
            sections += 1
            a[me] += 1                   # even: outside
            try:
                if style >= 0.9 and depth == 1:
                    obj.__exit__(None, None, None)
                else:
                    for _ in range(depth):
                        obj.release()
            except Exception as exc:
                ac.ev('M_relexc', repr(exc))
        ac.ev('M', sections, refused, contended, maxocc, over, reent, tofalse, early[:3], snaps)


def mutex_probes(rec, ctx, rng):
    """sequential semantics at quiescent points"""
    A = {'mode': 'probe'}

    def expect_raises(kind, fn, exc_types, **d):
        try:
            fn()
        except exc_types:
            rec.count('over_release_refused')
            return True
        except Exception as exc:
            rec.violation('unexpected_exception', dict(A, probe=kind), exc=repr(exc), **d)
            return False
        rec.violation(kind, A, **d)
        return False

    for n in (1, 2, 3, 5):
        bs = ctx.BoundedSemaphore(n)
        expect_raises('bounded_semaphore_over_release_accepted', bs.release, (ValueError,),
                      n=n, when='fresh')
        k = rng.randint(1, n)
        for _ in range(k):
            if not bs.acquire(False):
                rec.violation('semaphore_refused_within_count', A, n=n)
        if k == n and bs.acquire(False):
            rec.violation('semaphore_admitted_beyond_count', A, n=n)
            bs.release()
        for _ in range(k):
            bs.release()
        expect_raises('bounded_semaphore_over_release_accepted', bs.release, (ValueError,),
                      n=n, when='after %d acquire/release' % k)
        if bs.get_value() != n:
            rec.violation('semaphore_value_wrong', A, n=n, value=bs.get_value())
        s = ctx.Semaphore(n)
        for _ in range(n):
            if not s.acquire(False):
                rec.violation('semaphore_refused_within_count', A, n=n, bounded=False)
        if s.acquire(False):
            rec.violation('semaphore_admitted_beyond_count', A, n=n, bounded=False)
        t0, t0r = time.monotonic(), time.time()
        if s.acquire(True, 0.002):
            rec.violation('semaphore_admitted_beyond_count', A, n=n, bounded=False, timed=True)
        elif max(time.monotonic() - t0, time.time() - t0r) < 0.002 - EPS:
            rec.violation('acquire_false_before_timeout', A, kind='Semaphore')
        for _ in range(n + 2):
            s.release()                    # unbounded: allowed
        if s.get_value() != n + 2:
            rec.violation('semaphore_value_wrong', A, n=n, value=s.get_value(), bounded=False)
    lk = ctx.Lock()
    expect_raises('lock_over_release_accepted', lk.release, (ValueError,), when='fresh')
    if not lk.acquire(False) or lk.acquire(False):
        rec.violation('lock_admitted_second_holder', A, how='same thread, non-blocking')
    # a Lock may be released by another thread
    th = threading.Thread(target=lk.release)
    th.start()
    th.join()
    if not lk.acquire(True, 1.0):
        rec.violation('lock_not_released_by_other_thread', A)
    lk.release()
    expect_raises('lock_over_release_accepted', lk.release, (ValueError,), when='after use')
    rl = ctx.RLock()
    expect_raises('rlock_release_by_non_owner_accepted', rl.release,
                  (AssertionError, ValueError, RuntimeError), when='fresh')
    for _ in range(3):
        if not rl.acquire(False):
            rec.violation('rlock_reentry_refused', A)
    res = []
    th = threading.Thread(target=lambda: res.append(rl.acquire(False)))
    th.start()
    th.join()
    if res != [False]:
        rec.violation('lock_admitted_second_holder', A, how='rlock held 3 deep, other thread',
                      got=res)
    for _ in range(3):
        rl.release()
    expect_raises('rlock_release_by_non_owner_accepted', rl.release,
                  (AssertionError, ValueError, RuntimeError), when='after 3 releases')
    res = []
    th = threading.Thread(target=lambda: res.append(rl.acquire(False)))
    th.start()
    th.join()
    if res != [True]:
        rec.violation('rlock_not_free_after_matching_releases', A, got=res)
    rec.case()


def fork_while_held(rec, ctx, rng):
    """a process forked while the parent holds the object does not hold it"""
    from vmon import c17_helpers as H2
    A = {'mode': 'fork_while_held'}

    def get(conn, what, timeout=40):
        if not conn.poll(timeout):
            return ('silent', None)
        try:
            return conn.recv()
        except EOFError:
            return ('eof', None)

    makers = [('Lock', ctx.Lock), ('RLock', ctx.RLock), ('Condition', ctx.Condition),
              ('Condition(Lock)', lambda: ctx.Condition(ctx.Lock())),
              ('Semaphore(1)', lambda: ctx.Semaphore(1))]
    rng.shuffle(makers)
    for kind, mk in makers[:3]:
        obj = mk()
        r, w = ctx.Pipe(False)
        depth = rng.choice([1, 2]) if kind in ('RLock', 'Condition') else 1
        for _ in range(depth):
            obj.acquire()
        p = ctx.Process(target=H2.held_child, args=(obj, w))
        p.daemon = True
        p.start()
        w.close()
        a = dict(A, kind=kind)
        m = get(r, 'try')
        rec.count('fork_while_held_probes')
        if m[0] == 'raised':
            rec.violation('unexpected_exception', dict(a, probe='child try'), tb=m[1])
        elif m != ('try', False):
            rec.violation('lock_admitted_second_holder', dict(a, how='forked while the parent holds it'),
                          got=m)
        for _ in range(depth):
            obj.release()
        m = get(r, 'blocking')
        if m[0] == 'raised':
            rec.violation('unexpected_exception', dict(a, probe='child blocking'), tb=m[1])
        elif m != ('blocking', True):
            rec.violation('lock_unavailable', dict(a, how='free again, forked child waiting'), got=m)
        p.join(20)
        if p.is_alive():
            os.kill(p.pid, signal.SIGKILL)
            p.join(5)
        r.close()
    # handshake: the child is started inside the parent's `with cond:`
    for kind, mk in (('Condition', ctx.Condition), ('Condition(Lock)', lambda: ctx.Condition(ctx.Lock()))):
        cond = mk()
        r, w = ctx.Pipe(False)
        a = dict(A, kind=kind, probe='handshake')
        with cond:
            p = ctx.Process(target=H2.notify_child, args=(cond, w))
            p.daemon = True
            p.start()
            w.close()
            time.sleep(rng.choice([0, 0.02, 0.1]))
            early = r.poll(0)
            woke = cond.wait(25)
        rec.count('fork_while_held_handshakes')
        m = get(r, 'inside', 15)
        if early:
            rec.violation('lock_admitted_second_holder', dict(a, how='child inside while the parent holds it'),
                          got=m)
        elif m[0] == 'raised':
            rec.violation('unexpected_exception', a, tb=m[1])
        elif not woke:
            rec.violation('lost_wakeup', a, child=m)
        p.join(20)
        if p.is_alive():
            os.kill(p.pid, signal.SIGKILL)
            p.join(5)
        r.close()
    rec.case()


def run_mutex(spec, rec):
    import billiard
    ctx = billiard.get_context('fork')
    rng = rng_for(spec['seed'], 'mutex')
    for _ in range(6):
        mutex_probes(rec, ctx, rng)
    for _ in range(2):
        fork_while_held(rec, ctx, rng)
    configs = [('Lock', 1), ('RLock', 1), ('Semaphore', 1), ('Semaphore', 3),
               ('BoundedSemaphore', 2), ('BoundedSemaphore', 1), ('Semaphore', 2),
               ('BoundedSemaphore', 4)]
    v = spec['variant']
    todo = [configs[(v * 2 + i) % len(configs)] for i in range(4)]
    if ('Lock', 1) not in todo:
        todo[0] = ('Lock', 1)
    for ci, (kind, n) in enumerate(todo):
        lname, layout = [('3p2t', [[0, 1], [2, 3], [4, 5]]), ('1p6t', [[0, 1, 2, 3, 4, 5]]),
                         ('6p1t', [[0], [1], [2], [3], [4], [5]])][(v + ci) % 3]
        world = MutexWorld(ctx, 6, kind, n)
        attrs = {'mode': 'witness', 'kind': kind, 'layout': lname}
        sess = Session(ctx, world, layout)
        dead = False
        try:
            actors = {aid: {'seed': spec['seed'] + ci, 'steps': [{'k': 'run', 'at': 0.0,
                                                                     'iters': spec['iters']}]}
                      for aid in range(6)}
            try:
                t0, logs, stuck = sess.round(ci + 1, actors, deadline=120)
            except SessionDead as exc:
                rec.violation('lock_unavailable', attrs, note=str(exc))
                dead = True
                continue
            rec.case()
            tot = 0
            maxocc = 0
            for aid, lg in logs.items():
                for e in lg:
                    k = e[1]
                    if k == 'M':
                        tot += e[2]
                        rec.count('mutex_sections', e[2])
                        rec.count('nonblocking_refused', e[3])
                        rec.count('mutex_contended', e[4])
                        maxocc = max(maxocc, e[5])
                        rec.count('rlock_reentries', e[7])
                        rec.count('acquire_timeouts', e[8])
                        rec.count('occupancy_snapshots', e[10] if len(e) > 10 else 0)
                        if e[6]:
                            rec.violation('admitted_more_holders_than_count', attrs,
                                          n=n, times=e[6], max_inside=e[5])
                        for (to, el) in e[9]:
                            rec.violation('acquire_false_before_timeout', attrs,
                                          timeout=to, elapsed=el)
                    elif k == 'M_bad':
                        rec.violation(e[2], attrs)
                    elif k == 'M_relexc':
                        rec.violation('release_raised', attrs, exc=e[2])
                    elif k == 'L_to':
                        rec.violation('lock_unavailable', attrs)
                    elif k == 'CRASH':
                        raise RuntimeError('harness crash: %s %s' % (e[2], e[3]))
            if stuck:
                rec.violation('lock_unavailable', attrs, stuck=stuck)
                dead = True
            if n == 1:
                cnt = world.shm.a[world.xbase + 40]
                if cnt != tot:
                    rec.violation('lost_update_under_lock', attrs, counter=cnt, sections=tot)
            if maxocc >= n and n > 1:
                rec.count('sem_full_occupancy')
            # quiescent value
            try:
                val = world.obj._semlock._get_value()
                if val != n:
                    rec.violation('semaphore_value_wrong', attrs, n=n, value=val,
                                  when='after all holders released')
            except Exception:
                pass
            rec.sig(['mutex', kind, n, lname, bucket(maxocc)])
            rec.sample({'mode': 'mutex', 'kind': kind, 'n': n, 'layout': lname,
                        'sections': tot, 'max_inside_observed': maxocc})
        finally:
            sess.close(kill=dead)


# --------------------------------------------------------------------------
# spawn: objects travel by pickling (SemLock/Condition __getstate__/__setstate__)
# --------------------------------------------------------------------------

def run_spawn(spec, rec):
    import billiard
    from vmon import c17_helpers as H
    ctx = billiard.get_context('spawn')
    attrs = {'mode': 'spawn'}
    for rep in range(spec['reps']):
        H.spawn_scenario(rec, ctx, attrs, spec['children'], spec['seed'] + rep,
                         os.environ.get('VERIF_WORKDIR', '/tmp'))
        rec.case()


def run_spec(spec, rec):
    spec.setdefault('tier', 'quick')
    old = sys.getswitchinterval()
    sys.setswitchinterval(2e-4)
    try:
        mode = spec['mode']
        if mode == 'cond':
            run_cond(spec, rec)
        elif mode == 'event':
            run_event(spec, rec)
        elif mode == 'mutex':
            run_mutex(spec, rec)
        elif mode == 'spawn':
            run_spawn(spec, rec)
    finally:
        sys.setswitchinterval(old)
