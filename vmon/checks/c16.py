"""C16 - queues lose nothing, duplicate nothing and respect their capacity.

Lane L0.  The real billiard Queue / JoinableQueue / SimpleQueue are driven by

* ``cap``   a single-threaded seeded script of put/put_nowait/timed put/get/
            get_nowait/timed get/task_done against a sequential reference model
            (FIFO of tags + capacity counter + unfinished counter); the capacity
            semaphore and the unfinished-task semaphore are read at quiescent
            points and compared with the model;
* ``xfer``  1-6 producers x 1-6 consumers (threads of the spec process, fork /
            spawn / forkserver processes, mixed), payloads 0 B .. 1 MiB, blocking
            / timed / non-blocking puts and gets, stalling consumers, items put
            before the children are forked, yield injection inside
            put/get/task_done (sys.monitoring LINE events).  Every operation is
            stamped with CLOCK_MONOTONIC (system wide) at call and at return;
            oracles: tag accounting (lost / duplicated / phantom / corrupt),
            per-producer FIFO across consumers (interval order), lower bound on
            the number of waiting items vs maxsize, Full only when the interval
            admits a full queue, Empty not before its timeout, join() not before
            the last task_done was called, surplus task_done refused;
* ``join``  JoinableQueue with several joiners (threads and processes) and
            task_done issued one by one: no joiner may return while tasks are
            unfinished, every joiner must return after the last one;
* ``empty`` timed gets on an empty queue, free and while another consumer
            sits in a blocking get (holding the reader lock).
"""
import collections
import mmap
import os
import struct
import sys
import threading
import time
import traceback
import zlib
from queue import Empty, Full

from vmon.core import rng_for

PROPERTY = 'C16'
LEVEL = 'exploration'
TECHNIQUE = ('unique-tag accounting + interval-order oracles over monotonic-stamped '
             'histories of real queues; sequential capacity/FIFO reference model')
RULE = ('seeded scenarios: (a) sequential op scripts on one queue checked step by step '
        'against a FIFO+capacity+unfinished model, (b) P producers x C consumers as '
        'threads/fork/spawn/forkserver processes with seeded payload sizes, capacities, '
        'put/get styles, stalls and yield injection, (c) stepwise task_done with several '
        'joiners, (d) timed gets on an empty queue.  A case is one scenario; its signature '
        'is (mode, queue kind, start method, #producer/#consumer processes and threads, '
        'capacity class, payload class, put/get styles, stall, injection, and what was '
        'observed: Full/Empty raised, capacity reached, feeder backlog, large items read by '
        'several consumers); a case is non-trivial when at least two parties contended '
        '(>=2 producers or >=2 consumers) or the capacity bound / an Empty / a Full was '
        'actually reached')
ASSUMPTIONS = [
    'CLOCK_MONOTONIC stamps are comparable across processes of one machine (Linux)',
    'interleavings are sampled (seeded stalls, yield injection, 1-6 x 1-6 parties), not enumerated',
    'a transfer making no progress at all for 25 s (20 ms polls, confirmed by a re-run alone) is a hang',
    'hashing (crc32 + length + tag) is trusted to detect payload corruption',
    'os.pipe / POSIX semaphores of the platform are trusted; billiard logic above them is what is checked',
]
FLOORS = {
    'quick': {'items_put': 5000, 'items_got': 5000, 'large_items': 40,
              'seq_ops': 4500, 'seq_full': 1000, 'seq_empty': 400,
              'seq_blocked_put': 300, 'sem_checks': 4500,
              'full_raised': 1000, 'empty_timed': 1000, 'capacity_reached': 8,
              'feeder_backlog_scenarios': 12, 'multi_consumer_large': 2,
              'join_returns_checked': 35, 'join_steps': 70,
              'surplus_task_done_refused': 25, 'task_done': 3000,
              'empty_contended': 25, 'spawn_scenarios': 2,
              'preput_scenarios': 4, 'inject_yields': 5000, 'line_targets': 30,
              'fifo_pairs_checked': 5000},
    'thorough': {'items_put': 40000, 'items_got': 40000, 'large_items': 300,
                 'seq_ops': 40000, 'seq_full': 8000, 'seq_empty': 3000,
                 'seq_blocked_put': 2000, 'sem_checks': 40000,
                 'full_raised': 8000, 'empty_timed': 8000, 'capacity_reached': 60,
                 'feeder_backlog_scenarios': 90, 'multi_consumer_large': 15,
                 'join_returns_checked': 250, 'join_steps': 500,
                 'surplus_task_done_refused': 200, 'task_done': 25000,
                 'empty_contended': 150, 'spawn_scenarios': 10,
                 'preput_scenarios': 30, 'inject_yields': 40000, 'line_targets': 60,
                 'fifo_pairs_checked': 40000},
}
JOBS = 12
SPEC_TIMEOUT = 900
CONFIRM_ALONE = ('transfer_stalled', 'join_not_returning', 'blocked_put_not_released',
                 'put_item_not_gettable')

STALL_S = 25.0          # no successful operation anywhere for this long = hang
GRAN_NS = 2_000_000     # clock granularity allowance for the Empty lower bound
NOW = time.monotonic_ns
PIPE = 65536


def plan(tier, seed):
    q = tier == 'quick'
    specs = []
    b = seed * 1000
    for i in range(6 if q else 16):
        specs.append({'mode': 'cap', 'seed': b + i, 'scripts': 8 if q else 25,
                      'ops': 300 if q else 500})
    fl = ['thread', 'fork', 'mixed']
    for i in range(15 if q else 84):
        # (specs are kept short: on a busy machine a process-based scenario can
        # take 20-30 s instead of 1-2 s)
        f = fl[i % 3]
        specs.append({'mode': 'xfer', 'seed': b + 100 + i, 'flavour': f,
                      'scenarios': (6 if f == 'thread' else 3) if q else (9 if f == 'thread' else 4),
                      'scale': 0.7 if q else 1.4})
    for i in range(2 if q else 6):
        specs.append({'mode': 'xfer', 'seed': b + 200 + i,
                      'scenarios': 2 if q else 4, 'scale': 0.5 if q else 1.0,
                      'flavour': ['spawn', 'forkserver'][i % 2]})
    for i in range(6 if q else 12):
        # every statement of put/get/task_done/join is visited twice (6 when thorough)
        specs.append({'mode': 'lines', 'seed': b + 250 + i, 'part': i % 3, 'parts': 3})
    for i in range(4 if q else 10):
        specs.append({'mode': 'join', 'seed': b + 300 + i,
                      'scenarios': 8 if q else 20})
    for i in range(4 if q else 8):
        specs.append({'mode': 'empty', 'seed': b + 400 + i,
                      'scenarios': 4 if q else 10})
    return specs


# --------------------------------------------------------------------------
# items
# --------------------------------------------------------------------------

def make_base(seed, k):
    return rng_for(seed, 'base', k).randbytes(1 << 16)


def make_obj(seed, p, seq):
    """deterministic structured payload; the consumer rebuilds it and compares"""
    r = rng_for(seed, 'obj', p, seq)

    def gen(d):
        c = r.randrange(9 if d < 3 else 6)
        if c == 0:
            return r.randrange(-10**12, 10**12)
        if c == 1:
            return r.random() * 1e6
        if c == 2:
            return ''.join(chr(r.choice([65, 233, 0x4e2d, 0x1f600, 32, 0])) for _ in range(r.randrange(12)))
        if c == 3:
            return r.randbytes(r.randrange(40))
        if c == 4:
            return r.choice([None, True, False, 0, -1, 2**70, '', b''])
        if c == 5:
            return frozenset(r.randrange(50) for _ in range(r.randrange(5)))
        if c == 6:
            return [gen(d + 1) for _ in range(r.randrange(5))]
        if c == 7:
            return tuple(gen(d + 1) for _ in range(r.randrange(4)))
        return {str(r.randrange(100)): gen(d + 1) for _ in range(r.randrange(4))}
    return gen(0)


def make_item(seed, p, seq, size, base):
    """(p, seq, kind, size, crc, payload)"""
    if size < 0:
        return (p, seq, 'O', 0, 0, make_obj(seed, p, seq))
    head = b'%d:%d:' % (p, seq)
    if size <= len(head):
        body = head[:size]
    else:
        need = size - len(head)
        off = (seq * 7919) % (len(base) - 1)
        chunk = base[off:] + base[:off]
        reps = need // len(chunk) + 1
        body = head + (chunk * reps)[:need]
    return (p, seq, 'B', size, zlib.crc32(body), body)


def same(a, b):
    """equal values of equal types, all the way down"""
    if type(a) is not type(b):
        return False
    if isinstance(a, (list, tuple)):
        return len(a) == len(b) and all(same(x, y) for x, y in zip(a, b))
    if isinstance(a, dict):
        return list(a) == list(b) and all(same(a[k], b[k]) for k in a)
    if isinstance(a, float):
        return repr(a) == repr(b)
    return a == b


def check_item(seed, item):
    """-> (p, seq, size, ok) ; never raises"""
    try:
        p, seq, kind, size, crc, body = item
        if not (isinstance(p, int) and isinstance(seq, int)):
            return (-2, -2, 0, 0)
        if kind == 'S':
            return (p, seq, 0, 1)
        if kind == 'O':
            want = make_obj(seed, p, seq)
            return (p, seq, 0, int(same(body, want)))
        ok = (type(body) is bytes and len(body) == size and zlib.crc32(body) == crc
              and body.startswith((b'%d:%d:' % (p, seq))[:size]))
        return (p, seq, size, int(ok))
    except Exception:
        return (-2, -2, 0, 0)


SIZE_EDGES = [0, 1, 4091, 4092, 4093, 4096, 16383, 16384, 16385, 65531, 65532, 65536, 65537]


def pick_size(r, cls):
    x = r.random()
    if cls == 'small':
        if x < 0.15:
            return -1
        return r.randrange(0, 200) if x < 0.9 else r.choice(SIZE_EDGES[:6])
    if cls == 'medium':
        if x < 0.1:
            return -1
        if x < 0.5:
            return r.randrange(0, 2000)
        if x < 0.85:
            return r.randrange(4097, 40000)
        return r.choice(SIZE_EDGES[:9])
    # large
    if x < 0.3:
        return r.randrange(0, 3000)
    if x < 0.55:
        return r.choice(SIZE_EDGES)
    if x < 0.9:
        return r.randrange(PIPE, 4 * PIPE)
    return r.randrange(4 * PIPE, (1 << 20) + 1)


# --------------------------------------------------------------------------
# per-participant plumbing: log, progress slots, yield injection
# --------------------------------------------------------------------------

class Log:
    """one text line per completed operation; a process appends to its own
    file (survives a kill), a thread appends to a list"""

    def __init__(self, path=None):
        self.lines = []
        self.fd = None
        if path:
            self.fd = os.open(path, os.O_WRONLY | os.O_CREAT | os.O_APPEND, 0o600)

    def __call__(self, *fields):
        s = ' '.join(map(str, fields))
        if self.fd is None:
            self.lines.append(s)
        else:
            os.write(self.fd, (s + '\n').encode())


class Progress:
    """file-backed shared array of counters, one writer per slot"""
    N = 128
    ABORT = 63

    def __init__(self, path, create=False):
        if create:
            with open(path, 'wb') as f:
                f.write(b'\0' * (8 * self.N))
        self.f = open(path, 'r+b')
        self.m = mmap.mmap(self.f.fileno(), 8 * self.N)

    def bump(self, slot):
        v, = struct.unpack_from('<q', self.m, 8 * slot)
        struct.pack_into('<q', self.m, 8 * slot, v + 1)

    def get(self, slot):
        return struct.unpack_from('<q', self.m, 8 * slot)[0]

    def total(self):
        return sum(struct.unpack_from('<32q', self.m, 0))

    def abort(self):
        struct.pack_into('<q', self.m, 8 * self.ABORT, 1)

    # slots 32..61: 'finished' flags of the parties, 62: go flag for joiners
    def done(self, slot):
        struct.pack_into('<q', self.m, 8 * (32 + slot), 1)

    def is_done(self, slot):
        return self.get(32 + slot) != 0

    # slots 64..: 'ready' flags (the party has started and is about to operate)
    def ready(self, slot):
        struct.pack_into('<q', self.m, 8 * (64 + slot), 1)

    def is_ready(self, slot):
        return self.get(64 + slot) != 0

    def go(self):
        struct.pack_into('<q', self.m, 8 * 62, 1)

    def gone(self):
        return self.get(62) != 0

    def aborted(self):
        return self.get(self.ABORT) != 0


_INJ = {'on': False, 'n': 0}
_TOOL = 4


INJ_FUNCS = (('Queue', 'put'), ('Queue', 'get'), ('JoinableQueue', 'put'),
             ('JoinableQueue', 'task_done'), ('JoinableQueue', 'join'))


def code_lines(code):
    return sorted({ln for (_s, _e, ln) in code.co_lines()
                   if ln is not None and ln != code.co_firstlineno})


def install_injection(seed, who, mode='random', target=None, prob=0.2, maxsleep=0.001):
    """sleep briefly at line boundaries inside the queue methods, to let the
    feeder thread / other parties run between two statements.

    mode 'random'  : at random lines of put/get/task_done/join
         'slow_put': at *every* line of Queue.put / JoinableQueue.put
         'slow_get': at every line of Queue.get
         'slow_td' : at every line of task_done / join
         'line'    : 3-6 ms before one chosen line (target = [class, method,
                     index of the line]) and nowhere else
    """
    if _INJ['on']:
        return True
    try:
        from billiard import queues as bq
        M = sys.monitoring
        the_line = None
        if mode == 'line':
            code = getattr(bq, target[0]).__dict__[target[1]].__code__
            the_line = code_lines(code)[target[2]]
            codes = [code]
        else:
            want = {'random': ('put', 'get', 'task_done', 'join'), 'slow_put': ('put',),
                    'slow_get': ('get',), 'slow_td': ('task_done', 'join')}[mode]
            codes = []
            for cls in (bq.Queue, bq.JoinableQueue):
                for n in want:
                    f = cls.__dict__.get(n)
                    if f is not None:
                        codes.append(f.__code__)
        r = rng_for(seed, 'inj', who)
        rnd, slp = r.random, time.sleep
        tl = threading.local()
        every = mode in ('slow_put', 'slow_get', 'slow_td')

        def on_line(code, line):
            if getattr(tl, 'busy', False):
                return
            if the_line is not None:
                if line != the_line:
                    return
                tl.busy = True
                try:
                    _INJ['n'] += 1
                    slp(0.003 + rnd() * 0.003)
                finally:
                    tl.busy = False
                return
            x = rnd()
            if every or x < prob:
                tl.busy = True
                try:
                    _INJ['n'] += 1
                    if every:
                        slp(0.0003 + x * 0.0009)
                    else:
                        slp(0 if x < prob * 0.3 else rnd() * maxsleep)
                finally:
                    tl.busy = False
        M.use_tool_id(_TOOL, 'vmon-c16')
        M.register_callback(_TOOL, M.events.LINE, on_line)
        for c in codes:
            M.set_local_events(_TOOL, c, M.events.LINE)
        _INJ['on'] = True
        _INJ['codes'] = codes
        return True
    except Exception:
        return False


def remove_injection():
    if not _INJ['on']:
        return 0
    M = sys.monitoring
    try:
        for c in _INJ.get('codes', ()):
            M.set_local_events(_TOOL, c, 0)
        M.register_callback(_TOOL, M.events.LINE, None)
        M.free_tool_id(_TOOL)
    except Exception:
        pass
    _INJ['on'] = False
    n, _INJ['n'] = _INJ['n'], 0
    return n


# --------------------------------------------------------------------------
# participants (top-level so that spawn/forkserver children can import them)
# --------------------------------------------------------------------------

def producer_body(q, cfg, k, log, prog, slot):
    pc = cfg['producers'][k]
    seed = cfg['seed']
    r = rng_for(seed, 'prod', k)
    base = make_base(seed, k)
    style = pc['style']
    tmo = pc.get('timeout', 0.01)
    pace = pc.get('pace', 0.0)
    maxbuf = 0
    first = pc.get('first_seq', 0)
    prog.ready(slot)
    try:
        for seq in range(first, first + pc['n']):
            size = pick_size(r, pc['sizes'])
            item = make_item(seed, k, seq, size, base)
            while True:
                t0 = NOW()
                try:
                    if style == 'block':
                        q.put(item)
                    elif style == 'timed':
                        q.put(item, True, tmo)
                    else:
                        q.put_nowait(item)
                except Full:
                    log('F', seq, t0, NOW())
                    if prog.aborted():
                        return
                    if style == 'nowait' or tmo < 0.001:
                        time.sleep(0.001)
                    continue
                t1 = NOW()
                log('P', seq, size, t0, t1)
                prog.bump(slot)
                break
            try:
                n = len(q._buffer)
                if n > maxbuf:
                    maxbuf = n
            except Exception:
                pass
            if pace and r.random() < 0.5:
                time.sleep(r.random() * pace)
            if prog.aborted():
                return
    except BaseException as exc:
        log('X', 'put', repr(exc).replace('\n', ' ')[:300], '|',
            traceback.format_exc()[-900:].replace('\n', ' // '))
    finally:
        log('B', maxbuf, _INJ['n'])
        log('D')


def consumer_body(q, cfg, k, log, prog, slot):
    cc = cfg['consumers'][k]
    seed = cfg['seed']
    r = rng_for(seed, 'cons', k)
    style = cc['style']
    tmo = cc.get('timeout', 0.01)
    stall = cc.get('stall', 0.0)
    joinable = cfg['qkind'] == 'JoinableQueue'
    prog.ready(slot)
    try:
        while True:
            t0 = NOW()
            try:
                if style == 'block':
                    item = q.get()
                elif style == 'timed':
                    item = q.get(True, tmo)
                elif style == 'nowait':
                    item = q.get_nowait()
                else:
                    # alternate all three forms
                    c = r.randrange(3)
                    if c == 0:
                        item = q.get(True, tmo)
                    elif c == 1:
                        item = q.get(False)
                    else:
                        item = q.get()
            except Empty:
                t1 = NOW()
                used = tmo if (style == 'timed' or (style == 'any' and c == 0)) else 0
                log('E', t0, t1, int(used * 1e9))
                if prog.aborted():
                    return
                if used < 0.001:
                    time.sleep(0.001)
                continue
            t1 = NOW()
            p, seq, size, ok = check_item(seed, item)
            t2 = td = 0
            if joinable:
                t2 = NOW()
                try:
                    q.task_done()
                    td = 1
                except ValueError:
                    td = -1
            log('G', t0, t1, p, seq, size, ok, t2, td)
            prog.bump(slot)
            if p == -1:
                return
            del item
            if stall and r.random() < cc.get('stall_p', 0.5):
                time.sleep(r.random() * stall)
    except BaseException as exc:
        log('X', 'get', repr(exc).replace('\n', ' ')[:300], '|',
            traceback.format_exc()[-900:].replace('\n', ' // '))
    finally:
        log('B', 0, _INJ['n'])
        log('D')
        prog.done(slot)


def joiner_body(q, cfg, k, log, prog, slot):
    prog.ready(slot)
    try:
        while not prog.gone():
            if prog.aborted():
                return
            time.sleep(0.001)
        t0 = NOW()
        q.join()
        log('J', t0, NOW())
        prog.bump(slot)
    except BaseException as exc:
        log('X', 'join', repr(exc).replace('\n', ' ')[:300], '|',
            traceback.format_exc()[-900:].replace('\n', ' // '))
    finally:
        log('D')
        prog.done(slot)


BODIES = {'prod': producer_body, 'cons': consumer_body, 'join': joiner_body}


def proc_entry(role, q, cfg, k, workdir, slot):
    """entry point of a participant process"""
    log = Log(os.path.join(workdir, '%s%d.log' % (role, k)))
    prog = Progress(os.path.join(workdir, 'prog.bin'))
    if cfg.get('inject'):
        install_injection(cfg['seed'], (role, k), cfg['inject'], cfg.get('inject_target'))
    BODIES[role](q, cfg, k, log, prog, slot)


class Party:
    """a participant: a thread of the spec process or a billiard Process"""

    def __init__(self, ctx, role, k, how, q, cfg, workdir, prog, slot):
        self.role, self.k, self.how, self.slot = role, k, how, slot
        self.path = os.path.join(workdir, '%s%d.log' % (role, k))
        self.log = None
        if how == 'thread':
            self.log = Log()
            self.h = threading.Thread(
                target=BODIES[role], args=(q, cfg, k, self.log, prog, slot),
                name='c16-%s%d' % (role, k), daemon=True)
        else:
            self.h = ctx.Process(target=proc_entry,
                                 args=(role, q, cfg, k, workdir, slot))
            self.h.daemon = True

    def start(self):
        self.h.start()

    def alive(self):
        return self.h.is_alive()

    def lines(self):
        if self.log is not None:
            return list(self.log.lines)
        try:
            with open(self.path) as f:
                return f.read().splitlines()
        except OSError:
            return []

    def kill(self):
        if self.how == 'thread':
            return
        try:
            if self.h.is_alive():
                os.kill(self.h.pid, 9)
            self.h.join(5)
        except Exception:
            pass

    def reap(self):
        if self.how != 'thread':
            try:
                self.h.join(10)
            except Exception:
                pass


# --------------------------------------------------------------------------
# xfer: producers x consumers
# --------------------------------------------------------------------------

def gen_xfer(r, flavour, scale, seed):
    qkind = r.choices(['Queue', 'JoinableQueue', 'SimpleQueue'], [45, 35, 20])[0]
    simple = qkind == 'SimpleQueue'
    heavy = flavour in ('spawn', 'forkserver')
    method = flavour if heavy else 'fork'
    hi = 3 if heavy else 6
    # processes are expensive on this machine: many parties only as threads
    n_opts = {'thread': [1, 2, 2, 3, 3, 4, 5, 6], 'mixed': [1, 2, 2, 3, 3, 4, 5],
              'fork': [1, 2, 2, 3, 4]}.get(flavour, [1, 2, 2, 3])
    P = r.choice(n_opts)
    C = r.choice(n_opts)
    P, C = min(P, hi), min(C, hi)
    maxsize = 0 if simple or r.random() < 0.3 else r.choice([1, 1, 2, 3, 4, 5, 6, 7, 8])
    sizes = r.choices(['small', 'medium', 'large'], [45, 30, 25])[0]
    n_rng = {'small': (150, 400), 'medium': (60, 150), 'large': (8, 24)}[sizes]

    def how():
        if flavour == 'thread':
            return 'thread'
        if flavour == 'mixed':
            return r.choice(['thread', 'proc'])
        return 'proc'
    slow_prod = r.random() < 0.25
    stall = r.random() < 0.45
    inject = None
    if not simple:
        inject = r.choices([None, 'random', 'slow_put', 'slow_get', 'slow_td'],
                           [50, 20, 18, 6, 6])[0]
        if inject == 'slow_td' and qkind != 'JoinableQueue':
            inject = 'random'
    if inject == 'slow_put' and flavour in ('thread', 'mixed'):
        P = max(P, 2)        # several producer threads share one feeder thread
    n_scale = {'slow_put': 0.3, 'slow_get': 0.4}.get(inject, 1.0)
    producers, consumers = [], []
    for k in range(P):
        style = 'block' if simple else r.choice(['block', 'block', 'timed', 'nowait'])
        producers.append({
            'n': max(3, int(r.randint(*n_rng) * scale * n_scale)), 'style': style, 'sizes': sizes,
            'timeout': r.choice([0, 0.0005, 0.003, 0.02, 0.1]),
            'pace': r.choice([0.001, 0.003]) if slow_prod else 0.0,
            'how': 'thread' if (inject == 'slow_put' and flavour == 'mixed' and k < 2) else how()})
    if not simple and flavour != 'thread' and P >= 2 and r.random() < 0.5:
        # writers of different sizes from different processes: one sends items
        # larger than the pipe buffer (written in several pieces), the others
        # small ones - the writer lock has to keep them apart
        for k, pc in enumerate(producers):
            pc['sizes'] = 'large' if k == 0 else 'small'
            pc['how'] = 'proc'
            pc['n'] = max(pc['n'], int((24 if k == 0 else 250) * scale))
            pc['pace'] = 0.0
    for k in range(C):
        style = 'block' if simple else r.choice(['block', 'block', 'timed', 'nowait', 'any'])
        consumers.append({
            # NB: get(True, 0) can never return an item (the deadline has always
            # passed once the reader lock is held; same in CPython) - it is
            # only issued by the 'any' style, mixed with the other forms
            'style': style,
            # (and a timed get whose lines are slowed down needs a timeout that
            # outlasts the injected sleeps, or it can never succeed either)
            'timeout': r.choice([0.05, 0.3] if inject == 'slow_get' else
                                [0, 0.0004, 0.002, 0.01, 0.05] if style == 'any'
                                else [0.0004, 0.002, 0.01, 0.05, 0.3]),
            'stall': (r.choice([0.0005, 0.002, 0.004]) * (3 if sizes == 'large' else 1)) if stall else 0.0,
            'stall_p': r.choice([0.1, 0.3, 0.6]), 'how': how()})
    cfg = {'seed': seed, 'qkind': qkind, 'method': method, 'flavour': flavour,
           'maxsize': maxsize, 'sizes': sizes, 'producers': producers,
           'consumers': consumers, 'inject': inject,
           'preput': 0, 'joiners': []}
    if not simple and r.random() < 0.3:
        cfg['preput'] = r.randint(1, maxsize) if maxsize else r.randint(2, 12 if sizes == 'large' else 40)
    if qkind == 'JoinableQueue':
        cfg['joiners'] = [how() for _ in range(r.randint(1, 3))]
    # the parent acts as producer number P (pre-puts), entry appended for make_item
    producers.append({'n': cfg['preput'], 'style': 'block', 'sizes': sizes, 'how': 'parent'})
    return cfg


class Stalled(Exception):
    pass


class Waiter:
    """bounded-progress watchdog: a phase is declared hung only when no party
    completed any operation for STALL_S seconds"""

    def __init__(self, prog, parties=(), stall_s=STALL_S):
        self.prog, self.stall_s = prog, stall_s
        self.parties = list(parties)
        self.t_start = time.monotonic()
        self.last = prog.total()
        self.t_change = time.monotonic()
        self.worst_gap = 0.0

    def wait(self, finished):
        t_prev = time.monotonic()
        while True:
            if finished():
                return True
            time.sleep(0.005)
            now = time.monotonic()
            gap = now - t_prev
            t_prev = now
            if gap > self.worst_gap:
                self.worst_gap = gap
            tot = self.prog.total()
            starting = [p for p in self.parties if not self.prog.is_ready(p.slot)]
            if starting:
                # children still booting (fork/spawn are slow on a busy machine):
                # not a verdict either way
                self.parties = starting
                if now - self.t_start > 300:
                    raise RuntimeError('parties did not start within 300 s: %r'
                                       % [(p.role, p.k, p.how) for p in starting])
            if tot != self.last or gap > 1.5 or starting:
                # progress, or this monitor itself was not scheduled for a long time
                self.last, self.t_change = tot, now
            elif now - self.t_change > self.stall_s:
                return False


def run_xfer(rec, cfg, wd):
    import billiard
    os.makedirs(wd)
    prog = Progress(os.path.join(wd, 'prog.bin'), create=True)
    ctx = billiard.get_context(cfg['method'])
    qkind, maxsize, seed = cfg['qkind'], cfg['maxsize'], cfg['seed']
    attrs = {'mode': 'xfer', 'qkind': qkind, 'bounded': bool(maxsize)}
    q = ctx.SimpleQueue() if qkind == 'SimpleQueue' else getattr(ctx, qkind)(maxsize)
    P = len(cfg['producers']) - 1
    C = len(cfg['consumers'])
    plog = Log()
    slog = Log()
    parties = []
    hang = None
    surplus = sem_end = None
    injected_here = False
    T = [('t0', time.monotonic())]
    mark = (lambda name: T.append((name, time.monotonic()))) if os.environ.get('C16_DEBUG') else (lambda name: None)
    try:
        # 1. items put before any child exists (they sit in the feeder buffer /
        #    the pipe while the children are forked)
        if cfg['preput']:
            base = make_base(seed, P)
            r = rng_for(seed, 'prod', P)
            for seq in range(cfg['preput']):
                size = pick_size(r, cfg['sizes'])
                item = make_item(seed, P, seq, size, base)
                t0 = NOW()
                q.put(item)
                plog('P', seq, size, t0, NOW())
            rec.count('preput_scenarios')
        # 2. parties
        slot = 0
        prods, conss, joins = [], [], []
        for k in range(P):
            prods.append(Party(ctx, 'prod', k, cfg['producers'][k]['how'], q, cfg, wd, prog, slot))
            slot += 1
        for k in range(C):
            conss.append(Party(ctx, 'cons', k, cfg['consumers'][k]['how'], q, cfg, wd, prog, slot))
            slot += 1
        for k, h in enumerate(cfg['joiners']):
            joins.append(Party(ctx, 'join', k, h, q, cfg, wd, prog, slot))
            slot += 1
        sent_slot = slot
        parties = prods + conss + joins
        everyone = conss + joins + prods
        for p in everyone:
            if p.how != 'thread':
                p.start()
        if cfg['inject'] and any(p.how == 'thread' for p in parties):
            injected_here = install_injection(seed, 'parent', cfg['inject'], cfg.get('inject_target'))
        for p in everyone:
            if p.how == 'thread':
                p.start()
        mark('started')
        w = Waiter(prog, everyone)
        # 3. producers run to completion (process producers flush their feeder on exit)
        if not w.wait(lambda: not any(p.alive() for p in prods)):
            hang = 'producers'
        mark('producers')
        # 4. sentinels, one per consumer, put by the parent from a helper thread

        def put_sentinels():
            try:
                for i in range(C):
                    t0 = NOW()
                    q.put((-1, i, 'S', 0, 0, b''))
                    slog('P', i, 0, t0, NOW())
                    prog.bump(sent_slot)
            except BaseException as exc:
                slog('X', 'put', repr(exc)[:300], '|', traceback.format_exc()[-900:].replace('\n', ' // '))
        if hang is None:
            st = threading.Thread(target=put_sentinels, daemon=True)
            st.start()
            if not w.wait(lambda: not st.is_alive()):
                hang = 'sentinels'
        # 5. joiners may go now: every put has returned
        mark('sentinels')
        if hang is None:
            prog.go()
            if not w.wait(lambda: all(prog.is_done(p.slot) or not p.alive() for p in conss)):
                hang = 'consumers'
        if hang is None and joins:
            if not w.wait(lambda: all(prog.is_done(p.slot) or not p.alive() for p in joins)):
                hang = 'joiners'
        mark('consumers')
        rec.maxi('max:monitor_gap_ms', int(w.worst_gap * 1000))
        if hang is None:
            if qkind == 'JoinableQueue':
                try:
                    q.task_done()
                    surplus = 'accepted'
                except ValueError:
                    surplus = 'refused'
                except Exception as exc:
                    surplus = repr(exc)
            if qkind != 'SimpleQueue':
                try:
                    sem_end = q._maxsize - q._sem._semlock._get_value()
                except Exception:
                    rec.missing('Queue._sem/_maxsize')
        else:
            prog.abort()
            time.sleep(0.5)
    finally:
        inj = remove_injection() if injected_here else 0
        logs = {}
        for p in parties:
            if hang is not None:
                p.kill()
            else:
                p.reap()
                if p.how != 'thread' and p.alive():
                    p.kill()
        for p in parties:
            logs[(p.role, p.k)] = p.lines()
        try:
            if qkind != 'SimpleQueue':
                q.close()
        except Exception:
            pass
    mark('reaped')
    if len(T) > 1:
        print('phases', [(n, round(t - T[0][1], 2)) for n, t in T[1:]], flush=True)
    judge_xfer(rec, cfg, attrs, logs, plog.lines, slog.lines if hang != 'producers' else [],
               hang, surplus, sem_end, inj, parties)
    return hang is None


def judge_xfer(rec, cfg, attrs, logs, plines, slines, hang, surplus, sem_end, inj, parties):
    import bisect
    P = len(cfg['producers']) - 1
    C = len(cfg['consumers'])
    maxsize = cfg['maxsize']
    puts = {}            # (p, seq) -> (t0, t1, size)
    fulls = []           # (t0, t1)
    gets = []            # (t0, t1, p, seq, size, ok, t2, td, k)
    empties = []         # (t0, t1, tmo_ns)
    joins = []
    errors = []
    maxbuf = 0
    unfinished_logs = []

    def parse_put_lines(pid, lines):
        nonlocal maxbuf, inj
        done = False
        for ln in lines:
            f = ln.split(' ')
            if f[0] == 'P':
                puts[(pid, int(f[1]))] = (int(f[3]), int(f[4]), int(f[2]))
            elif f[0] == 'F':
                fulls.append((int(f[2]), int(f[3])))
            elif f[0] == 'X':
                errors.append((f[1], ln[2:]))
            elif f[0] == 'B':
                maxbuf = max(maxbuf, int(f[1]))
                inj += int(f[2])
            elif f[0] == 'D':
                done = True
        return done
    for k in range(P):
        if not parse_put_lines(k, logs.get(('prod', k), [])):
            unfinished_logs.append('prod%d' % k)
    parse_put_lines(P, plines)
    parse_put_lines(-1, slines)
    for k in range(C):
        done = False
        for ln in logs.get(('cons', k), []):
            f = ln.split(' ')
            if f[0] == 'G':
                gets.append((int(f[1]), int(f[2]), int(f[3]), int(f[4]), int(f[5]),
                             int(f[6]), int(f[7]), int(f[8]), k))
            elif f[0] == 'E':
                empties.append((int(f[1]), int(f[2]), int(f[3])))
            elif f[0] == 'X':
                errors.append((f[1], ln[2:]))
            elif f[0] == 'B':
                inj += int(f[2])
            elif f[0] == 'D':
                done = True
        if not done:
            unfinished_logs.append('cons%d' % k)
    for k in range(len(cfg['joiners'])):
        done = False
        for ln in logs.get(('join', k), []):
            f = ln.split(' ')
            if f[0] == 'J':
                joins.append((int(f[1]), int(f[2]), k))
            elif f[0] == 'X':
                errors.append((f[1], ln[2:]))
            elif f[0] == 'D':
                done = True
        if not done:
            unfinished_logs.append('join%d' % k)

    rec.case()
    rec.count('items_put', len(puts))
    rec.count('items_got', len(gets))
    rec.count('inject_yields', inj)
    V = rec.violation
    brief = {'method': cfg['method'], 'maxsize': maxsize, 'sizes': cfg['sizes'],
             'producers': [(p['how'], p['style'], p['n']) for p in cfg['producers'][:P]],
             'consumers': [(c['how'], c['style'], c['timeout'], c['stall']) for c in cfg['consumers']],
             'preput': cfg['preput'], 'inject': cfg['inject'], 'joiners': cfg['joiners']}

    # 0. exceptions out of the queue operations themselves
    for op, text in errors:
        V('queue_operation_raised', dict(attrs, op=op), error=text[:1500], scenario=brief)

    # hang
    complete = hang is None and not errors
    if hang is None and unfinished_logs and not errors:
        raise RuntimeError('participant ended without finishing its log: %r' % (unfinished_logs,))

    # 1. payload integrity
    bad = [g for g in gets if not g[5]]
    if bad:
        V('payload_corrupt', attrs, n=len(bad),
          first=[(g[2], g[3], g[4], 'consumer %d' % g[8]) for g in bad[:5]], scenario=brief)

    # 2. tag accounting
    cnt = collections.Counter((g[2], g[3]) for g in gets if g[5])
    dups = [(t, n) for t, n in cnt.items() if n > 1]
    if dups:
        V('duplicate_delivery', attrs, n=len(dups), first=dups[:5], scenario=brief)
    if hang is None:
        phantom = [t for t in cnt if t not in puts]
        if phantom and not bad:
            V('phantom_item', attrs, n=len(phantom), first=phantom[:5], scenario=brief)
    if complete:
        lost = [t for t in puts if t not in cnt]
        if lost and not bad:
            lost.sort()
            V('lost_item', attrs, n=len(lost), first=lost[:8], of=len(puts),
              sizes=[puts[t][2] for t in lost[:8]], scenario=brief)
        elif lost:
            rec.note('items missing together with corrupt payloads')

    # 3. order: within a consumer, and across consumers by interval order
    pairs = 0
    by_prod = collections.defaultdict(list)
    last_seen = {}
    for g in sorted(gets, key=lambda g: (g[8], g[1])):
        if not g[5] or g[2] < 0:
            continue
        key = (g[8], g[2])
        if key in last_seen and last_seen[key] > g[3]:
            V('reordered_within_producer', dict(attrs, scope='one_consumer'),
              producer=g[2], consumer=g[8], got_seq=g[3], after_seq=last_seen[key],
              scenario=brief)
            break
        last_seen[key] = g[3]
    for g in gets:
        if g[5] and g[2] >= 0:
            by_prod[g[2]].append(g)
    for p, lst in by_prod.items():
        lst.sort(key=lambda g: g[3])
        latest_call, who = -1, None
        for g in lst:
            # every earlier item of this producer was read from the pipe
            # before this one: its get must have been *called* before this
            # get *returned*
            if latest_call > g[1]:
                V('reordered_within_producer', dict(attrs, scope='across_consumers'),
                  producer=p, seq=g[3], returned_ns=g[1], earlier_seq=who[3],
                  earlier_get_called_ns=who[0], consumers=(who[8], g[8]), scenario=brief)
                break
            if g[0] > latest_call:
                latest_call, who = g[0], g
            pairs += 1
    rec.count('fifo_pairs_checked', pairs)

    # 4/5. capacity
    n_full = len(fulls)
    rec.count('full_raised', n_full)
    reached = False
    if cfg['qkind'] != 'SimpleQueue' and not errors and not bad:
        # (a get that raised after reading a message released a place without
        # being logged as a get: the counting bounds below need clean logs)
        if maxsize:
            ev = [(v[1], 1) for v in puts.values()] + [(g[0], -1) for g in gets]
            ev.sort()
            cur = peak = 0
            t_peak = 0
            for t, d in ev:
                cur += d
                if cur > peak:
                    peak, t_peak = cur, t
            if peak > maxsize:
                V('capacity_exceeded', attrs, maxsize=maxsize, waiting_at_least=peak,
                  at_ns=t_peak, scenario=brief)
            reached = peak >= maxsize
            if reached:
                rec.count('capacity_reached')
            put_calls = sorted(v[0] for v in puts.values())
            get_rets = sorted(g[1] for g in gets)
            for (t0, t1) in fulls:
                upper = bisect.bisect_right(put_calls, t1) - bisect.bisect_left(get_rets, t0)
                if upper < maxsize:
                    V('full_below_capacity', attrs, maxsize=maxsize, waiting_at_most=upper,
                      call_ns=t0, raised_ns=t1, scenario=brief)
                    break
        elif fulls:
            V('full_below_capacity', dict(attrs), maxsize=0, n=len(fulls), scenario=brief)
        if sem_end is not None and complete and sem_end != 0:
            V('capacity_semaphore_leak', attrs, waiting_by_semaphore=sem_end,
              after='everything consumed', maxsize=maxsize, scenario=brief)
        if sem_end is not None:
            rec.count('sem_checks')

    # 6. Empty not before the timeout
    timed = [e for e in empties if e[2] > 0]
    rec.count('empty_timed', len(timed))
    rec.count('empty_nowait', len(empties) - len(timed))
    for (t0, t1, tmo) in timed:
        if t1 - t0 < tmo - GRAN_NS:
            V('empty_before_timeout', dict(attrs, contended=C > 1), timeout_ns=tmo,
              elapsed_ns=t1 - t0, scenario=brief)
            break

    # 7. join / task_done
    if cfg['qkind'] == 'JoinableQueue':
        tds = sorted(g[6] for g in gets if g[7] == 1)
        rec.count('task_done', len(tds))
        refused = [g for g in gets if g[7] == -1]
        if refused:
            g = refused[0]
            V('task_done_refused_for_delivered_item', attrs, n=len(refused),
              item=(g[2], g[3]), consumer=g[8], scenario=brief)
        total = len(puts)
        for (t0, t1, k) in joins:
            rec.count('join_returns_checked')
            called = bisect.bisect_left(tds, t1)
            if called < total and hang is None:
                V('join_returned_early', attrs, task_done_called=called, puts=total,
                  join_called_ns=t0, join_returned_ns=t1, joiner=k, scenario=brief)
                break
        if surplus == 'refused':
            rec.count('surplus_task_done_refused')
        elif surplus is not None and complete and not refused:
            V('surplus_task_done_accepted', attrs, outcome=surplus, scenario=brief)

    # hang: a wall-clock verdict (re-run alone by the driver); only reported
    # when no stamp/tag oracle has already decided this spec
    if hang is not None:
        n_out = len(puts) - len({(g[2], g[3]) for g in gets})
        if hang in ('producers', 'sentinels'):
            symptom = ('put_blocked_or_refused_with_queue_drained' if n_out <= 0
                       else 'put_blocked_while_items_outstanding')
        elif hang == 'consumers':
            symptom = 'consumers_starved'
        else:
            symptom = 'join_never_returned'
        kind = 'join_not_returning' if hang == 'joiners' else 'transfer_stalled'
        detail = dict(phase=hang, stall_s=STALL_S, puts_returned=len(puts),
                      gets_returned=len(gets), outstanding=n_out, fulls=len(fulls),
                      empties=len(empties), unfinished=unfinished_logs,
                      alive=[(p.role, p.k, p.how) for p in parties if p.alive()],
                      scenario=brief)
        if any(v['kind'] not in CONFIRM_ALONE for v in rec.violations):
            rec.anomaly(kind, symptom=symptom, **detail)
        else:
            V(kind, dict(attrs, symptom=symptom), **detail)

    # evidence
    big = [g for g in gets if g[4] > PIPE]
    rec.count('large_items', len(big))
    big_cons = len({g[8] for g in big})
    if big_cons >= 2:
        rec.count('multi_consumer_large')
    if maxbuf >= 2:
        rec.count('feeder_backlog_scenarios')
    rec.maxi('max:feeder_buffer_len', maxbuf)
    if cfg['method'] != 'fork':
        rec.count('spawn_scenarios')
    npp = sum(1 for p in cfg['producers'][:P] if p['how'] == 'proc')
    ncp = sum(1 for c in cfg['consumers'] if c['how'] == 'proc')

    def b(n):
        return 0 if n == 0 else (1 if n < 10 else (2 if n < 100 else 3))
    if P >= 2 or C >= 2 or reached or n_full or empties:
        rec.sig(['xfer', cfg['qkind'], cfg['method'], npp, P - npp, ncp, C - ncp,
                 0 if not maxsize else (1 if maxsize == 1 else 2), cfg['sizes'],
                 ''.join(sorted({p['style'][0] for p in cfg['producers'][:P]})),
                 ''.join(sorted({c['style'][0] for c in cfg['consumers']})),
                 int(any(c['stall'] for c in cfg['consumers'])), cfg['inject'] or '-',
                 int(bool(cfg['preput'])), b(n_full), b(len(timed)), int(reached),
                 int(maxbuf >= 2), min(big_cons, 2)])
    rec.sample({'scenario': brief, 'qkind': cfg['qkind'],
                'observed': {'puts': len(puts), 'gets': len(gets), 'full': n_full,
                             'empty_timed': len(timed), 'empty_nowait': len(empties) - len(timed),
                             'max_feeder_buffer': maxbuf, 'capacity_reached': reached,
                             'large_items': len(big), 'consumers_reading_large': big_cons,
                             'joins': len(joins), 'yields_injected': inj}})


# --------------------------------------------------------------------------
# cap: sequential script against a reference model
# --------------------------------------------------------------------------

def _bounded_thread(fn, wait_s):
    """run fn in a daemon thread -> (finished_within_bound, box)"""
    box = {}

    def body():
        try:
            box['ret'] = fn()
        except BaseException as exc:
            box['exc'] = exc
            box['tb'] = traceback.format_exc()[-1200:]
    t = threading.Thread(target=body, daemon=True)
    t.start()
    t.join(wait_s)
    return t, box


def run_cap(rec, r, seed, ops):
    import billiard
    ctx = billiard.get_context('fork')
    qkind = r.choice(['Queue', 'JoinableQueue'])
    joinable = qkind == 'JoinableQueue'
    maxsize = r.choice([0, 1, 1, 2, 2, 3, 4, 5, 6, 7, 8])
    cap = maxsize or 10**9
    q = getattr(ctx, qkind)(maxsize)
    attrs = {'mode': 'cap', 'qkind': qkind, 'bounded': bool(maxsize)}
    model = collections.deque()
    unfinished = 0
    seq = 0
    base = make_base(seed, 0)
    hist = collections.deque(maxlen=25)
    st = collections.Counter()
    V = rec.violation
    sizes = r.choice(['small', 'small', 'medium', 'large'])
    budget = [24 << 20]
    # bias towards filling or draining, changes now and then
    bias = 0.5

    def new_item():
        nonlocal seq
        size = pick_size(r, sizes)
        if size > 0:
            if budget[0] < size:
                size = size % 3000
            budget[0] -= size
        it = make_item(seed, 0, seq, size, base)
        seq += 1
        return it

    def bad(kind, **kw):
        V(kind, dict(attrs, op=kw.pop('op', None)), maxsize=maxsize, waiting_model=len(model),
          unfinished_model=unfinished, history=list(hist), **kw)
        return False

    def check_got(item, op):
        p, s, size, ok = check_item(seed, item)
        if not model:
            return bad('get_from_empty_queue', op=op, got=(p, s))
        want = model.popleft()
        if not ok:
            return bad('payload_corrupt', op=op, got=(p, s, size), want=want)
        if (p, s) != want:
            kind = 'reordered_within_producer' if (p, s) in model else 'phantom_item'
            return bad(kind, op=op, got=(p, s), want=want)
        return True

    def check_state():
        try:
            w = q._maxsize - q._sem._semlock._get_value()
        except Exception:
            rec.missing('Queue._sem/_maxsize')
            w = None
        if w is not None:
            rec.count('sem_checks')
            if w != len(model):
                return bad('capacity_semaphore_disagrees_with_model', op='state',
                           waiting_by_semaphore=w)
        if joinable:
            try:
                u = q._unfinished_tasks._semlock._get_value()
            except Exception:
                rec.missing('JoinableQueue._unfinished_tasks')
                u = None
            if u is not None and u != unfinished:
                return bad('unfinished_count_disagrees_with_model', op='state',
                           unfinished_by_semaphore=u)
        if r.random() < 0.2:
            try:
                f, n = q.full(), q.qsize()
            except Exception as exc:
                return bad('queue_operation_raised', op='full/qsize', error=repr(exc))
            if (maxsize and f != (len(model) >= cap)) or n != len(model):
                rec.anomaly('qsize_or_full_disagrees_with_model', full=f, qsize=n,
                            waiting_model=len(model), maxsize=maxsize)
        return True

    def wait_readable():
        t_end = time.monotonic() + 30
        while time.monotonic() < t_end:
            if not q.empty():
                return True
            time.sleep(0.0002)
        return False

    ok = True
    try:
        for step in range(ops):
            if step % 40 == 0:
                bias = r.choice([0.25, 0.5, 0.75, 0.9])
            x = r.random()
            full = len(model) >= cap
            rec.count('seq_ops')
            if joinable and x < 0.12:
                hist.append(('task_done', unfinished))
                try:
                    q.task_done()
                    if unfinished == 0:
                        ok = bad('surplus_task_done_accepted', op='task_done')
                    else:
                        unfinished -= 1
                        rec.count('task_done')
                except ValueError:
                    if unfinished > 0:
                        ok = bad('task_done_refused_for_delivered_item', op='task_done')
                    else:
                        rec.count('surplus_task_done_refused')
            elif joinable and x < 0.15 and unfinished == 0:
                hist.append(('join', 0))
                t, box = _bounded_thread(q.join, 20)
                if t.is_alive():
                    bad('join_not_returning', op='join', symptom='nothing_unfinished')
                    return 'hang'
                if 'exc' in box:
                    ok = bad('queue_operation_raised', op='join', error=box['tb'])
                rec.count('join_returns_checked')
            elif full and maxsize and x < 0.22:
                # a blocking put on a full queue must wait for a get
                style = r.choice(['block', 'timed'])
                it = new_item()
                hist.append(('blocked_put', style, it[1]))
                fn = (lambda: q.put(it)) if style == 'block' else (lambda: q.put(it, True, 60))
                t, box = _bounded_thread(fn, r.choice([0.002, 0.005, 0.015]))
                if not t.is_alive():
                    if 'exc' in box:
                        ok = bad('queue_operation_raised', op='put', error=box['tb'])
                    else:
                        ok = bad('put_accepted_beyond_capacity', op='put_' + style)
                        model.append((0, it[1]))
                        unfinished += 1
                else:
                    got = q.get()
                    ok = check_got(got, 'get') and ok
                    t.join(25)
                    if t.is_alive():
                        bad('blocked_put_not_released', op='put_' + style)
                        return 'hang'
                    if 'exc' in box:
                        ok = bad('queue_operation_raised', op='put', error=box['tb'])
                    else:
                        model.append((0, it[1]))
                        unfinished += 1
                        rec.count('seq_blocked_put')
            elif x < 0.15 + 0.85 * bias:
                # put
                style = r.choice(['nowait', 'nowait', 'timed', 'block'])
                if style == 'block' and full:
                    style = 'timed'
                tmo = r.choice([0, 0.0005, 0.002, 0.01])
                it = new_item()
                hist.append(('put', style, it[1], len(model)))
                t0 = NOW()
                try:
                    if style == 'nowait':
                        q.put_nowait(it) if r.random() < 0.5 else q.put(it, False)
                    elif style == 'timed':
                        q.put(it, True, tmo)
                    else:
                        q.put(it)
                    if full:
                        ok = bad('put_accepted_beyond_capacity', op='put_' + style)
                    model.append((0, it[1]))
                    unfinished += 1
                    st['put'] += 1
                except Full:
                    rec.count('seq_full')
                    st['full'] += 1
                    if not full:
                        ok = bad('full_below_capacity', op='put_' + style)
            else:
                # get
                style = r.choice(['nowait', 'timed_short', 'timed_long', 'block'])
                hist.append(('get', style, len(model)))
                if model:
                    try:
                        if style == 'block':
                            got = q.get()
                        elif style == 'timed_long':
                            got = q.get(True, 30)
                        elif style == 'nowait':
                            if not wait_readable():
                                bad('put_item_not_gettable', op='get_nowait', waited_s=30)
                                return 'hang'
                            got = q.get_nowait() if r.random() < 0.5 else q.get(False)
                        else:
                            tmo = r.choice([0.0005, 0.002, 0.01])
                            t0 = NOW()
                            try:
                                got = q.get(True, tmo)
                            except Empty:
                                # legal while the feeder has not written it yet
                                el = NOW() - t0
                                if el < tmo * 1e9 - GRAN_NS:
                                    ok = bad('empty_before_timeout', op='get_timed',
                                             timeout_ns=int(tmo * 1e9), elapsed_ns=el)
                                st['empty_inflight'] += 1
                                got = None
                        if got is not None:
                            ok = check_got(got, 'get_' + style) and ok
                            st['get'] += 1
                    except Empty:
                        if style == 'timed_long':
                            bad('put_item_not_gettable', op='get_timed', waited_s=30)
                            return 'hang'
                        # poll() said readable, nobody competes: odd, but the
                        # property does not forbid it; fetch the item blocking
                        rec.anomaly('empty_on_readable_queue', style=style)
                        ok = check_got(q.get(), 'get_block') and ok
                else:
                    tmo = 0 if style in ('nowait', 'block') else r.choice([0, 0.0005, 0.002, 0.01, 0.03])
                    t0 = NOW()
                    try:
                        if style in ('nowait', 'block'):
                            got = q.get_nowait() if r.random() < 0.5 else q.get(False)
                        else:
                            got = q.get(True, tmo)
                        ok = bad('get_from_empty_queue', op='get_' + style,
                                 got=check_item(seed, got)[:3])
                    except Empty:
                        el = NOW() - t0
                        rec.count('seq_empty')
                        st['empty'] += 1
                        if tmo:
                            rec.count('empty_timed')
                        if el < tmo * 1e9 - GRAN_NS:
                            ok = bad('empty_before_timeout', op='get_timed',
                                     timeout_ns=int(tmo * 1e9), elapsed_ns=el)
            if ok:
                ok = check_state()
            if not ok:
                break
        # drain
        if ok:
            while model:
                ok = check_got(q.get(), 'drain')
                if not ok:
                    break
            if ok:
                ok = check_state()
            if ok and joinable:
                for _ in range(unfinished):
                    q.task_done()
                    rec.count('task_done')
                unfinished = 0
                try:
                    q.task_done()
                    bad('surplus_task_done_accepted', op='task_done')
                except ValueError:
                    rec.count('surplus_task_done_refused')
    except Exception as exc:
        bad('queue_operation_raised', op='script', error=traceback.format_exc()[-1500:])
    finally:
        try:
            q.close()
        except Exception:
            pass
    rec.case()
    rec.count('items_put', st['put'])
    rec.count('items_got', st['get'])

    def b(n):
        return 0 if n == 0 else (1 if n < 10 else (2 if n < 100 else 3))
    if st['full'] or st['empty']:
        rec.sig(['cap', qkind, min(maxsize, 3), sizes, b(st['full']), b(st['empty']),
                 b(st['empty_inflight'])])
    rec.sample({'mode': 'cap', 'qkind': qkind, 'maxsize': maxsize, 'sizes': sizes,
                'observed': dict(st), 'last_ops': list(hist)[-6:]})
    return 'ok'


# --------------------------------------------------------------------------
# join: stepwise task_done with several joiners
# --------------------------------------------------------------------------

def run_join(rec, r, seed, wd):
    import billiard
    os.makedirs(wd)
    prog = Progress(os.path.join(wd, 'prog.bin'), create=True)
    ctx = billiard.get_context('fork')
    n = r.randint(1, 12)
    maxsize = r.choice([0, 0, n, n + 3])
    q = ctx.JoinableQueue(maxsize)
    hows = [r.choice(['thread', 'thread', 'proc']) for _ in range(r.randint(1, 4))]
    attrs = {'mode': 'join', 'qkind': 'JoinableQueue', 'bounded': bool(maxsize)}
    cfg = {'seed': seed, 'qkind': 'JoinableQueue', 'joiners': hows}
    brief = {'items': n, 'maxsize': maxsize, 'joiners': hows}
    V = rec.violation
    base = make_base(seed, 0)
    for seq in range(n):
        q.put(make_item(seed, 0, seq, r.choice([0, 10, 300, 5000]), base))
    getter = r.choice(['before', 'interleaved'])
    got = 0
    if getter == 'before':
        for _ in range(n):
            q.get()
            got += 1
    joins = [Party(ctx, 'join', k, h, q, cfg, wd, prog, k) for k, h in enumerate(hows)]
    hang = False
    td_calls = []
    try:
        for p in joins:
            if p.how != 'thread':
                p.start()
        for p in joins:
            if p.how == 'thread':
                p.start()
        prog.go()
        time.sleep(r.choice([0.0, 0.002, 0.01, 0.03]))
        early = None
        for i in range(n):
            if got <= i:
                q.get()
                got += 1
            time.sleep(r.choice([0, 0, 0.0005, 0.002, 0.006]))
            done_now = [p.k for p in joins if prog.is_done(p.slot)]
            if done_now and early is None:
                early = (i, done_now)
            td_calls.append(NOW())
            q.task_done()
            rec.count('join_steps')
            rec.count('task_done')
        if early:
            V('join_returned_early', attrs, task_done_called=early[0], puts=n,
              joiners_back=early[1], scenario=brief)
        w = Waiter(prog, joins)
        if not w.wait(lambda: all(prog.is_done(p.slot) or not p.alive() for p in joins)):
            hang = True
            back = [p.k for p in joins if prog.is_done(p.slot)]
            V('join_not_returning', dict(attrs, symptom='all_tasks_done'),
              joiners=len(joins), returned=back, stall_s=STALL_S, scenario=brief)
            prog.abort()
        try:
            q.task_done()
            V('surplus_task_done_accepted', attrs, scenario=brief)
        except ValueError:
            rec.count('surplus_task_done_refused')
    finally:
        for p in joins:
            if hang:
                p.kill()
            else:
                p.reap()
    for p in joins:
        for ln in p.lines():
            f = ln.split(' ')
            if f[0] == 'J':
                rec.count('join_returns_checked')
                if int(f[2]) < td_calls[-1] and not early:
                    V('join_returned_early', attrs, join_returned_ns=int(f[2]),
                      last_task_done_called_ns=td_calls[-1], puts=n, joiner=p.k, scenario=brief)
            elif f[0] == 'X':
                V('queue_operation_raised', dict(attrs, op='join'), error=ln[2:1500], scenario=brief)
    try:
        q.close()
    except Exception:
        pass
    rec.case()
    nt = hows.count('thread')
    if len(hows) >= 2:
        rec.sig(['join', nt, len(hows) - nt, min(n, 3), int(bool(maxsize)), getter])
    rec.sample({'mode': 'join', 'scenario': brief, 'getter': getter,
                'observed': {'joiners_returned': sum(1 for p in joins if prog.is_done(p.slot))}})
    return not hang


# --------------------------------------------------------------------------
# empty: timed get on an empty queue, free / behind a blocked reader
# --------------------------------------------------------------------------

def run_empty(rec, r, seed, wd):
    import billiard
    os.makedirs(wd)
    prog = Progress(os.path.join(wd, 'prog.bin'), create=True)
    ctx = billiard.get_context('fork')
    qkind = r.choice(['Queue', 'JoinableQueue'])
    maxsize = r.choice([0, 1, 3])
    q = getattr(ctx, qkind)(maxsize)
    variant = r.choice(['free', 'blocked_thread', 'blocked_thread', 'blocked_proc'])
    attrs = {'mode': 'empty', 'qkind': qkind, 'bounded': bool(maxsize)}
    V = rec.violation
    cfg = {'seed': seed, 'qkind': qkind,
           'consumers': [{'style': 'block', 'how': 'x'}]}
    base = make_base(seed, 0)
    # use the queue a little first
    for seq in range(r.randint(0, 3)):
        q.put(make_item(seed, 0, 1000 + seq, 50, base))
        q.get()
        if qkind == 'JoinableQueue':
            q.task_done()
    blocker = None
    if variant != 'free':
        blocker = Party(ctx, 'cons', 0, 'thread' if variant == 'blocked_thread' else 'proc',
                        q, cfg, wd, prog, 0)
        blocker.start()
        time.sleep(0.05)       # let it enter get() and take the reader lock
    brief = {'variant': variant, 'maxsize': maxsize}
    tmos = r.sample([0.0005, 0.001, 0.003, 0.007, 0.0155, 0.03, 0.0625, 0.1, 0.2, 0.3],
                    r.randint(4, 7)) + [0]
    hang = False
    try:
        for tmo in tmos:
            t0 = NOW()
            try:
                if tmo == 0 and r.random() < 0.5:
                    got = q.get_nowait()
                else:
                    got = q.get(True, tmo)
                V('get_from_empty_queue', dict(attrs, op='get_timed'),
                  got=check_item(seed, got)[:3], scenario=brief)
            except Empty:
                el = NOW() - t0
                rec.count('empty_timed' if tmo else 'empty_nowait')
                rec.count('seq_empty')
                if blocker is not None:
                    rec.count('empty_contended')
                if el < tmo * 1e9 - GRAN_NS:
                    V('empty_before_timeout', dict(attrs, contended=blocker is not None),
                      timeout_ns=int(tmo * 1e9), elapsed_ns=el, scenario=brief)
                    break
            except Exception:
                V('queue_operation_raised', dict(attrs, op='get'),
                  error=traceback.format_exc()[-1500:], scenario=brief)
                break
        # release the blocked reader with a sentinel / fetch one item ourselves
        q.put((-1, 0, 'S', 0, 0, b''))
        if blocker is not None:
            w = Waiter(prog, [blocker])
            if not w.wait(lambda: prog.is_done(0) or not blocker.alive()):
                hang = True
                V('transfer_stalled', dict(attrs, symptom='consumers_starved'),
                  phase='blocked reader never received the item', scenario=brief)
            else:
                g = [ln for ln in blocker.lines() if ln.startswith('G ')]
                if len(g) != 1 or g[0].split(' ')[3] != '-1':
                    V('lost_item', attrs, blocker_log=blocker.lines()[:5], scenario=brief)
                rec.count('items_got')
        else:
            try:
                got = q.get(True, 30)
                rec.count('items_got')
                if check_item(seed, got)[0] != -1:
                    V('phantom_item', attrs, got=check_item(seed, got)[:3], scenario=brief)
            except Empty:
                hang = True
                V('put_item_not_gettable', dict(attrs, op='get_timed'), waited_s=30, scenario=brief)
        rec.count('items_put')
    finally:
        if blocker is not None:
            if hang:
                prog.abort()
                blocker.kill()
            else:
                blocker.reap()
        try:
            q.close()
        except Exception:
            pass
    rec.case()
    rec.sig(['empty', qkind, variant, min(maxsize, 2)])
    rec.sample({'mode': 'empty', 'scenario': brief, 'timeouts': tmos})
    return not hang


# --------------------------------------------------------------------------
# lines: a pause before each single statement of the queue methods, in turn
# --------------------------------------------------------------------------

def gen_lines(r, seed, cls, fn, idx):
    qkind = cls if cls == 'JoinableQueue' else r.choice(['Queue', 'JoinableQueue'])
    maxsize = r.choice([0, 2, 3])
    producers = [{'n': r.randint(25, 40), 'style': r.choice(['block', 'timed']),
                  'sizes': 'small', 'timeout': 0.05, 'pace': 0.0, 'how': 'thread'}
                 for _ in range(2)]
    consumers = [{'style': st, 'timeout': 0.05, 'stall': 0.0, 'stall_p': 0.0, 'how': 'thread'}
                 for st in ('block', r.choice(['timed', 'any', 'block']))]
    cfg = {'seed': seed, 'qkind': qkind, 'method': 'fork', 'flavour': 'thread',
           'maxsize': maxsize, 'sizes': 'small', 'producers': producers,
           'consumers': consumers, 'inject': 'line', 'inject_target': [cls, fn, idx],
           'preput': 0, 'joiners': ['thread'] if qkind == 'JoinableQueue' else []}
    producers.append({'n': 0, 'style': 'block', 'sizes': 'small', 'how': 'parent'})
    return cfg


def run_lines(spec, rec, r, root):
    from billiard import queues as bq
    targets = []
    for cls, fn in INJ_FUNCS:
        f = getattr(bq, cls, None)
        f = f.__dict__.get(fn) if f is not None else None
        if f is None:
            rec.missing('%s.%s' % (cls, fn))
            continue
        for idx in range(len(code_lines(f.__code__))):
            targets.append((cls, fn, idx))
    mine = [t for i, t in enumerate(targets) if i % spec['parts'] == spec['part']]
    for i, (cls, fn, idx) in enumerate(mine):
        cfg = gen_lines(r, spec['seed'] * 100 + i, cls, fn, idx)
        rec.count('line_targets')
        if not run_xfer(rec, cfg, os.path.join(root, 'l%d' % i)):
            rec.flush()
            return
        rec.flush()


# --------------------------------------------------------------------------

def run_spec(spec, rec):
    import gc
    import billiard.queues      # noqa: everything imported before the first fork
    import billiard.synchronize  # noqa
    gc.collect()
    gc.freeze()                 # keeps forked children from copying the whole heap
    mode, seed = spec['mode'], spec['seed']
    r = rng_for(seed, mode)
    root = os.environ.get('VERIF_WORKDIR') or '/tmp'
    if mode == 'cap':
        for i in range(spec['scripts']):
            if run_cap(rec, r, seed * 100 + i, spec['ops']) == 'hang':
                rec.flush()
                return
    elif mode == 'xfer':
        for i in range(spec['scenarios']):
            cfg = gen_xfer(r, spec['flavour'], spec['scale'], seed * 100 + i)
            if not run_xfer(rec, cfg, os.path.join(root, 'x%d' % i)):
                rec.flush()
                return          # threads may be stuck for good: stop this spec
            rec.flush()
    elif mode == 'lines':
        run_lines(spec, rec, r, root)
    elif mode == 'join':
        for i in range(spec['scenarios']):
            if not run_join(rec, r, seed * 100 + i, os.path.join(root, 'j%d' % i)):
                rec.flush()
                return
    elif mode == 'empty':
        for i in range(spec['scenarios']):
            if not run_empty(rec, r, seed * 100 + i, os.path.join(root, 'e%d' % i)):
                rec.flush()
                return
