"""C01 - every submitted job resolves exactly once, with its own outcome.
Lane SIM (real parent-side pool code, scripted workers, virtual clock, seeded
scheduler): expected-effects model around every parent step + provenance over
unique job tags + stability sampling + callback counts + quiescence checks;
job kinds apply / map / imap / imap_unordered, unsendable tasks, input iterables
that raise after k items, discards, terminate_job, duplicates of old messages.
Lane REAL (vmon.real): the same job mixes on real pools with real worker
deaths, time limits and unpicklable arguments.  Every third REAL scenario runs with schedule perturbation of the host's pool threads (vmon/chaos.py)."""
from vmon import simcheck

PROPERTY = 'C01'
LEVEL = 'exploration'
TECHNIQUE = 'runtime monitoring: seeded schedules of the real pool code (scripted workers, virtual clock) checked by a provenance/expected-effects oracle; real-pool fault scenarios'
RULE = ('SIM: one case = one seeded history of 40-150 scheduler steps + drain over the alphabet '
        '{submit apply/map/imap/imap_unordered (direct, via task handler, unpicklable), worker take/ack/ready/die/recycle, '
        'parent result/supervise/scan steps, clock advances, duplicate or unknown-job messages, discard, terminate_job}; '
        'signature = (profile, pool size, quota?, putlocks?, bucketed counts of every event kind observed); '
        'non-trivial = at least one job resolved AND at least one of {worker death with an accepted job, duplicate/unknown '
        'message processed, failed send, time limit expiry, terminate_job}')
ASSUMPTIONS = [
    'worker scripts follow the grammar of real workers (ACK then READY per job, death only idle or after ACK) - the C01 precondition',
    'SIM explores the event-loop mode (threads=False) where parent actions are serial; thread-vs-thread races of threads=True pools are sampled in the REAL lane only',
]
JOBS = 14
SPEC_TIMEOUT = 900
CONFIRM_ALONE = ('pool_hung', 'job_never_resolved', 'loss_never_reported',
                 'join_hung_after_worker_death', 'pool_hung_after_worker_death')
FLOORS = {
    'quick': {'sim:ready_processed': 3000, 'sim:ack_processed': 4000, 'sim:loss_marks': 200,
              'sim:dup_messages': 150, 'sim:unknown_job_messages': 50, 'sim:put_failures': 40,
              'sim:hard_expiries': 20, 'sim:discards': 30, 'sim:terminate_job': 20,
              'sim:quiescence_checks': 300, 'sim:submit_map': 200, 'sim:submit_imap': 100,
              'sim:submit_imap_u': 100},
    'thorough': {'sim:ready_processed': 30000, 'sim:loss_marks': 2000, 'sim:dup_messages': 1500,
                 'sim:put_failures': 400, 'sim:hard_expiries': 200, 'sim:quiescence_checks': 3000},
}


def nontrivial(sim):
    st = sim.stats
    resolved = any(j.obs is not None or j.finished for j in sim.jobs.values())
    return resolved and any(st.get(k) for k in (
        'loss_marks', 'dup_messages', 'unknown_job_messages', 'put_failures',
        'hard_expiries', 'terminate_job'))


def plan(tier, seed):
    per, hist = (3, 70) if tier == 'quick' else (14, 450)
    specs = simcheck.sim_specs(['c01', 'c01', 'c04', 'c05', 'c09', 'c10'], seed, per, hist)
    specs += [{'lane': 'real', 'after_close': True, 'timeout': 120, 'params': {
        'nproc': n, 'how': how, 'T_job': T, 'T': 2.0, 'delay': 1.0, 'others': 0 if n == 1 else 2}}
        for (n, how, T) in ([(1, 'sig:9', 1.0)] if tier == 'quick' else
                            [(1, 'sig:9', 1.0), (2, 'exit:1', 0.5), (1, 'exit:70', 2.0)])]
    try:
        from vmon import real_c01
        specs += real_c01.plan(tier, seed)
    except ImportError:
        pass
    return specs


def run_spec(spec, rec):
    if spec.get('lane') == 'sim':
        return simcheck.run_sim_spec(spec, rec, PROPERTY, nontrivial)
    if spec.get('after_close'):
        # a worker dies after close(): the job must still reach its (pool-made)
        # outcome through the result handler's shutdown loop (scenario shared with C04)
        from vmon import real_c04
        return real_c04.run_after_close(spec, rec)
    from vmon import real_c01
    return real_c01.run_spec(spec, rec)
