"""C10 - slot semaphore is bounded, conserved and never leaked.
Lane L0: the real LaxBoundedSemaphore against a counter-with-cap model after
every operation of seeded sequences; multi-threaded stress with the bound
checked under the semaphore's own lock, no lost wake-up, conservation;
shrink() while every slot is taken (nobody is served until a slot comes back).
Lane SIM: put-lock pools - value within bounds after every step, exact
conservation (value == size - in flight) in slot-governed histories without
worker exits, never more than `size` in flight, all slots free at quiescence
after deaths / recycles / time-limit kills / failed sends / grow / shrink;
success callbacks raising an exception listed in callbacks_propagate.
Lane REAL (vmon.real_c10): a blocked submitter thread on a real pool.  Pools built without put-locks whose callers pass waitforslot=True (SIM, with grow/shrink); close() with more producers blocked in apply_async than there are slots (REAL)."""
from vmon import simcheck, l0_small

PROPERTY = 'C10'
LEVEL = 'exploration'
TECHNIQUE = 'runtime monitoring: reference-model comparison of the real semaphore after every operation + conservation oracle over seeded pool histories'
RULE = ('L0: one case = one seeded operation sequence (acquire/timed acquire/release/grow/shrink/clear) or one multi-thread round; '
        'SIM: one case = one seeded put-lock history; non-trivial = release at the cap, grow and shrink all occurred (L0) / at least '
        'one submission skipped because no slot was free or one worker exit happened (SIM)')
ASSUMPTIONS = ['apply_async blocking is observed in SIM as "semaphore value is 0 and a non-blocking acquire fails"; real blocking is in the REAL lane']
JOBS = 14
SPEC_TIMEOUT = 900
CONFIRM_ALONE = ('putlock_pool_hung', 'blocked_submitter_never_released',
                 'blocked_acquirer_woken_only_by_its_timeout')
FLOORS = {
    'quick': {'l0:sem_ops': 100000, 'l0:release_at_cap': 500, 'l0:sem_mt_acquires': 4000, 'l0:wakeups_grow': 1, 'l0:wakeups_release': 1, 'l0:shrink_while_full': 1, 'l0:cap_race_rounds': 200,
              'sim:propagated_callback_errors': 30,
              'l0:yield_injections': 1000,
              'sim:sem_reads': 15000, 'sim:submit_skipped_no_slot': 1000, 'sim:quiescence_checks': 300,
              'sim:grow': 20, 'sim:shrink': 10},
    'thorough': {'l0:sem_ops': 1000000, 'sim:sem_reads': 200000, 'sim:submit_skipped_no_slot': 3000},
}


def nontrivial(sim):
    return bool(sim.stats.get('submit_skipped_no_slot') or sim.had_exit)


def plan(tier, seed):
    q = tier == 'quick'
    specs = [{'lane': 'l0seq', 'seed': seed * 1000 + i, 'cases': 400 if q else 2500}
             for i in range(4 if q else 8)]
    specs += [{'lane': 'l0mt', 'seed': seed * 1000 + 50 + i, 'cases': 6 if q else 30}
              for i in range(4 if q else 8)]
    specs += [{'lane': 'l0race', 'seed': seed * 1000 + 90 + i, 'cases': 150 if q else 600}
              for i in range(2 if q else 6)]
    specs += [{'lane': 'l0wake', 'seed': seed * 1000 + 80 + i, 'cases': 10 if q else 40}
              for i in range(2 if q else 6)]
    per, hist = (3, 70) if q else (10, 220)
    specs += simcheck.sim_specs(['c10', 'c10', 'c01'], seed, per, hist, base=100000)
    try:
        from vmon import real_c10
        specs += real_c10.plan(tier, seed)
    except ImportError:
        pass
    return specs


def run_spec(spec, rec):
    if spec['lane'] == 'sim':
        return simcheck.run_sim_spec(spec, rec, PROPERTY, nontrivial)
    if spec['lane'] == 'l0seq':
        return l0_small.c10_sequential(spec, rec)
    if spec['lane'] == 'l0mt':
        return l0_small.c10_threads(spec, rec)
    if spec['lane'] == 'l0race':
        return l0_small.c10_cap_race(spec, rec)
    if spec['lane'] == 'l0wake':
        return l0_small.c10_wakeups(spec, rec)
    from vmon import real_c10
    return real_c10.run_spec(spec, rec)
