"""C05 - hard time limit: job fails, its worker is really gone, pool stays
usable.  Lane SIM: scan decisions against accept time + effective limit in
virtual time (per-job over pool default, map/imap never timed out, result
just before / after the scan), TERM-then-KILL recorded per pid.  Lane REAL
(vmon.real_c05): real pools of every size incl. 1, tasks that ignore TERM,
probes submitted afterwards, host process must survive; a job finishing in time
whose slow result callback is still running when the limit's instant passes.  Jobs waiting in the queue behind the job that runs out of time (warm workers, a task that turns the interruption into its own exception) are served by the replacement."""
from vmon import simcheck

PROPERTY = 'C05'
LEVEL = 'exploration'
TECHNIQUE = 'runtime monitoring: virtual-time scan schedules of the real TimeoutHandler with a signal recorder + real pools with over-limit tasks; oracle = limit-precedence/expiry model, /proc existence, probe jobs'
RULE = ('SIM: one case = one seeded history from the limit-heavy profiles (pool/job hard and soft limits in {None,1,2,4,30}, clock steps '
        'around the limits, map/imap sharing the pool); non-trivial = at least one hard limit expired. REAL: one case = one scenario '
        '(pool size, pool limit, job limit, task behaviour)')
ASSUMPTIONS = ['SIM: stub workers obey or ignore TERM by script; real signal delivery is covered by the REAL lane only']
JOBS = 14
SPEC_TIMEOUT = 900
CONFIRM_ALONE = ('over_limit_job_not_failed_with_time_limit', 'time_limit_fired_late',
                 'worker_alive_after_hard_limit', 'later_job_not_served',
                 'pool_hung_after_hard_limit', 'map_or_imap_job_timed_out_or_broken')
FLOORS = {
    'quick': {'sim:hard_expiries': 150, 'sim:scans': 3000, 'sim:exit:KILL': 20, 'sim:exit:TERM': 40,
              'sim:submit_map': 50, 'sim:submit_imap': 30,
              'real:scenarios': 10, 'real:over_limit_jobs': 4, 'real:in_limit_jobs': 3,
              'real:victims_gone': 3, 'real:sibling_jobs': 6},
    'thorough': {'sim:hard_expiries': 1500, 'sim:scans': 30000},
}


def nontrivial(sim):
    return bool(sim.stats.get('hard_expiries'))


def plan(tier, seed):
    per, hist = (4, 70) if tier == 'quick' else (12, 220)
    specs = simcheck.sim_specs(['c05', 'c05', 'c01'], seed, per, hist, base=50000)
    try:
        from vmon import real_c05
        specs += real_c05.plan(tier, seed)
    except ImportError:
        pass
    return specs


def run_spec(spec, rec):
    if spec.get('lane') == 'sim':
        return simcheck.run_sim_spec(spec, rec, PROPERTY, nontrivial)
    from vmon import real_c05
    return real_c05.run_spec(spec, rec)
