"""C15 - shared ctypes values are isolated, initialised, visible and atomic.

Lanes L0 + child processes, all on the real billiard.sharedctypes / heap /
synchronize code:

* init / init_mt - seeded create / dirty / drop histories on the process-global
  heap (every type code, a set of ctypes types, structures, nested arrays,
  lengths 0..4096, Raw*/Value/Array/copy, all lock options).  Every live object
  is filled with a unique all-non-zero byte pattern, so storage that is
  recycled is *dirty*.  Oracles: the new object equals a private ctypes object
  built by ctypes from the same arguments (value through the interface and
  significant raw bytes); [addressof, addressof+sizeof) ranges of live objects
  are pairwise disjoint; content shadow (nobody's pattern changes when another
  object is created, written or dropped).
* vis - fork / spawn / forkserver carriers: objects handed to 1-3 children at
  start; parent and children take turns writing through the interface, all
  other parties read (interface + raw bytes) and the parent compares with the
  reference model; bystander objects never handed over keep their patterns;
  objects created *after* the start in parent and child do not share storage;
  exclusion probes: while the parent holds an object's lock, a child's accessor
  call must not complete (CLOCK_MONOTONIC stamps) nor change the value.
* atomic - 2-12 processes x locked read-modify-write sequences on a Value, on
  array elements, a structure field and a Value with a user-supplied Lock;
  final == initial + sum of the sequences the updaters report.  An unlocked
  control run shows the workload really contends (lost updates expected
  there, reported as evidence only).
* fork_held - a process forked while the forking thread holds the object's lock (default lock, RLock or Lock given by the caller): the child's non-blocking attempt fails, nothing it does under the lock happens before the parent lets go, no locked update of either is lost.
"""
import bisect
import collections
import ctypes
import os
import sys
import threading
import time
import traceback

from vmon.core import rng_for
from vmon import c15_helpers as H

PROPERTY = 'C15'
LEVEL = 'exploration'
TECHNIQUE = ('reference model (private ctypes twin), address-range disjointness, '
             'content shadow on dirtied recycled storage, cross-process '
             'read-back, lock-exclusion stamps, conservation of increments')
RULE = ('init: a case is one seeded create/dirty/drop history on the global shared heap; '
        'signature = (mode, drop policy, size class, bucketed counts of objects created on '
        'recycled dirty storage by initialiser kind none/partial/full, type classes seen); '
        'non-trivial when at least one zero-initialised object was created on recycled dirty storage. '
        'vis: a case is one session (carrier, children, rounds); signature = (carrier, children, '
        'writer sequence shape, probes run, objects in later arenas); non-trivial when both directions '
        'of visibility and at least one blocked accessor were observed. '
        'atomic: a case is one contended run; signature = (carrier, processes, iteration bucket, '
        'counter types, locked/control, whether the control lost updates)')
ASSUMPTIONS = [
    'ctypes itself is trusted: the reference for an initial value is a private ctypes object built from the same arguments',
    'structure padding and the unused tail of an x87 long double are not part of the value (masked out of byte comparisons)',
    'arrays whose elements are themselves ctypes arrays are exercised in-process only (their element type cannot be pickled by name, so no spawn carrier can carry them)',
    'the parent keeps its reference while children use an object (freeing in the owner while a child still maps it is outside the statement)',
    'interleavings of concurrent updaters are sampled on 16 shared cores, not enumerated',
    'lock-exclusion is judged only with lower bounds on time (an accessor must not finish before the holder released)',
]
FLOORS = {
    'quick': {
        'objects_created': 8000, 'created_on_recycled_dirty': 7000,
        'zero_init_on_recycled_dirty': 3000, 'partial_init_on_recycled_dirty': 300,
        'full_init_on_recycled_dirty': 3000, 'overlap_checks': 8000,
        'heap_free_observed': 8000, 'pattern_checks': 30000, 'api_writes': 600,
        'zero_length_objects': 150, 'wrapper_dropped_raw_kept': 150,
        'mt_histories': 2,
        'vis_child_saw_parent_write': 300, 'vis_parent_saw_child_write': 300,
        'vis_sibling_saw_child_write': 250, 'vis_rebuilt_nonzero_offset': 100,
        'vis_obj_in_later_arena': 25,
        'vis_sessions_spawn': 5, 'vis_sessions_forkserver': 5, 'vis_sessions_fork': 5,
        'probe_blocked_observed': 160, 'alloc_after_start_objects': 700,
        'locked_rmw': 30000, 'atomic_runs': 12, 'control_runs_with_lost_updates': 3,
    },
    'thorough': {
        'objects_created': 95000, 'created_on_recycled_dirty': 90000,
        'zero_init_on_recycled_dirty': 40000, 'partial_init_on_recycled_dirty': 4000,
        'full_init_on_recycled_dirty': 45000, 'overlap_checks': 95000,
        'heap_free_observed': 95000, 'pattern_checks': 450000, 'api_writes': 9000,
        'zero_length_objects': 3000, 'wrapper_dropped_raw_kept': 3000,
        'mt_histories': 9,
        'vis_child_saw_parent_write': 4000, 'vis_parent_saw_child_write': 4000,
        'vis_sibling_saw_child_write': 4000, 'vis_rebuilt_nonzero_offset': 550,
        'vis_obj_in_later_arena': 110,
        'vis_sessions_spawn': 24, 'vis_sessions_forkserver': 24, 'vis_sessions_fork': 24,
        'probe_blocked_observed': 800, 'alloc_after_start_objects': 3500,
        'locked_rmw': 500000, 'atomic_runs': 28, 'control_runs_with_lost_updates': 6,
    },
}
JOBS = 14
SPEC_TIMEOUT = 420
# a child that does not answer within REPLY_TIMEOUT is a wall-clock upper
# bound: confirmed alone before it is reported
CONFIRM_ALONE = ('child_unresponsive',)
REPLY_TIMEOUT = 120
CARRIERS = ('fork', 'spawn', 'forkserver')


def plan(tier, seed):
    q = tier == 'quick'
    specs = []
    for i in range(6 if q else 18):
        specs.append({'mode': 'init', 'seed': seed * 1000 + i,
                      'histories': 4 if q else 8, 'ops': 1500 if q else 3500})
    for i in range(2 if q else 6):
        specs.append({'mode': 'init_mt', 'seed': seed * 1000 + 50 + i,
                      'threads': 2 + (i + seed) % 4, 'histories': 2 if q else 3,
                      'ops': 800 if q else 2500})
    for ci, c in enumerate(CARRIERS):
        for i in range(3 if q else 6):
            specs.append({'mode': 'vis', 'carrier': c,
                          'seed': seed * 1000 + 100 + 20 * ci + i,
                          'sessions': 3 if q else 8,
                          'rounds': 6 if q else 12})
    for i in range(1 if q else 3):
        specs.append({'mode': 'fork_held', 'seed': seed * 1000 + 400 + i, 'timeout': 150,
                      'iters': 3000 if q else 20000})
    for ci, c in enumerate(CARRIERS):
        for i in range(3 if q else 7):
            nprocs = [2, 4, 8, 12, 3, 6, 5, 10, 7, 9][(i + seed + ci) % 10]
            if q:
                iters = [4000, 1500, 600, 200][(i + ci) % 4]
            else:
                iters = [20000, 8000, 3000, 1000, 200][(i + ci) % 5]
            specs.append({'mode': 'atomic', 'carrier': c,
                          'seed': seed * 1000 + 200 + 20 * ci + i,
                          'nprocs': nprocs, 'iters': iters,
                          'control': i % 2 == 0 or nprocs >= 8})
    return specs


# --------------------------------------------------------------------------
# bookkeeping shared by the in-process histories
# --------------------------------------------------------------------------

class Intervals:
    """disjoint half-open intervals (addresses of storage that was dirtied by
    a dropped object and not yet handed out again)"""
    def __init__(self):
        self.iv = []

    def add(self, s, e):
        if e <= s:
            return
        self.remove(s, e)
        i = bisect.bisect_left(self.iv, (s, e))
        self.iv.insert(i, (s, e))

    def overlap(self, s, e):
        """number of bytes of [s, e) inside the set"""
        n = 0
        i = bisect.bisect_left(self.iv, (s, s))
        if i:
            i -= 1
        while i < len(self.iv) and self.iv[i][0] < e:
            a, b = self.iv[i]
            n += max(0, min(b, e) - max(a, s))
            i += 1
        return n

    def remove(self, s, e):
        if e <= s:
            return
        i = bisect.bisect_left(self.iv, (s, s))
        if i:
            i -= 1
        out = []
        j = i
        while j < len(self.iv) and self.iv[j][0] < e:
            a, b = self.iv[j]
            if b > s:
                if a < s:
                    out.append((a, s))
                if b > e:
                    out.append((e, b))
            else:
                out.append((a, b))
            j += 1
        self.iv[i:j] = out


class Registry:
    """address ranges of live shared objects (harness-side truth)"""
    def __init__(self):
        self.lock = threading.Lock()
        self.live = []                # sorted (addr, end, eid)
        self.dirty = Intervals()

    def add(self, addr, size, eid):
        """returns (overlapping live ranges, bytes of recycled dirty storage)"""
        with self.lock:
            end = addr + size
            bad = []
            i = bisect.bisect_left(self.live, (addr, 0, 0))
            if i > 0 and self.live[i - 1][1] > addr:
                bad.append(self.live[i - 1])
            j = i
            while j < len(self.live) and self.live[j][0] < end:
                bad.append(self.live[j])
                j += 1
            self.live.insert(i, (addr, end, eid))
            rec = self.dirty.overlap(addr, end)
            self.dirty.remove(addr, end)
            return bad, rec

    def remove(self, addr, size, eid, dirty=True):
        with self.lock:
            i = bisect.bisect_left(self.live, (addr, addr + size, eid))
            if i < len(self.live) and self.live[i] == (addr, addr + size, eid):
                del self.live[i]
            if dirty:
                self.dirty.add(addr, addr + size)

    def neighbours(self, addr, eid, k=2):
        with self.lock:
            i = bisect.bisect_left(self.live, (addr, 0, 0))
            out = self.live[max(0, i - k):i + k + 1]
        return [x[2] for x in out if x[2] != eid]


class Ent:
    __slots__ = ('top', 'raw', 'addr', 'size', 'pat', 'desc', 'eid')


def bucket(n):
    return 0 if n == 0 else (1 if n < 10 else (2 if n < 100 else (3 if n < 1000 else 4)))


def install_free_counter(rec, st):
    """count heap.free calls made by finalisers (evidence that dropping an
    object really recycles its storage); record + re-dispatch only"""
    try:
        from billiard import heap as bheap
        heap = bheap.BufferWrapper._heap
        orig = heap.free

        def free(block):
            st['heap_free'] += 1
            return orig(block)
        heap.free = free
    except AttributeError:
        rec.missing('BufferWrapper._heap.free')


def random_desc(rng, sizecls):
    r = rng.random()
    if r < 0.36:
        form = 'value'
    elif r < 0.64:
        form = 'array_n'
    elif r < 0.92:
        form = 'array_init'
    else:
        form = 'copy'
    if form == 'value':
        r2 = rng.random()
        key = rng.choice(H.SIMPLE_KEYS) if r2 < 0.5 else \
            (rng.choice(H.STRUCT_KEYS) if r2 < 0.8 else rng.choice(H.ARRAYVAL_KEYS))
    else:
        r2 = rng.random()
        key = rng.choice(H.SIMPLE_KEYS) if r2 < 0.72 else \
            (rng.choice(H.STRUCT_KEYS) if r2 < 0.92 else rng.choice(['int*4', 'Point*2']))
    n = 0
    if form != 'value':
        r3 = rng.random()
        if sizecls == 'tiny':
            n = rng.choice([0, 1, 1, 2, 3, 4])
        elif sizecls == 'small':
            n = rng.choice([0, 1, 2, 3, 5, 7, 8, 9, 16, 17, 31, 33, 64])
        elif sizecls == 'large':
            n = rng.choice([256, 511, 1000, 2048, 4095, 4096]) if r3 < 0.35 \
                else rng.randrange(0, 200)
        else:
            if r3 < 0.06:
                n = rng.choice([1024, 4096, 4095, 2000])
            elif r3 < 0.2:
                n = rng.randrange(64, 600)
            else:
                n = rng.randrange(0, 40)
        if form == 'array_init' and n > 512 and key not in H.SIMPLE_KEYS:
            n = rng.randrange(0, 512)
        if form == 'copy' and rng.random() < 0.4:
            n = 0                  # copy of a single value / structure
    init = 'none'
    if form == 'value':
        init = rng.choice(['none', 'none', 'full', 'partial'])
        if init == 'partial' and key in H.SIMPLE_KEYS:
            init = 'full'
    elif form in ('array_init', 'copy'):
        init = 'full'
    lock = rng.choice(['raw', 'raw', 'default', 'true', 'false', 'lock', 'rlock'])
    if form == 'copy':
        lock = 'raw'
    return {'t': key, 'form': form, 'n': n, 'init': init, 'lock': lock}


def vattrs(mode, desc, recycled=None):
    a = {'mode': mode, 'form': desc['form'], 'init': desc['init'],
         'tclass': H.tclass(desc['t'])}
    if recycled is not None:
        a['recycled'] = bool(recycled)
    return a


def first_diff(a, b):
    n = min(len(a), len(b))
    for i in range(n):
        if a[i] != b[i]:
            return i
    return n


class History:
    """one create / dirty / drop history; several of them may run in threads
    against the same Registry"""
    def __init__(self, rec, rng, ops, mode, reg, ids, sc, ctx, neighbours=True):
        self.rec, self.rng, self.ops, self.mode = rec, rng, ops, mode
        self.reg, self.ids, self.sc, self.ctx = reg, ids, sc, ctx
        self.check_neighbours = neighbours
        self.live = []
        self.by_eid = {}
        self.st = collections.Counter()
        self.tclasses = set()
        self.policy = rng.choice(['random', 'lifo', 'fifo', 'burst', 'alternate'])
        self.sizecls = rng.choice(['tiny', 'small', 'mixed', 'mixed', 'large'])
        self.live_bytes = 0

    # -- oracles -------------------------------------------------------------
    def check_pattern(self, e, why, attrs=None):
        self.st['pattern_checks'] += 1
        if not e.size:
            return True
        got = ctypes.string_at(e.addr, e.size)
        want = H.pattern(e.pat, e.size)
        if got != want:
            self.rec.violation(
                'content_clobbered', attrs or {'mode': self.mode, 'when': why},
                when=why, victim=e.desc, size=e.size,
                first_bad_offset=first_diff(got, want),
                got=got[:48], want=want[:48])
            # re-fill so one clobber is reported once
            H.fill(e.raw, e.pat)
            return False
        return True

    def verify_all(self, why):
        for e in list(self.live):
            self.check_pattern(e, why)

    def create(self):
        rec, rng, st = self.rec, self.rng, self.st
        desc = random_desc(rng, self.sizecls)
        try:
            obj, ref = H.build(desc, self.sc, rng, self.ctx)
        except H.ApiError as exc:
            rec.violation('operation_raised', vattrs(self.mode, desc),
                          op=exc.where, desc=desc, tb=exc.tb)
            return
        raw = H.raw_of(obj)
        st['objects_created'] += 1
        st['form:' + desc['form']] += 1
        self.tclasses.add(H.tclass(desc['t']))
        want_t = H.expected_type(desc)
        if type(raw) is not want_t:
            rec.violation('wrong_ctype', vattrs(self.mode, desc), desc=desc,
                          got=repr(type(raw)), want=repr(want_t))
            return
        e = Ent()
        e.top, e.raw, e.desc = obj, raw, desc
        e.addr, e.size = ctypes.addressof(raw), ctypes.sizeof(raw)
        e.eid = next(self.ids)
        e.pat = e.eid
        if e.size == 0:
            st['zero_length_objects'] += 1
        # placement as the wrapper describes it (optional internal view)
        try:
            (arena, start, stop), wsize = raw._wrapper._state
            base = ctypes.addressof(ctypes.c_char.from_buffer(arena.buffer))
            if wsize != e.size or (e.size and e.addr != base + start) or \
                    stop - start < e.size:
                rec.violation('object_not_on_its_block', vattrs(self.mode, desc),
                              desc=desc, addr_minus_base=e.addr - base,
                              start=start, stop=stop, wsize=wsize, size=e.size)
        except AttributeError:
            rec.missing('obj._wrapper._state')
        # isolation: address ranges of live objects are disjoint
        bad, recycled = ([], 0)
        if e.size:
            bad, recycled = self.reg.add(e.addr, e.size, e.eid)
        st['overlap_checks'] += 1
        for (a, b, oid) in bad:
            rec.violation('storage_overlap', vattrs(self.mode, desc),
                          new=desc, new_range=[e.addr, e.addr + e.size],
                          other_range=[a, b],
                          other=self.by_eid[oid].desc if oid in self.by_eid else None)
        if recycled:
            st['created_on_recycled_dirty'] += 1
            st[{'none': 'zero_init_on_recycled_dirty',
                'partial': 'partial_init_on_recycled_dirty',
                'full': 'full_init_on_recycled_dirty'}[desc['init']]] += 1
        # initial value: reference model
        st['init_checks'] += 1
        try:
            got_b, want_b = H.masked_bytes(raw), H.masked_bytes(ref)
            got_v, want_v = H.api('read', H.api_read, obj), H.api_read(ref)
        except H.ApiError as exc:
            rec.violation('operation_raised', vattrs(self.mode, desc),
                          op='read after create', desc=desc, tb=exc.tb)
            got_b = want_b = got_v = want_v = None
        if got_b != want_b or got_v != want_v:
            rec.violation('initial_value_wrong', vattrs(self.mode, desc, recycled),
                          desc=desc, size=e.size, recycled_bytes=recycled,
                          first_bad_offset=first_diff(got_b, want_b),
                          got=got_b[:64], want=want_b[:64],
                          got_value=repr(got_v)[:200], want_value=repr(want_v)[:200])
        # creating must not have touched the neighbours
        if self.check_neighbours and e.size and not bad:
            for oid in self.reg.neighbours(e.addr, e.eid):
                o = self.by_eid.get(oid)
                if o is not None:
                    self.check_pattern(o, 'after_create',
                                       dict(vattrs(self.mode, desc), when='after_create'))
        # dirty it
        H.fill(raw, e.pat)
        self.live.append(e)
        self.by_eid[e.eid] = e
        self.live_bytes += e.size

    def drop(self, idx):
        e = self.live.pop(idx)
        self.check_pattern(e, 'before_drop')
        del self.by_eid[e.eid]
        if e.size:
            self.reg.remove(e.addr, e.size, e.eid)
        self.live_bytes -= e.size
        self.st['drops'] += 1
        e.top = e.raw = None

    def api_write(self):
        """write through the interface, read back, neighbours untouched"""
        rec, rng = self.rec, self.rng
        e = rng.choice(self.live)
        if e.size == 0 or e.size > 4096:
            return
        pv = H.gen(type(e.raw), rng)
        style = rng.choice(['slice', 'index'])
        a = dict(vattrs(self.mode, e.desc), op='write_' + style)
        try:
            H.api('write', H.assign, e.top, pv, style)
            got = H.observe(e.top)
        except H.ApiError as exc:
            rec.violation('operation_raised', a, op=exc.where, desc=e.desc, tb=exc.tb)
            H.fill(e.raw, e.pat)
            return
        want = H.expected_after_assign(e.raw, pv, style)
        self.st['api_writes'] += 1
        if got != want:
            rec.violation('write_not_read_back', a, desc=e.desc,
                          got=repr(got)[:300], want=repr(want)[:300])
        if self.check_neighbours:
            for oid in self.reg.neighbours(e.addr, e.eid):
                o = self.by_eid.get(oid)
                if o is not None:
                    self.check_pattern(o, 'after_write', dict(a, when='after_write'))
        H.fill(e.raw, e.pat)

    def unwrap(self):
        """drop the synchronized wrapper, keep only get_obj(): the storage
        must stay owned"""
        cands = [e for e in self.live if e.top is not e.raw]
        if cands:
            e = self.rng.choice(cands)
            e.top = e.raw
            self.st['wrapper_dropped_raw_kept'] += 1

    # -- the history -----------------------------------------------------------
    def run(self):
        rng = self.rng
        verify_every = rng.choice([25, 50, 100])
        cap = rng.choice([30, 80, 200])
        for step in range(self.ops):
            live = self.live
            if self.policy == 'burst':
                do_drop = bool(live) and ((step // 40) % 2 == 1 or len(live) > cap)
            elif self.policy == 'alternate':
                ph = (step // 60) % 3
                do_drop = bool(live) and (ph == 1 or (ph != 2 and rng.random() < 0.3)
                                          or len(live) > cap)
            else:
                do_drop = bool(live) and (rng.random() < 0.47 or len(live) > cap)
            if self.live_bytes > (3 << 20) and live:
                do_drop = True
            if do_drop:
                if self.policy == 'lifo':
                    idx = len(live) - 1
                elif self.policy == 'fifo':
                    idx = 0
                elif self.policy == 'alternate' and len(live) > 2:
                    idx = rng.randrange(0, len(live), 2)
                else:
                    idx = rng.randrange(len(live))
                self.drop(idx)
            else:
                r = rng.random()
                if r < 0.10 and live:
                    self.api_write()
                elif r < 0.13 and live:
                    self.unwrap()
                else:
                    self.create()
            if step % verify_every == 0:
                self.verify_all('periodic')
        self.verify_all('end')
        while self.live:
            self.drop(len(self.live) - 1)

    def finish(self, extra=None):
        rec, st = self.rec, self.st
        rec.case()
        for k in ('objects_created', 'created_on_recycled_dirty',
                  'zero_init_on_recycled_dirty', 'partial_init_on_recycled_dirty',
                  'full_init_on_recycled_dirty', 'overlap_checks', 'init_checks',
                  'pattern_checks', 'drops', 'api_writes', 'zero_length_objects',
                  'wrapper_dropped_raw_kept', 'form:value', 'form:array_n',
                  'form:array_init', 'form:copy'):
            if st[k]:
                rec.count(k, st[k])
        if st['zero_init_on_recycled_dirty']:
            rec.sig([self.mode, self.policy, self.sizecls,
                     bucket(st['zero_init_on_recycled_dirty']),
                     bucket(st['partial_init_on_recycled_dirty']),
                     bucket(st['full_init_on_recycled_dirty']),
                     sorted(self.tclasses), extra])
        rec.sample({'mode': self.mode, 'policy': self.policy, 'sizes': self.sizecls,
                    'observed': {k: v for k, v in st.items() if not k.startswith('form:')}})


def _counter():
    n = [0]

    class It:
        lock = threading.Lock()

        def __next__(self):
            with self.lock:
                n[0] += 1
                return n[0]
    return It()


def run_init(spec, rec):
    import billiard
    from billiard import sharedctypes as sc
    glob = collections.Counter()
    install_free_counter(rec, glob)
    reg = Registry()
    ids = _counter()
    rng = rng_for(spec['seed'], 'init')
    ctx = billiard.get_context()
    for h in range(spec['histories']):
        api_obj = sc if h % 2 == 0 else ctx
        hist = History(rec, rng, spec['ops'], 'init', reg, ids, api_obj, ctx)
        try:
            hist.run()
        finally:
            hist.finish()
        rec.flush()
    rec.count('heap_free_observed', glob['heap_free'])


def run_init_mt(spec, rec):
    import billiard
    from billiard import sharedctypes as sc
    glob = collections.Counter()
    install_free_counter(rec, glob)
    ctx = billiard.get_context()
    old = sys.getswitchinterval()
    for h in range(spec['histories']):
        reg = Registry()
        ids = _counter()
        hists = [History(rec, rng_for(spec['seed'], 'mt', h, k), spec['ops'],
                         'init_mt', reg, ids, sc, ctx, neighbours=False)
                 for k in range(spec['threads'])]
        errs = []

        def body(hh):
            try:
                hh.run()
            except BaseException:
                errs.append(traceback.format_exc())
        sys.setswitchinterval(5e-5)
        try:
            ths = [threading.Thread(target=body, args=(hh,)) for hh in hists]
            for t in ths:
                t.start()
            for t in ths:
                t.join()
        finally:
            sys.setswitchinterval(old)
        for hh in hists:
            hh.finish(extra=spec['threads'])
        if errs:
            raise RuntimeError('harness thread failed: ' + errs[0])
        rec.count('mt_histories')
        rec.flush()
    rec.count('heap_free_observed', glob['heap_free'])


# --------------------------------------------------------------------------
# child processes: visibility, exclusion, allocation after start
# --------------------------------------------------------------------------

class ChildGone(Exception):
    kind = 'child_unresponsive'


class ChildDied(ChildGone):
    kind = 'child_died'


class RemoteApiError(Exception):
    def __init__(self, where, tb):
        Exception.__init__(self, where)
        self.where, self.tb = where, tb


def recv(conn, timeout=REPLY_TIMEOUT):
    if not conn.poll(timeout):
        raise ChildGone('no reply within %ss' % timeout)
    try:
        msg = conn.recv()
    except EOFError:
        raise ChildDied('pipe closed')
    if msg[0] == 'api_error':
        raise RemoteApiError(msg[1], msg[2])
    if msg[0] == 'harness_error':
        raise RuntimeError('child harness error: ' + msg[1])
    return msg


def ask(conn, msg, timeout=REPLY_TIMEOUT):
    conn.send(msg)
    return recv(conn, timeout)


def reap(procs, conns):
    for c in conns:
        try:
            c.send(('quit',))
        except Exception:
            pass
    deadline = time.monotonic() + 20
    for p in procs:
        try:
            p.join(max(0.1, deadline - time.monotonic()))
        except Exception:
            pass
    for p in procs:
        try:
            if p.is_alive():
                try:
                    os.kill(p.pid, 9)
                except OSError:
                    pass
                p.join(5)
        except Exception:
            pass
    for c in conns:
        try:
            c.close()
        except Exception:
            pass


PROBE_SET = [
    # (descriptor, accessors probed on it)
    ({'t': 'i', 'form': 'value', 'n': 0, 'init': 'full', 'lock': 'true'},
     ['value_get', 'value_set']),
    ({'t': 'd', 'form': 'array_n', 'n': 5, 'init': 'none', 'lock': 'true'},
     ['item_get', 'item_set', 'slice_get', 'slice_set']),
    ({'t': 'c', 'form': 'array_n', 'n': 8, 'init': 'none', 'lock': 'true'},
     ['value_get', 'value_set', 'raw_get', 'raw_set', 'item_get', 'item_set']),
    ({'t': 'Point', 'form': 'value', 'n': 0, 'init': 'full', 'lock': 'true'},
     ['field_get:x', 'field_set:y']),
    ({'t': 'l', 'form': 'value', 'n': 0, 'init': 'full', 'lock': 'lock'},
     ['value_get', 'value_set']),
    ({'t': 'int*4', 'form': 'value', 'n': 0, 'init': 'partial', 'lock': 'rlock'},
     ['item_set', 'slice_get']),
]


def probe_value(raw, accessor, rng):
    """argument for a *_set accessor"""
    if accessor == 'value_set':
        if isinstance(raw, ctypes.Array):          # SynchronizedString.value
            return bytes(rng.randrange(1, 256) for _ in range(rng.randrange(1, len(raw))))
        return H.gen(type(raw), rng)
    if accessor == 'item_set':
        v = H.gen(raw._type_, rng)
        return v
    if accessor == 'slice_set':
        et = raw._type_
        vals = [H.gen(et, rng), H.gen(et, rng)]
        return b''.join(vals) if et is ctypes.c_char else vals
    if accessor == 'raw_set':
        return bytes(rng.randrange(1, 256) for _ in range(len(raw)))
    if accessor.startswith('field_set:'):
        name = accessor.split(':', 1)[1]
        return H.gen(dict(type(raw)._fields_)[name], rng)
    return None


def vis_session(rec, rng, carrier, spec, sess):
    import billiard
    from billiard import heap as bheap
    ctx = billiard.get_context(carrier)
    A = {'mode': 'vis', 'carrier': carrier}
    st = collections.Counter()
    nchildren = rng.choice([1, 2, 2, 3])
    ids = _counter()
    # ---- churn so that the objects handed over sit at non-zero offsets, in
    # recycled storage, some in later arenas
    churn = []
    for _ in range(rng.randrange(10, 60)):
        d = random_desc(rng, rng.choice(['small', 'mixed']))
        d['lock'] = 'raw'
        try:
            o, _r = H.build(d, ctx, rng, ctx)
        except H.ApiError as exc:
            rec.violation('operation_raised', dict(A, op='create'), desc=d, tb=exc.tb)
            continue
        H.fill(H.raw_of(o), next(ids))
        churn.append(o)
    rng.shuffle(churn)
    del churn[:len(churn) * 2 // 3]
    # ---- objects handed to the children
    descs = [dict(d) for d, _a in PROBE_SET]
    for _ in range(rng.randrange(4, 12)):
        d = random_desc(rng, rng.choice(['small', 'mixed', 'mixed', 'large']))
        if d['form'] == 'copy':
            d['form'], d['init'] = 'array_n', 'none'
        if d['lock'] in ('default', 'false'):
            d['lock'] = rng.choice(['raw', 'true'])
        if d['form'] != 'value' and d['n'] == 0 and rng.random() < 0.7:
            d['n'] = rng.randrange(1, 20)
        if d['form'] != 'value' and d['t'] in H.ARRAYVAL_KEYS:
            # an array whose *elements* are arrays has an element type that
            # pickle cannot look up by name: no spawn carrier can carry it
            d['t'] = rng.choice(H.STRUCT_KEYS)
        descs.append(d)
    objs, bystanders = [], []
    for d in descs:
        try:
            o, ref = H.build(d, ctx, rng, ctx)
        except H.ApiError as exc:
            rec.violation('operation_raised', dict(A, op='create'), desc=d, tb=exc.tb)
            return
        if H.masked_bytes(H.raw_of(o)) != H.masked_bytes(ref):
            rec.violation('initial_value_wrong', vattrs('vis', d), desc=d,
                          got=H.masked_bytes(H.raw_of(o))[:64],
                          want=H.masked_bytes(ref)[:64])
        objs.append(o)
        # a bystander right after each shared object: never handed over
        bd = random_desc(rng, 'small')
        bd['lock'] = 'raw'
        try:
            b, _r = H.build(bd, ctx, rng, ctx)
            pat = next(ids)
            H.fill(H.raw_of(b), pat)
            bystanders.append((b, pat))
        except H.ApiError as exc:
            rec.violation('operation_raised', dict(A, op='create'), desc=bd, tb=exc.tb)
    raws = [H.raw_of(o) for o in objs]
    # isolation among everything alive here
    spans = sorted((ctypes.addressof(H.raw_of(o)), ctypes.addressof(H.raw_of(o)) +
                    ctypes.sizeof(H.raw_of(o)))
                   for o in objs + churn + [b for b, _p in bystanders]
                   if ctypes.sizeof(H.raw_of(o)))
    for a, b in zip(spans, spans[1:]):
        if a[1] > b[0]:
            rec.violation('storage_overlap', dict(A, form='any'), a=a, b=b)
    later_arena = 0
    try:
        arenas = bheap.BufferWrapper._heap._arenas
        for r in raws:
            (arena, start, stop), _sz = r._wrapper._state
            if start > 0:
                st['vis_rebuilt_nonzero_offset'] += 1
            if arena is not arenas[0]:
                later_arena += 1
    except AttributeError:
        rec.missing('obj._wrapper._state')
    st['vis_obj_in_later_arena'] += later_arena

    def check_bystanders(when):
        for b, pat in bystanders:
            raw = H.raw_of(b)
            st['bystander_checks'] += 1
            if H.raw_bytes(raw) != H.pattern(pat, ctypes.sizeof(raw)):
                rec.violation('bystander_clobbered', dict(A, when=when),
                              size=ctypes.sizeof(raw), type=type(raw).__name__)
                H.fill(raw, pat)

    procs, conns = [], []
    writers = []
    probes_done = []
    try:
        for k in range(nchildren):
            pc, cc = ctx.Pipe()
            if carrier != 'fork' and rng.random() < 0.35:
                # handed on once more: parent -> child -> grandchild, through
                # a process that never created a shared object of its own
                p = ctx.Process(target=H.vis_relay,
                                args=(cc, k, objs, spec['seed'] * 100 + sess, carrier))
                st['vis_children_behind_relay'] += 1
            else:
                p = ctx.Process(target=H.vis_child,
                                args=(cc, k, objs, spec['seed'] * 100 + sess))
                p.daemon = True
            try:
                H.api('Process.start', p.start)
            except H.ApiError as exc:
                rec.violation('operation_raised', dict(A, op='start'), tb=exc.tb)
                return
            cc.close()
            procs.append(p)
            conns.append(pc)
        for c in conns:
            recv(c)                      # hello
        # ---- visibility rounds
        small = [i for i, r in enumerate(raws) if 0 < ctypes.sizeof(r) <= 2048]
        big = [i for i, r in enumerate(raws) if ctypes.sizeof(r) > 2048]
        for rnd in range(spec['rounds']):
            writer = rng.randrange(-1, nchildren)     # -1 = parent
            writers.append('P' if writer < 0 else 'C')
            idxs = [i for i in small if rng.random() < 0.8]
            if big and rng.random() < 0.5:
                idxs.append(rng.choice(big))
            if not idxs:
                continue
            work = [(i, H.gen(type(raws[i]), rng), rng.choice(['slice', 'index']))
                    for i in idxs]
            expect = {i: H.expected_after_assign(raws[i], pv, sty)
                      for i, pv, sty in work}
            if writer < 0:
                for i, pv, sty in work:
                    try:
                        H.api('write', H.assign, objs[i], pv, sty)
                    except H.ApiError as exc:
                        rec.violation('operation_raised', dict(A, op='write'),
                                      desc=descs[i], tb=exc.tb)
            else:
                ask(conns[writer], ('write', work))
            # everybody reads
            readers = [(-1, [H.observe(objs[i]) for i in idxs])]
            for k, c in enumerate(conns):
                readers.append((k, ask(c, ('read', idxs))[1]))
            for who, seen in readers:
                if who == writer:
                    role, key = 'writer', 'vis_writer_readback'
                elif who < 0:
                    role, key = 'parent', 'vis_parent_saw_child_write'
                elif writer < 0:
                    role, key = 'child', 'vis_child_saw_parent_write'
                else:
                    role, key = 'sibling', 'vis_sibling_saw_child_write'
                for i, got in zip(idxs, seen):
                    st[key] += 1
                    if list(got) != list(expect[i]):
                        d = descs[i]
                        rec.violation(
                            'write_not_visible',
                            {'mode': 'vis', 'carrier': carrier,
                             'writer': 'parent' if writer < 0 else 'child',
                             'reader': role, 'form': d['form'],
                             'sync': d['lock'] not in ('raw', 'false')},
                            desc=d, round=rnd, got=repr(got)[:300],
                            want=repr(expect[i])[:300])
            check_bystanders('after_round')
        # ---- exclusion probes: parent holds the lock, child 0 calls an accessor
        c0 = conns[0]
        for i, (d, accessors) in enumerate(PROBE_SET):
            o, raw = objs[i], raws[i]
            for acc in accessors:
                pv = probe_value(raw, acc, rng)
                PA = {'mode': 'probe', 'carrier': carrier, 'accessor': acc.split(':')[0],
                      'wrapper': type(o).__name__, 'lock': d['lock']}
                lock = o.get_lock()
                lock.acquire()
                released = False
                try:
                    before = H.raw_bytes(raw)
                    c0.send(('probe', i, acc, pv))
                    recv(c0)                         # 'about'
                    time.sleep(0.06 + 0.05 * rng.random())
                    during = H.raw_bytes(raw)
                    t_rel = time.monotonic()
                    lock.release()
                    released = True
                    msg = recv(c0)                   # ('done', t_done, res)
                finally:
                    if not released:
                        lock.release()
                t_done = msg[1]
                st['probes'] += 1
                probes_done.append(acc.split(':')[0])
                if t_done >= t_rel:
                    st['probe_blocked_observed'] += 1
                else:
                    rec.violation('accessor_completed_while_lock_held_elsewhere', PA,
                                  desc=d, early_by_s=round(t_rel - t_done, 4))
                if during != before:
                    rec.violation('value_changed_while_lock_held_elsewhere', PA,
                                  desc=d, before=before[:32], during=during[:32])
                if acc.endswith('_set') or '_set:' in acc:
                    # the write itself must have arrived
                    ref = type(raw).from_buffer_copy(before) if before else type(raw)()
                    H.do_access(ref, acc, pv)
                    if H.masked_bytes(ref) != H.masked_bytes(raw):
                        rec.violation('write_not_visible',
                                      {'mode': 'probe', 'carrier': carrier,
                                       'writer': 'child', 'reader': 'parent',
                                       'form': d['form'], 'sync': True},
                                      desc=d, accessor=acc,
                                      got=H.masked_bytes(raw)[:32],
                                      want=H.masked_bytes(ref)[:32])
        check_bystanders('after_probes')
        # ---- objects created after the start, in parent and in every child:
        # no shared storage between processes
        for tag in range(2):
            adescs = []
            for _ in range(rng.randrange(8, 20)):
                d = random_desc(rng, rng.choice(['tiny', 'small', 'mixed']))
                d['lock'] = rng.choice(['raw', 'raw', 'true'])
                adescs.append(d)
            for c in conns:
                c.send(('alloc', adescs, tag))
            mine = []
            prng = rng_for(spec['seed'], 'alloc-parent', sess, tag)
            from billiard import sharedctypes as sc
            for j, d in enumerate(adescs):
                try:
                    o, ref = H.build(d, sc, prng, billiard.get_context())
                except H.ApiError as exc:
                    rec.violation('operation_raised', dict(A, op='create'),
                                  desc=d, tb=exc.tb)
                    continue
                raw = H.raw_of(o)
                if H.masked_bytes(raw) != H.masked_bytes(ref):
                    rec.violation('initial_value_wrong',
                                  vattrs('alloc_after_start', d), desc=d,
                                  where='parent', carrier=carrier,
                                  got=H.masked_bytes(raw)[:64],
                                  want=H.masked_bytes(ref)[:64])
                pat = next(ids)
                H.fill(raw, pat)
                mine.append((o, raw, pat))
            for c in conns:
                msg = recv(c)
                for prob in msg[1]:
                    rec.violation('initial_value_wrong',
                                  vattrs('alloc_after_start', prob[1]),
                                  desc=prob[1], where='child', carrier=carrier,
                                  got=prob[2], want=prob[3])
                st['alloc_after_start_objects'] += len(adescs)
            st['alloc_after_start_objects'] += len(mine)
            # everybody has written its patterns: now everybody verifies
            for (o, raw, pat) in mine:
                if H.raw_bytes(raw) != H.pattern(pat, ctypes.sizeof(raw)):
                    rec.violation('storage_shared_across_processes',
                                  dict(A, victim='parent'), size=ctypes.sizeof(raw),
                                  type=type(raw).__name__)
            for c in conns:
                msg = ask(c, ('alloc_verify',))
                for bad in msg[1]:
                    rec.violation('storage_shared_across_processes',
                                  dict(A, victim='child'), obj=bad)
            check_bystanders('after_alloc')
            churn.extend(o for o, _r, _p in mine)      # keep them alive
        # handed-over objects still readable and consistent everywhere
        idxs = list(range(len(objs)))
        base = [H.observe(o) for o in objs]
        for c in conns:
            seen = ask(c, ('read', idxs))[1]
            for i, got in enumerate(seen):
                if list(got) != list(base[i]):
                    rec.violation('write_not_visible',
                                  {'mode': 'vis', 'carrier': carrier, 'writer': 'any',
                                   'reader': 'child', 'form': descs[i]['form'],
                                   'sync': descs[i]['lock'] not in ('raw', 'false')},
                                  desc=descs[i], round='final',
                                  got=repr(got)[:300], want=repr(base[i])[:300])
        for c in conns:
            ask(c, ('quit',), 30)
    except ChildGone as exc:
        codes = []
        for p in procs:
            try:
                codes.append(p.exitcode)
            except Exception:
                codes.append('?')
        rec.violation(exc.kind, dict(A), why=str(exc), exitcodes=codes)
    except RemoteApiError as exc:
        rec.violation('operation_raised', dict(A, op=exc.where, where='child'), tb=exc.tb)
    finally:
        reap(procs, conns)
    rec.case()
    for k, v in st.items():
        rec.count(k, v)
    rec.count('vis_sessions_' + carrier)
    both = st['vis_child_saw_parent_write'] and st['vis_parent_saw_child_write'] \
        and st['probe_blocked_observed']
    if both:
        shape = ''.join(writers)
        rec.sig(['vis', carrier, nchildren,
                 'P' in shape, 'C' in shape, 'PC' in shape, 'CP' in shape, 'CC' in shape,
                 bucket(st['probes']), later_arena > 0, len(objs) // 4])
    rec.sample({'mode': 'vis', 'carrier': carrier, 'children': nchildren,
                'writers': ''.join(writers), 'objects': len(objs),
                'observed': dict(st)})


def run_vis(spec, rec):
    rng = rng_for(spec['seed'], 'vis')
    for s in range(spec['sessions']):
        vis_session(rec, rng, spec['carrier'], spec, s)
        rec.flush()


# --------------------------------------------------------------------------
# atomicity
# --------------------------------------------------------------------------

INT_COUNTERS = {'i': 32, 'I': 32, 'l': 64, 'L': 64, 'H': 16, 'h': 16, 'B': 8}


def wrap_expected(code, init, n):
    """reference arithmetic of `n` increments of a C counter of type `code`"""
    if code in ('d', 'f'):
        return float(init + n)
    bits = INT_COUNTERS[code]
    v = (init + n) % (1 << bits)
    if code in ('i', 'l', 'h') and v >= 1 << (bits - 1):
        v -= 1 << bits
    return v


def atomic_spec(rec, rng, carrier, phases):
    """phases: [{'nprocs', 'iters', 'locked'}].  Children are started once and
    take part in every phase they are needed for (each phase has its own four
    shared objects, all handed over at start)."""
    import billiard
    ctx = billiard.get_context(carrier)
    P = []
    for ph in phases:
        locked = ph['locked']
        A = {'mode': 'atomic' if locked else 'control', 'carrier': carrier}
        d = dict(ph, A=A,
                 vcode=rng.choice(['i', 'l', 'd', 'H', 'I', 'L']),
                 acode=rng.choice(['i', 'l', 'd', 'H', 'B', 'h']),
                 n_arr=rng.choice([1, 2, 3, 6]), spin=rng.choice([0, 5, 20, 60]),
                 v_init=rng.choice([0, 5, 1000]))
        d['a_init'] = [rng.choice([0, 1, 7]) for _ in range(d['n_arr'])]
        try:
            v = H.api('Value', ctx.Value, d['vcode'], d['v_init'])
            arr = H.api('Array', ctx.Array, d['acode'], d['a_init'])
            stv = H.api('Value', ctx.Value, H.Point, 3, 4)
            cust = H.api('Value', ctx.Value, 'l', 11, lock=ctx.Lock())
        except H.ApiError as exc:
            rec.violation('operation_raised', dict(A, op='create'), tb=exc.tb)
            return
        d['objs'] = [v, arr, stv, cust]
        P.append(d)
    nchildren = max(d['nprocs'] for d in P) - 1
    child_phases = [(d['objs'], d['iters'], d['spin'], d['locked'], d['nprocs'] - 1)
                    for d in P]
    procs, conns = [], []
    A0 = {'mode': 'atomic', 'carrier': carrier}
    try:
        for k in range(nchildren):
            pc, cc = ctx.Pipe()
            p = ctx.Process(target=H.atomic_child, args=(cc, k, child_phases))
            p.daemon = True
            try:
                H.api('Process.start', p.start)
            except H.ApiError as exc:
                rec.violation('operation_raised', dict(A0, op='start'), tb=exc.tb)
                return
            cc.close()
            procs.append(p)
            conns.append(pc)
        for d in P:
            A = d['A']
            total = collections.Counter()
            active = conns[:d['nprocs'] - 1]
            for c in active:
                recv(c)                       # ready
            for c in active:
                c.send(('go',))
            # the parent is an updater too
            mine = collections.Counter()
            try:
                H.api('rmw', H.rmw_loop, d['objs'], d['iters'], d['spin'],
                      d['locked'], d['nprocs'], mine)
            except H.ApiError as exc:
                rec.violation('operation_raised', dict(A, op='rmw', where='parent'),
                              tb=exc.tb)
            total.update(mine)
            for c in active:
                msg = recv(c, REPLY_TIMEOUT + d['iters'] * 0.01)
                total.update(msg[1])
            atomic_verdict(rec, d, total, carrier)
            rec.flush()
    except ChildGone as exc:
        rec.violation(exc.kind, dict(A0), why=str(exc),
                      exitcodes=[p.exitcode for p in procs])
    except RemoteApiError as exc:
        rec.violation('operation_raised', dict(A0, op=exc.where, where='child'), tb=exc.tb)
    finally:
        reap(procs, conns)


def atomic_verdict(rec, d, total, carrier):
    A, locked, nprocs, iters = d['A'], d['locked'], d['nprocs'], d['iters']
    v, arr, stv, cust = d['objs']
    vcode, acode, n_arr, spin = d['vcode'], d['acode'], d['n_arr'], d['spin']
    done = sum(total.values())
    if done != nprocs * iters:
        raise RuntimeError('harness: %d sequences reported, %d planned'
                           % (done, nprocs * iters))
    finals = {
        'value': (H.raw_of(v).value, wrap_expected(vcode, d['v_init'], total['value']), vcode),
        'struct': (H.raw_of(stv).x, wrap_expected('i', 3, total['struct']), 'i'),
        'custom': (H.raw_of(cust).value, wrap_expected('l', 11, total['custom']), 'l'),
    }
    for i in range(n_arr):
        finals['array:%d' % i] = (H.raw_of(arr)[i],
                                  wrap_expected(acode, d['a_init'][i],
                                                total['array:%d' % i]),
                                  acode)
    # the untouched struct field is part of "writing one never changes another"
    y_ok = H.raw_of(stv).y == 4
    lost_any = 0
    for name, (got, want, code) in finals.items():
        if got == want:
            continue
        tgt = name.split(':')[0]
        if locked:
            rec.violation('lost_update',
                          dict(A, target=tgt), counter_type=code, final=got,
                          expected=want, sequences=total[name], processes=nprocs,
                          iters=iters, spin=spin)
        else:
            lost_any += 1
    if locked and not y_ok:
        rec.violation('neighbour_field_changed', dict(A, target='struct'),
                      y=H.raw_of(stv).y)
    rec.case()
    if locked:
        rec.count('atomic_runs')
        rec.count('locked_rmw', done)
        for name in total:
            rec.count('locked_rmw_' + name.split(':')[0], total[name])
        rec.sig(['atomic', carrier, nprocs, bucket(iters), vcode, acode, n_arr,
                 bucket(spin)])
    else:
        rec.count('control_runs')
        rec.count('control_rmw', done)
        if lost_any:
            rec.count('control_runs_with_lost_updates')
            rec.count('control_targets_with_lost_updates', lost_any)
        rec.sig(['control', carrier, nprocs, bucket(iters), bool(lost_any)])
    rec.sample({'mode': A['mode'], 'carrier': carrier, 'processes': nprocs,
                'iters': iters, 'spin': spin, 'types': [vcode, acode],
                'sequences': dict(total),
                'finals': {k: [g, w] for k, (g, w, _c) in finals.items()}})


def run_atomic(spec, rec):
    rng = rng_for(spec['seed'], 'atomic')
    c, n, it = spec['carrier'], spec['nprocs'], spec['iters']
    phases = [{'nprocs': n, 'iters': it, 'locked': True}]
    if spec.get('control'):
        # control: same workload without the lock; lost updates are expected
        # and only counted (evidence that the workload contends)
        phases.append({'nprocs': max(n, 4), 'iters': max(it, 4000), 'locked': False})
    # second locked phase with a different shape
    phases.append({'nprocs': max(2, n // 2), 'iters': it * 2, 'locked': True})
    atomic_spec(rec, rng, c, phases)


def run_fork_held(spec, rec):
    """a process forked while the forking thread holds a shared object's lock:
    the child does not own that lock - its non-blocking attempt fails, nothing
    it does under the lock happens before the parent lets go, and the locked
    read-modify-write steps of both lose no update"""
    import billiard
    from vmon import c15_helpers as H
    ctx = billiard.get_context('fork')
    n = spec.get('iters', 3000)
    for form, lockarg in (('value', True), ('array', True), ('value', 'rlock'), ('value', 'lock')):
        A = {'mode': 'fork_held', 'form': form, 'lock': str(lockarg)}
        rec.case()
        rec.count('fork_held_sessions')
        lk = True if lockarg is True else (ctx.RLock() if lockarg == 'rlock' else ctx.Lock())
        obj = ctx.Value('l', 0, lock=lk) if form == 'value' else ctx.Array('l', 4, lock=lk)
        rd = (lambda: obj.value) if form == 'value' else (lambda: obj[0])
        lock = obj.get_lock()
        pc, cc = ctx.Pipe()
        lock.acquire()
        try:
            p = ctx.Process(target=H.fork_held_child, args=(obj, form, cc, n))
            p.daemon = True
            p.start()
            if not pc.poll(60):
                raise RuntimeError('fork_held child never reported')
            msg = pc.recv()
            time.sleep(0.3)
            raw = obj.get_obj()
            seen = raw.value if form == 'value' else raw[0]
        finally:
            lock.release()
        if msg[1]:
            rec.violation('lock_taken_by_child_forked_while_held', A)
        if seen != 0:
            rec.violation('update_made_while_lock_held_elsewhere', A, value=seen)
        raw = obj.get_obj()        # (the accessors take the lock themselves)
        for _ in range(n):
            with lock:
                if form == 'value':
                    raw.value = raw.value + 1
                else:
                    raw[0] = raw[0] + 1
        done = pc.poll(120) and pc.recv()
        p.join(20)
        if p.is_alive():
            p.terminate()
        if not done:
            rec.violation('child_forked_while_held_never_finished', A)
        elif rd() != 2 * n:
            rec.violation('lost_update', dict(A, carrier='fork'), final=rd(), expected=2 * n)
        else:
            rec.count('fork_held_totals_exact')
        rec.sig(['fork_held', form, str(lockarg), bool(msg[1]), rd() == 2 * n])


def run_spec(spec, rec):
    mode = spec['mode']
    if mode == 'fork_held':
        return run_fork_held(spec, rec)
    if mode == 'init':
        run_init(spec, rec)
    elif mode == 'init_mt':
        run_init_mt(spec, rec)
    elif mode == 'vis':
        run_vis(spec, rec)
    elif mode == 'atomic':
        run_atomic(spec, rec)
    else:
        raise ValueError(mode)
