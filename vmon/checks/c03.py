"""C03 - worker job protocol: accept before run, one result per job, NACK
honoured.

Lane ISO (L3, main): one real billiard.pool.Worker running Worker.__call__ in
a real child process (fork and spawn); the harness is the parent: it feeds
TASK messages, answers ACK/NACK on the syn-queue following a seeded cancel
schedule (with delays), credits or withholds the consumed-result counter and
reads the raw ACK/READY/DEATH stream.  Oracles: the stream grammar
(ACK (READY | nothing-if-NACK))* DEATH, counters (executed = READY count =
quota at recycle, exit status 155, NACKed jobs neither executed nor counted),
ACK pid = real child pid, ACK time inside [task sent, ACK received] and
ordered against the task's own log stamps, task side-effect log.  A hang is
decided from process state, not from a clock: the worker sleeping in read() on
its own queues while the parent owes it nothing (deadlock), or napping with no
job in progress (stall); a plain 40 s silence is only reported after a re-run
alone.

Lane POOL (L2): real Pool in a host process: accept callback before result
callback, owner = acknowledging worker; a Pool subclass with a syn-queue per
worker + send_ack (synack=True): jobs cancelled before acceptance are refused,
never run, never counted toward maxtasksperchild.

Lane ACKWIN (L2): real pool, pool threads on: a sys.monitoring LINE event naps
at the k-th line of ApplyResult._ack in the result-handler thread while the
time-limit scanner / terminate_job / a killed worker makes another pool thread
resolve the same job - the accept callback must still precede the result
callback.  The ISO lane also runs the memory-limit exit path and values whose
pickling fails with OSError / EOFError / MemoryError / any exception class.

Lane PARENT (L1-lite): the real ResultHandler state handlers + ApplyResult fed
with scripted ACK/READY messages in every seeded order relative to _cancel().  Parent lane: acknowledgements only come from free workers (one unanswered job per worker); a refused job has no owner and no acceptance time."""
import os
import signal
import time
import traceback

from vmon.core import rng_for
from vmon import c03_helpers as H

PROPERTY = 'C03'
LEVEL = 'exploration'
TECHNIQUE = ('runtime monitoring: regular-grammar + counter oracle over the raw message stream of a real '
             'Worker process driven by a scripted parent; callback-order / ownership oracle on real pools; '
             'reference model for the parent-side handshake')
RULE = ('ISO: one case = one worker lifetime (start method, quota 1-5/none, syn-queue on/off, 1-30 seeded tasks of 14 kinds, '
        'seeded NACK schedule and SYN delays, feed mode lockstep/pipelined, counter credit immediate/late/never/absent); '
        'signature = (method, syn, quota class, feed mode, credit policy, sorted task kinds, NACK pattern class, how it ended); '
        'non-trivial = at least one NACK or one non-plain outcome (exception, base exception, unserialisable). '
        'POOL: one case = one real-pool scenario. PARENT: one case = one history of cancel/ACK/READY deliveries.')
ASSUMPTIONS = [
    'the harness plays the parent in lane ISO: SYN answers are sent only after the ACK was read (as ApplyResult._ack does)',
    'a worker sleeping in read() on its own in/syn-queue with no CPU use between two samples 1 s apart, while the harness owes it no message, is reported as deadlocked (state-based, x86_64 /proc/<pid>/syscall); remaining wall-clock upper bounds (worker silent for 40 s / 120 s at start-up, exit later than 20 s after the last credit) are re-run alone before being reported',
    'the never-credited lane (30 s consumption guard) runs in the thorough tier only',
    'READY payloads are checked for success flag / tag / exception family only (content fidelity is C12)',
]
JOBS = 14
SPEC_TIMEOUT = 240
CONFIRM_ALONE = ('worker_silent', 'exit_delayed_after_consumption', 'scenario_hung', 'guard_exit_never',
                 'job_not_accepted', 'job_not_resolved')
FLOORS = {
    'quick': {'iso:lifetimes': 60, 'iso:ack': 200, 'iso:ready': 150, 'iso:nack_sent': 45,
              'iso:death_155': 30, 'iso:spawn_lifetimes': 10, 'iso:fork_lifetimes': 45,
              'iso:nack_with_quota': 30, 'iso:base_exc_ready': 25, 'iso:encoding_error_ready': 25,
              'iso:ack_time_checked': 200, 'iso:late_credit_held': 6, 'iso:quota_exits_checked': 30,
              'iso:refused_jobs_checked': 45, 'iso:syn_wait_checked': 60, 'iso:gate_checked': 5,
              'pool:scenarios': 6, 'pool:accept_before_result': 20, 'pool:refused_jobs': 8,
              'pool:owner_checked': 20, 'pool:recycle_exits_checked': 1,
              'ackwin:resolved_by_other_thread': 9,
              'parent:histories': 600, 'parent:nack_sent': 200, 'parent:cancel_after_ack': 100,
              'parent:map_owner_checked': 200},
    'thorough': {'iso:lifetimes': 400, 'iso:ack': 2000, 'iso:ready': 1500, 'iso:nack_sent': 400,
                 'iso:death_155': 200, 'iso:spawn_lifetimes': 60, 'iso:guard_waited': 1,
                 'iso:nack_with_quota': 200, 'iso:late_credit_held': 30,
                 'pool:scenarios': 30, 'pool:refused_jobs': 40, 'pool:recycle_exits_checked': 5,
                 'ackwin:resolved_by_other_thread': 45,
                 'parent:histories': 6000},
}

KINDS = ['ok', 'ok', 'ok', 'none', 'sleep', 'big', 'exc', 'exc', 'base', 'base', 'sysexit',
         'unpick', 'unpick', 'exc_unpick', 'gate']
PLAIN = ('ok', 'none', 'sleep', 'big', 'gate')


# --------------------------------------------------------------------------
# plan
# --------------------------------------------------------------------------

def plan(tier, seed):
    specs = []
    if tier == 'quick':
        n_fork, n_spawn, per_fork, per_spawn = 18, 8, 6, 3
        n_pool, n_parent, hist = 14, 2, 600
    else:
        n_fork, n_spawn, per_fork, per_spawn = 44, 16, 12, 6
        n_pool, n_parent, hist = 60, 6, 2500
    for i in range(n_fork):
        specs.append({'lane': 'iso', 'method': 'fork', 'seed': seed * 10000 + i,
                      'lifetimes': per_fork, 'timeout': 200})
    for i in range(n_spawn):
        specs.append({'lane': 'iso', 'method': 'spawn', 'seed': seed * 10000 + 500 + i,
                      'lifetimes': per_spawn, 'timeout': 200})
    if tier == 'thorough':
        for i in range(2):
            specs.append({'lane': 'iso', 'method': 'fork', 'seed': seed * 10000 + 900 + i,
                          'lifetimes': 1, 'guard': True, 'timeout': 200})
    for i in range(n_pool):
        specs.append({'lane': 'pool', 'sc': 'synack' if i % 2 else 'plain',
                      'seed': seed * 10000 + 2000 + i, 'timeout': 150})
    for i in range(6 if tier == 'quick' else 30):
        specs.append({'lane': 'ackwin', 'seed': seed * 10000 + 4000 + i, 'timeout': 150})
    for i in range(n_parent):
        specs.append({'lane': 'parent', 'seed': seed * 10000 + 3000 + i, 'histories': hist,
                      'timeout': 120})
    from vmon import simcheck
    specs += simcheck.sim_specs(['c01'], seed, 2 if tier == 'quick' else 8,
                                60 if tier == 'quick' else 200, base=30000)
    return specs


def run_spec(spec, rec):
    import logging
    logging.disable(logging.CRITICAL)
    if spec['lane'] == 'sim':
        # lane SIM (vmon.sim): parent-side order of ACK / READY consumption on
        # the real Pool in event-loop mode - accept callback fired exactly when
        # the ACK is processed and before the result callback, owner recorded
        from vmon import simcheck
        return simcheck.run_sim_spec(
            spec, rec, PROPERTY, lambda sim: bool(sim.stats.get('ack_processed')))
    if spec['lane'] == 'iso':
        run_iso_spec(spec, rec)
    elif spec['lane'] == 'pool':
        run_pool_spec(spec, rec)
    elif spec['lane'] == 'ackwin':
        run_ackwin_spec(spec, rec)
    else:
        run_parent_spec(spec, rec)


# --------------------------------------------------------------------------
# lane ISO
# --------------------------------------------------------------------------

def gen_lifetime(rng, method, tier, guard=False):
    quota = rng.choice([None, 1, 2, 3, 3, 4, 5])
    syn = rng.random() < 0.6
    maxn = 30 if tier == 'thorough' else 16
    n = rng.choice([1, 2, 3, 5, 8, 12, maxn])
    p = {'method': method, 'quota': quota, 'syn': syn,
         'mode': rng.choice(['lockstep', 'lockstep', 'pipelined', 'window2']),
         'credit': rng.choice(['immediate', 'immediate', 'late', 'absent']),
         'term_after_death': rng.random() < 0.8,
         'sentinel_event': rng.random() < 0.2,
         'i_style': rng.choice(['none', 'int'])}
    if guard:
        p.update(quota=2, credit='never', mode='lockstep', syn=False)
        n = 3
    elif rng.random() < 0.2:
        # a memory limit every worker exceeds with its first job: the same
        # exit as a quota of one, reached through the memory-limit path
        p.update(quota=1, memlimit=True)
    nack_rate = rng.choice([0.0, 0.2, 0.5, 0.8]) if syn else 0.0
    jobs = []
    base = rng.randrange(1, 10**6)
    ids = rng.sample(range(base, base + 10 * n + 10), n)
    for k in range(n):
        kind = rng.choice(KINDS)
        d = {'tag': 't%d' % k, 'kind': kind}
        if kind == 'sleep':
            d['dur'] = rng.choice([0.002, 0.01, 0.03])
        elif kind == 'big':
            d['size'] = rng.choice([70000, 200000])
        elif kind == 'exc':
            d['exc'] = rng.choice(['KeyError', 'ValueError', 'TaskError', 'ZeroDivisionError'])
            if rng.random() < 0.3:
                d['depth'] = rng.choice([150, 600, 800])    # very deep traceback
        elif kind == 'base':
            d['exc'] = rng.choice(['KeyboardInterrupt', 'GeneratorExit', 'SystemExit', 'OddBase'])
        elif kind == 'sysexit':
            d['code'] = rng.choice([0, 3, 155])
        elif kind == 'unpick':
            d['what'] = rng.choice(['lambda', 'gen', 'lock', 'local'] + H.UNPICK_WHATS)
            d['depth'] = rng.choice([0, 1, 2, 3])
        elif kind == 'exc_unpick':
            d['what'] = rng.choice(H.UNPICK_WHATS)
        elif kind == 'gate':
            d['maxwait'] = 10.0
        j = {'id': ids[k], 'i': None if p['i_style'] == 'none' else rng.randrange(0, 6),
             'desc': d,
             'nack': syn and rng.random() < nack_rate,
             'syn_delay': rng.choice([0, 0, 0, 0.003, 0.02, 0.08]) if syn else 0}
        jobs.append(j)
    if syn and n >= 2 and rng.random() < 0.12:
        rng.choice(jobs)['syn_delay'] = 1.25      # a slow parent
    # (pipelined TASK messages are small: all of them fit one pipe buffer)
    p['jobs'] = jobs
    return p


def run_iso_spec(spec, rec):
    try:
        from billiard import pool as bpool
        bpool.Worker.__call__, bpool.Worker.workloop
        for n in ('ACK', 'READY', 'TASK', 'NACK', 'DEATH', 'EX_RECYCLE'):
            getattr(bpool, n)
    except Exception as e:           # noqa
        rec.missing('Worker / protocol constants: %r' % (e,))
        return
    tier = spec.get('tier', 'quick')
    for n in range(spec['lifetimes']):
        rng = rng_for(spec['seed'], 'iso', n)
        p = gen_lifetime(rng, spec['method'], tier, guard=spec.get('guard', False))
        only = spec.get('only')
        if only is not None and n != only:
            continue
        h = drive_lifetime(p, rec)
        judge_lifetime(p, h, rec)
        rec.flush()
        if h['status'] in ('deadlock', 'stalled', 'silent', 'guard_exit_never'):
            # every further lifetime of a tree that hangs costs the same wait
            rec.count('iso:lifetimes_skipped_after_hang', spec['lifetimes'] - n - 1)
            break


def _recv(outq, timeout):
    if outq._reader.poll(timeout):
        return outq.get()
    return None


def drive_lifetime(p, rec):
    """-> history dict (stream with receive stamps, send stamps, syn stamps,
    credit stamps, exit status, worker-side event log)"""
    import billiard
    from billiard import pool as bpool
    from vmon import evlog, c03_helpers as H
    wd = os.environ.get('VERIF_WORKDIR') or '/tmp'
    uniq = '%d-%d' % (os.getpid(), int(time.monotonic() * 1e6))
    lfile = os.path.join(wd, 'iso-%s.evlog' % uniq)
    gate = os.path.join(wd, 'iso-%s.gate' % uniq)
    os.environ['VERIF_EVLOG'] = lfile
    ctx = billiard.get_context(p['method'])
    inq, outq = ctx.SimpleQueue(), ctx.SimpleQueue()
    synq = ctx.SimpleQueue() if p['syn'] else None
    counter = None if p['credit'] == 'absent' else ctx.Value('i')
    sentinel = ctx.Event() if p['sentinel_event'] else None
    w = bpool.Worker(inq, outq, synq, maxtasks=None if p.get('memlimit') else p['quota'],
                     sentinel=sentinel, on_exit=H.on_exit, on_ready_counter=counter,
                     max_memory_per_child=1 if p.get('memlimit') else None)
    proc = ctx.Process(target=w)
    proc.daemon = True
    t_start = time.monotonic()
    proc.start()
    pid = proc.pid
    h = {'pid': pid, 'harness_pid': os.getpid(), 'stream': [], 'sent': {}, 'syn': {},
         'credits': [], 'notes': [], 'ended_by': None, 'death_before_credit': False,
         'synqW_fd': synq._writer.fileno() if (synq and p['method'] == 'fork') else None,
         'inqW_fd': inq._writer.fileno() if p['method'] == 'fork' else None}
    jobs = p['jobs']
    byid = {j['id']: j for j in jobs}
    for k, j in enumerate(jobs):
        if j['desc']['kind'] == 'gate':
            j['desc']['gate'] = '%s.%d' % (gate, k)
    nsent = [0]

    def send_next():
        k = nsent[0]
        if k >= len(jobs):
            return False
        j = jobs[k]
        h['sent'][j['id']] = time.monotonic()
        inq.put((bpool.TASK, (j['id'], j['i'], H.task, (j['desc'],), {})))
        nsent[0] += 1
        return True

    def credit(n=1):
        if counter is None:
            return
        h['credits'].append(time.monotonic())
        with counter.get_lock():
            counter.value += n

    window = {'lockstep': 1, 'window2': 2, 'pipelined': len(jobs)}[p['mode']]
    for _ in range(window):
        send_next()
    resolved = 0            # jobs whose exchange is over (READY seen or NACK answered)
    executed = 0
    uncredited = 0
    death = None
    silent_limit = 40.0
    first_limit = 120.0         # process start-up (spawn imports) on a loaded machine
    in_progress = None
    sleepy = []
    quota = p['quota']
    end_sent = False
    t_last = time.monotonic()
    t_last_credit = None
    held_late = False
    status = 'ok'
    last_block = None
    inodes = {}
    for name, q in (('inq', inq), ('synq', synq)):
        if q is not None:
            try:
                inodes[os.fstat(q._reader.fileno()).st_ino] = name
            except OSError:
                pass
    try:
        while True:
            msg = _recv(outq, 0.25)
            now = time.monotonic()
            if msg is None:
                if proc.exitcode is not None and not outq._reader.poll(0):
                    status = 'died_silently'
                    break
                quota_hit = quota is not None and executed >= quota
                if quota_hit and p['credit'] == 'late' and uncredited:
                    # the worker has to wait for the parent to consume its
                    # results: hold the credit back for a while, watch
                    if now - t_last >= 0.6:
                        held_late = True
                        credit(uncredited)
                        uncredited = 0
                        t_last_credit = time.monotonic()
                        t_last = t_last_credit
                    continue
                if quota_hit and p['credit'] == 'never':
                    if now - t_last > 30 + 60:
                        status = 'guard_exit_never'
                        break
                    continue
                if not quota_hit and resolved >= len(jobs) and not end_sent:
                    # nothing more to feed: the worker must be idle, waiting
                    if now - t_last >= 0.3:
                        if uncredited and p['credit'] != 'never':
                            credit(uncredited)
                            uncredited = 0
                        end_sent = True
                        # (an idle worker blocks in recv on the in-queue: the
                        # None sentinel is what the pool itself sends)
                        h['ended_by'] = 'none_msg'
                        h['t_end_sent'] = time.monotonic()
                        inq.put(None)
                        t_last = time.monotonic()
                    continue
                if now - t_last > 3.0:
                    # not a clock verdict: a worker that sleeps in read() on
                    # its in-queue / syn-queue, burning no CPU between two
                    # samples, while the parent owes it nothing, is stuck
                    b = _blocked_sample(pid, inodes)
                    if b is not None and last_block is not None and b == last_block[0] \
                            and now - last_block[1] >= 1.0:
                        status = 'deadlock'
                        h['blocked_on'] = b[0]
                        break
                    if last_block is None or b != last_block[0]:
                        last_block = (b, now)
                    # the worker naps (nanosleep) although, by the protocol,
                    # it has neither a job in progress nor a reason to leave:
                    # three samples in a row, over 2 s, result pipe empty
                    idle = (h['stream'] and in_progress is None and not end_sent and
                            not (quota is not None and executed >= quota))
                    if idle and _sleeping_sample(pid) and not outq._reader.poll(0):
                        sleepy.append(now)
                        if len(sleepy) >= 3 and sleepy[-1] - sleepy[0] >= 2.0:
                            status = 'stalled'
                            break
                    else:
                        del sleepy[:]
                if now - t_last > (silent_limit if h['stream'] else first_limit):
                    status = 'silent'
                    break
                continue
            typ, args = msg
            h['stream'].append([typ, _plain_args(typ, args, bpool), now])
            t_last = now
            if typ == bpool.ACK:
                jid = args[0]
                j = byid.get(jid)
                if synq is not None and j is not None:
                    if j['syn_delay']:
                        time.sleep(j['syn_delay'])
                    resp = bpool.NACK if j['nack'] else bpool.ACK
                    h['syn'][jid] = [resp == bpool.NACK, time.monotonic()]
                    synq.put((resp, (pid, jid)))
                    if j['nack']:
                        resolved += 1
                        send_next()
                    else:
                        in_progress = jid
                else:
                    in_progress = jid
                if j is not None and j['desc']['kind'] == 'gate' and not (synq is not None and j['nack']):
                    # the gate opens only now, after the ACK has been *read*
                    h.setdefault('gate_opened', {})[jid] = time.monotonic()
                    open(j['desc']['gate'], 'w').close()
            elif typ == bpool.READY:
                executed += 1
                resolved += 1
                in_progress = None
                if p['credit'] == 'immediate':
                    credit(1)
                    t_last_credit = time.monotonic()
                elif p['credit'] in ('late', 'never'):
                    uncredited += 1
                    if p['credit'] == 'late' and not (quota is not None and executed >= quota) \
                            and uncredited >= 3:
                        credit(uncredited)
                        uncredited = 0
                send_next()
            elif typ == bpool.DEATH:
                death = now
                if uncredited and p['credit'] == 'late':
                    h['death_before_credit'] = True
                break
            else:
                h['notes'].append('unknown message type %r' % (typ,))
    finally:
        h['status'] = status
        h['executed_seen'] = executed
        h['held_late'] = held_late
        h['t_last_credit'] = t_last_credit
        h['t_death'] = death
        # the real parent answers DEATH with a termination signal
        if death is not None and p['term_after_death']:
            try:
                os.kill(pid, signal.SIGTERM)
            except OSError:
                pass
        t_j = time.monotonic()
        proc.join(20 if status == 'ok' else 2)
        if proc.exitcode is None:
            h['notes'].append('worker had to be killed by the harness (status %s)' % status)
            try:
                os.kill(pid, signal.SIGKILL)
            except OSError:
                pass
            proc.join(10)
            h['killed_by_harness'] = True
        h['join_wall'] = time.monotonic() - t_j
        h['exitcode'] = proc.exitcode
        # anything written after DEATH?
        extra = []
        try:
            while outq._reader.poll(0):
                typ, args = outq.get()
                extra.append([typ, _plain_args(typ, args, bpool)])
        except (EOFError, OSError):
            pass
        if death is None:
            # the harness stopped reading: what was still in the pipe is the
            # rest of the stream, not something sent after a DEATH
            h['stream'].extend([typ, a, time.monotonic()] for typ, a in extra)
            h['drained_after_stop'] = len(extra)
            extra = []
        h['after_death'] = extra
        h['unread_tasks'] = len(jobs) - nsent[0]
        h['nsent'] = nsent[0]
        h['wall'] = time.monotonic() - t_start
        for q in (inq, outq, synq):
            if q is not None:
                try:
                    q.close()
                except Exception:       # noqa
                    pass
        h['events'] = evlog.read(lfile)
        for f in [lfile] + [j['desc']['gate'] for j in jobs if j['desc']['kind'] == 'gate']:
            try:
                os.unlink(f)
            except OSError:
                pass
    return h


def _blocked_sample(pid, inodes):
    from vmon.c03_helpers import blocked_sample
    return blocked_sample(pid, inodes)


def _sleeping_sample(pid):
    from vmon.c03_helpers import sleeping_sample
    return sleeping_sample(pid)


def _plain_args(typ, args, bpool):
    """JSON-able rendering of a message's arguments"""
    try:
        if typ == bpool.ACK:
            return {'job': args[0], 'i': args[1], 'time': args[2], 'pid': args[3],
                    'synqW_fd': args[4], 'len': len(args)}
        if typ == bpool.READY:
            job, i, result, fd = args
            ok, val = result
            out = {'job': job, 'i': i, 'ok': bool(ok), 'inqW_fd': fd, 'len': len(args)}
            if ok:
                out['value'] = val if not (isinstance(val, list) and len(val) == 3 and
                                           isinstance(val[2], str) and len(val[2]) > 100) \
                    else [val[0], val[1], 'len:%d' % len(val[2])]
            else:
                et = getattr(val, 'type', None)
                out['etype'] = getattr(et, '__name__', repr(et))
                ex = getattr(val, 'exception', None)
                out['eargs'] = repr(getattr(ex, 'args', None))[:200]
            return out
        if typ == bpool.DEATH:
            return {'pid': args[0], 'exitcode': args[1], 'len': len(args)}
    except Exception as e:               # noqa
        return {'malformed': repr(args)[:300], 'error': repr(e)}
    return {'raw': repr(args)[:300]}


def judge_lifetime(p, h, rec):
    from billiard import pool as bpool
    ACK, READY, DEATH = bpool.ACK, bpool.READY, bpool.DEATH
    EX_RECYCLE = bpool.EX_RECYCLE
    rec.case()
    rec.count('iso:lifetimes')
    rec.count('iso:%s_lifetimes' % p['method'])
    jobs = p['jobs']
    byid = {j['id']: j for j in jobs}
    pid = h['pid']
    quota = p['quota']
    base = {'lane': 'iso', 'method': p['method'], 'syn': p['syn']}
    witness = {'params': _compact_params(p), 'stream': _compact_stream(h['stream'], bpool),
               'exitcode': h['exitcode'], 'status': h['status'], 'notes': h['notes']}

    def V(kind, attrs=None, **detail):
        a = dict(base)
        a.update(attrs or {})
        detail.setdefault('witness', witness)
        rec.violation(kind, a, **detail)

    ev = h['events']
    starts, ends = {}, {}
    for e in ev:
        if e['k'] == 'task_start':
            starts.setdefault(e['tag'], []).append(e)
        elif e['k'] == 'task_end':
            ends.setdefault(e['tag'], []).append(e)

    # ---- the stream against the grammar ---------------------------------
    state = None                  # job id between ACK and READY
    acked, readied, refused = [], [], []
    seen_death = None
    prev_exec = None              # previous executed job (for time ordering)
    for typ, a, t in h['stream']:
        if 'malformed' in a or 'raw' in a:
            V('malformed_message', {'type': typ}, message=a)
            continue
        if seen_death is not None:
            V('message_after_death', {'type': typ}, message=a)
        if typ == ACK:
            rec.count('iso:ack')
            jid = a['job']
            j = byid.get(jid)
            if j is None:
                V('ack_for_unknown_job', message=a)
                continue
            kattr = {'result': j['desc']['kind']}
            if state is not None:
                V('job_taken_before_previous_result', kattr, previous=state, message=a)
            if jid in acked:
                V('duplicate_ack', kattr, message=a)
            elif len(acked) < len(jobs) and jobs[len(acked)]['id'] != jid:
                V('ack_out_of_order', kattr, expected=jobs[len(acked)]['id'], message=a)
            acked.append(jid)
            if quota is not None and len(readied) >= quota:
                V('job_taken_after_quota', dict(kattr, nacks=bool(refused)), message=a,
                  executed=len(readied), quota=quota)
            if a['len'] != 5 or a['i'] != j['i']:
                V('ack_fields_wrong', kattr, message=a, sent_i=j['i'])
            if a['pid'] != pid:
                V('ack_pid_wrong', kattr, ack_pid=a['pid'], child_pid=pid,
                  harness_pid=h['harness_pid'])
            if h['synqW_fd'] is not None and a['synqW_fd'] != h['synqW_fd']:
                V('ack_fields_wrong', dict(kattr, field='synqW_fd'), message=a, expected=h['synqW_fd'])
            if not p['syn'] and a['synqW_fd'] is not None:
                V('ack_fields_wrong', dict(kattr, field='synqW_fd'), message=a, expected=None)
            ta = a['time']
            t_sent = h['sent'].get(jid)
            rec.count('iso:ack_time_checked')
            if not isinstance(ta, float) or t_sent is None or not (t_sent <= ta <= t):
                V('ack_time_outside_window', kattr, ack_time=ta, task_sent=t_sent, ack_received=t)
            else:
                st = starts.get(j['desc']['tag'])
                if st and ta > st[0]['t']:
                    V('ack_time_after_task_start', kattr, ack_time=ta, task_start=st[0]['t'])
                if prev_exec is not None:
                    pe = ends.get(prev_exec['desc']['tag'])
                    if pe and ta < pe[0]['t']:
                        V('ack_time_before_previous_task_end', kattr, ack_time=ta,
                          previous_task_end=pe[0]['t'])
            if p['syn'] and j['nack']:
                refused.append(jid)
                rec.count('iso:nack_sent')
                if quota is not None:
                    rec.count('iso:nack_with_quota')
            else:
                state = jid
                prev_exec = j
        elif typ == READY:
            rec.count('iso:ready')
            jid = a['job']
            j = byid.get(jid)
            kattr = {'result': j['desc']['kind'] if j else None}
            if jid == state:
                state = None
                readied.append(jid)
            elif jid in readied:
                V('duplicate_ready', kattr, message=a)
            elif jid in refused:
                V('result_for_refused_job', kattr, message=a)
            elif jid not in acked:
                V('ready_without_ack', kattr, message=a)
            else:
                V('ready_out_of_order', kattr, message=a, expected=state)
            if j is not None:
                check_ready_payload(j, a, h, V, rec)
        elif typ == DEATH:
            rec.count('iso:death')
            seen_death = a
            if state is not None:
                V('death_with_job_in_progress', {'result': byid[state]['desc']['kind']}, job=state)
            if a['pid'] != pid:
                V('death_pid_wrong', death_pid=a['pid'], child_pid=pid)
    for typ, a in h['after_death']:
        V('message_after_death', {'type': typ}, message=a)

    # ---- task side effects ----------------------------------------------
    for j in jobs:
        tag, jid, kind = j['desc']['tag'], j['id'], j['desc']['kind']
        st = starts.get(tag, [])
        kattr = {'result': kind}
        if jid in refused:
            rec.count('iso:refused_jobs_checked')
            if st:
                V('refused_job_executed', kattr, job=jid, task_events=st[:2])
        elif jid not in acked:
            if st:
                V('executed_without_accept', kattr, job=jid, task_events=st[:2])
        else:
            finished = jid in readied
            if len(st) > 1 or (finished and len(st) != 1):
                V('task_not_executed_once', kattr, job=jid, runs=len(st), ready_seen=finished)
            for e in st:
                if e['pid'] != pid:
                    V('task_ran_in_wrong_process', kattr, job=jid, ran_in=e['pid'], child_pid=pid)
            syn = h['syn'].get(jid)
            if syn and st:
                rec.count('iso:syn_wait_checked')
                if st[0]['t'] < syn[1]:
                    V('task_started_before_syn_answer', kattr, task_start=st[0]['t'],
                      syn_answer_sent=syn[1], delay=j['syn_delay'])
                if j['syn_delay'] > 1.0:
                    rec.count('iso:syn_delay_long')
            go = h.get('gate_opened', {}).get(jid)
            en = ends.get(tag)
            gate_seen = next((a.get('value') for typ, a, _t in h['stream']
                              if typ == READY and a.get('job') == jid), None)
            if go and en and isinstance(gate_seen, list) and gate_seen[2:] == [True]:
                rec.count('iso:gate_checked')
                if en[0]['t'] < go:
                    V('task_finished_before_ack_was_readable', kattr, task_end=en[0]['t'],
                      gate_opened_after_ack_read=go)

    # ---- counters, quota, exit ------------------------------------------
    executed = len(readied)
    nacks = bool(refused)
    qattr = {'nacks': nacks, 'credit': p['credit'], 'memlimit': bool(p.get('memlimit'))}
    if quota is not None and executed > quota:
        V('quota_exceeded', qattr, executed=executed, quota=quota)
    if seen_death is not None:
        code = seen_death['exitcode']
        if h['ended_by'] is None:
            if quota is None:
                V('worker_exited_without_quota', qattr, death=seen_death)
            else:
                rec.count('iso:quota_exits_checked')
                if p.get('memlimit'):
                    rec.count('iso:memlimit_exits_checked')
                if executed != quota:
                    V('quota_exit_wrong_count', qattr, executed=executed, quota=quota,
                      refused=len(refused), death=seen_death)
                if code != EX_RECYCLE:
                    V('recycle_status_wrong', qattr, death=seen_death, expected=EX_RECYCLE)
                else:
                    rec.count('iso:death_155')
        else:
            rec.count('iso:ended_by_' + h['ended_by'])
            if quota is not None and executed >= quota:
                rec.anomaly('sentinel_raced_quota_exit', executed=executed, quota=quota)
        if not h.get('killed_by_harness') and h['exitcode'] != code:
            V('exit_status_differs_from_death_message', qattr, death=seen_death,
              real_exitcode=h['exitcode'], term_after_death=p['term_after_death'])
        oe = [e for e in ev if e['k'] == 'on_exit']
        if oe:
            rec.count('iso:on_exit_seen')
            if (oe[0]['wpid'], oe[0]['exitcode']) != (pid, code):
                V('exit_callback_arguments_wrong', qattr, got=[oe[0]['wpid'], oe[0]['exitcode']],
                  expected=[pid, code])
        if h['death_before_credit']:
            V('exit_before_results_consumed', qattr, executed=executed,
              credited=len(h['credits']))
        if h['held_late']:
            rec.count('iso:late_credit_held')
        if p['credit'] == 'never' and quota is not None and h['ended_by'] is None:
            lr = [t for typ, a, t in h['stream'] if typ == READY]
            waited = h['t_death'] - lr[-1] if lr else None
            rec.count('iso:guard_waited')
            rec.maxi('max:guard_wait_ms', int((waited or 0) * 1000))
            if waited is not None and waited < 29.5:
                V('consumption_guard_cut_short', qattr, waited=waited)
        if p['credit'] in ('immediate', 'late') and h['t_last_credit'] and quota is not None \
                and h['ended_by'] is None:
            lag = h['t_death'] - h['t_last_credit']
            rec.maxi('max:exit_after_credit_ms', int(lag * 1000))
            if lag > 20.0:
                V('exit_delayed_after_consumption', qattr, lag=lag)
    if h['status'] == 'died_silently':
        V('worker_died_without_death_message', qattr, exitcode=h['exitcode'],
          in_progress=state, events_tail=ev[-4:])
    elif h['status'] == 'guard_exit_never':
        V('guard_exit_never', qattr)
    elif h['status'] in ('silent', 'deadlock', 'stalled'):
        if state is not None:
            phase = 'awaiting_ready'
        elif quota is not None and executed >= quota:
            phase = 'awaiting_exit_after_quota'
        elif h['ended_by']:
            phase = 'awaiting_exit_after_sentinel'
        elif len(acked) < h['nsent']:
            phase = 'awaiting_ack'
        else:
            phase = 'other'
        if h['status'] == 'stalled':
            V('worker_stalled_outside_protocol', dict(qattr, phase=phase), executed=executed,
              acked=len(acked), refused=len(refused), sent=h['nsent'], quota=quota,
              what='sleeping with no job in progress, quota not reached, not asked to leave')
        elif h['status'] == 'deadlock':
            V('worker_deadlocked', dict(qattr, phase=phase, blocked_on=h.get('blocked_on')),
              executed=executed, acked=len(acked), sent=h['nsent'], quota=quota,
              events_tail=ev[-4:])
        else:
            V('worker_silent', dict(qattr, phase=phase), executed=executed, acked=len(acked),
              sent=h['nsent'], quota=quota, events_tail=ev[-4:])

    # ---- evidence --------------------------------------------------------
    kinds = sorted({j['desc']['kind'] for j in jobs if j['id'] in acked})
    nontrivial = nacks or any(k not in PLAIN for k in kinds)
    how = 'quota' if (seen_death and h['ended_by'] is None) else (h['ended_by'] or h['status'])
    if nontrivial:
        npat = 'none' if not refused else ('all' if len(refused) == len(acked) else
                                           ('first' if acked and acked[0] in refused else 'some'))
        rec.sig([p['method'], p['syn'], quota if quota is None else min(quota, 3), p['mode'],
                 p['credit'], kinds, npat, how])
    rec.sample({'lane': 'iso', 'method': p['method'], 'quota': quota, 'syn': p['syn'],
                'mode': p['mode'], 'credit': p['credit'], 'ended': how,
                'stream': _compact_stream(h['stream'], bpool)[:40], 'exitcode': h['exitcode']})


def check_ready_payload(j, a, h, V, rec):
    d = j['desc']
    kind, tag = d['kind'], d['tag']
    kattr = {'result': kind}
    if a['len'] != 4 or a['i'] != j['i']:
        V('ready_fields_wrong', kattr, message=a, sent_i=j['i'])
    if h['inqW_fd'] is not None and a['inqW_fd'] != h['inqW_fd']:
        V('ready_fields_wrong', dict(kattr, field='inqW_fd'), message=a, expected=h['inqW_fd'])
    bad = None
    if kind in ('ok', 'sleep'):
        if not (a['ok'] and a.get('value') == ['v', tag]):
            bad = 'expected value of this task'
    elif kind == 'none':
        if not (a['ok'] and a.get('value') is None):
            bad = 'expected None'
    elif kind == 'big':
        if not (a['ok'] and a.get('value') == ['v', tag, 'len:%d' % d['size']]):
            bad = 'expected the big value of this task'
    elif kind == 'gate':
        if not (a['ok'] and isinstance(a.get('value'), list) and a['value'][:2] == ['v', tag]):
            bad = 'expected value of this task'
    elif kind in ('exc', 'base'):
        if kind == 'base':
            rec.count('iso:base_exc_ready')
        if a['ok'] or a.get('etype') != d['exc'] or tag not in a.get('eargs', ''):
            bad = 'expected failure %s(%s)' % (d['exc'], tag)
    elif kind == 'sysexit':
        rec.count('iso:base_exc_ready')
        if a['ok'] or a.get('etype') != 'SystemExit':
            bad = 'expected failure SystemExit'
    elif kind in ('unpick', 'exc_unpick'):
        rec.count('iso:encoding_error_ready')
        if a['ok'] or a.get('etype') != 'MaybeEncodingError':
            bad = 'expected failure MaybeEncodingError'
    if bad:
        V('result_not_of_this_task', kattr, why=bad, message=a, desc=d)


def _compact_stream(stream, bpool):
    names = {bpool.ACK: 'ACK', bpool.READY: 'READY', bpool.DEATH: 'DEATH'}
    out = []
    for typ, a, t in stream:
        n = names.get(typ, str(typ))
        if typ == bpool.ACK:
            out.append('%s %s' % (n, a.get('job')))
        elif typ == bpool.READY:
            out.append('%s %s %s' % (n, a.get('job'),
                                     'ok' if a.get('ok') else a.get('etype')))
        elif typ == bpool.DEATH:
            out.append('%s %s' % (n, a.get('exitcode')))
        else:
            out.append(n)
    return out


def _compact_params(p):
    q = {k: v for k, v in p.items() if k != 'jobs'}
    q['jobs'] = [[j['id'], j['desc']['kind'], j['desc'].get('exc') or j['desc'].get('what'),
                  'NACK' if j['nack'] else '', j['syn_delay']] for j in p['jobs']]
    return q


# --------------------------------------------------------------------------
# lane POOL (real pools in a host process)
# --------------------------------------------------------------------------

def gen_pool(rng, sc, tier):
    if sc == 'plain':
        nproc = rng.choice([1, 2, 3])
        jobs = []
        for k in range(rng.choice([4, 6, 9])):
            kind = rng.choice(['pid', 'pid', 'pid', 'exc', 'unpick', 'gate', 'base'])
            d = {'tag': 'p%d' % k, 'kind': kind}
            if kind == 'pid':
                d['dur'] = rng.choice([0, 0.005, 0.03])
            elif kind == 'exc':
                d['exc'] = rng.choice(['KeyError', 'TaskError'])
            elif kind == 'base':
                d['exc'] = rng.choice(['KeyboardInterrupt', 'GeneratorExit'])
            elif kind == 'unpick':
                d['what'], d['depth'] = rng.choice(['lambda', 'gen'] + H.UNPICK_WHATS), rng.choice([0, 2])
            elif kind == 'gate':
                d['maxwait'] = 40.0
            jobs.append({'tag': d['tag'], 'desc': d, 'pause': rng.choice([0, 0, 0.01])})
        p = {'nproc': nproc, 'jobs': jobs, 'gate_delay': rng.choice([0.02, 0.1, 0.3])}
        if rng.random() < 0.7:
            chunk = rng.choice([1, 2, 3])
            p['map'] = {'n': rng.choice([2, 3, 5, 7]), 'chunk': chunk}
        return p
    nproc = rng.choice([1, 1, 2])
    maxtasks = rng.choice([None, 2, 2, 3])
    jobs = []
    n = rng.choice([5, 7, 9])
    for k in range(n):
        kind = rng.choice(['pid', 'pid', 'ok', 'exc'])
        d = {'tag': 's%d' % k, 'kind': kind}
        if kind == 'exc':
            d['exc'] = 'KeyError'
        elif kind == 'pid':
            d['dur'] = rng.choice([0, 0.01, 0.05])
        r = rng.random()
        cancel = 'before' if r < 0.45 else ('after_accept' if r < 0.6 else None)
        jobs.append({'tag': d['tag'], 'desc': d, 'cancel': cancel})
    if not any(j['cancel'] == 'before' for j in jobs):
        jobs[rng.randrange(n)]['cancel'] = 'before'
    return {'nproc': nproc, 'maxtasks': maxtasks, 'jobs': jobs,
            'settle': rng.choice([0, 0.05]), 'linger': 0.5}


def run_pool_spec(spec, rec):
    from vmon import real
    rng = rng_for(spec['seed'], 'pool')
    sc = spec['sc']
    p = gen_pool(rng, sc, spec.get('tier', 'quick'))
    r = real.run_scenario('vmon.c03_helpers', 'sc_' + sc, p, timeout=spec['timeout'] - 30,
                          tag='c03' + sc)
    obs, ev = r['obs'], r['events']
    if r['status'] == 'scenario_error':
        raise RuntimeError('scenario error: ' + obs.get('scenario_exception', r['stderr'][-2000:]))
    rec.case()
    rec.count('pool:scenarios')
    attrs = {'lane': 'pool', 'scenario': sc}
    if r['status'] in ('hang', 'died') and 'sub' not in obs:
        if r['status'] == 'hang':
            rec.violation('scenario_hung', attrs, params=p, obs=obs, stacks=r['stderr'][-5000:],
                          events_tail=ev[-10:])
        else:
            rec.violation('host_process_died', attrs, params=p, rc=r['rc'],
                          stderr=r['stderr'][-3000:])
        return
    if r['status'] == 'hang':
        rec.violation('scenario_hung', dict(attrs, phase='close_join'), params=p,
                      stacks=r['stderr'][-5000:])
    judge_pool(sc, p, obs, ev, attrs, rec)


def run_ackwin_spec(spec, rec):
    """lane ACKWIN (real pool, pool threads on): the result handler naps at
    one line of ApplyResult._ack while the timeout scanner / the supervisor
    resolves the same job; the accept callback still precedes the result
    callback (events: callback stamps taken in the parent)"""
    from vmon import real
    rng = rng_for(spec['seed'], 'ackwin')
    for resolver in ('hard', 'termjob', 'lost'):
        p = {'resolver': resolver, 'line': rng.randrange(2, 13), 'nap': 2.6}
        r = real.run_scenario('vmon.real_pool', 'sc_ack_window', p, timeout=100,
                              tag='c03ackwin')
        obs = r['obs']
        if r['status'] == 'scenario_error':
            raise RuntimeError('scenario error: ' + obs.get('scenario_exception', r['stderr'][-2000:]))
        rec.case()
        rec.count('ackwin:scenarios')
        attrs = {'lane': 'ackwin', 'resolver': resolver}
        if r['status'] != 'ok' or 'cbs' not in obs:
            rec.violation('scenario_hung' if r['status'] == 'hang' else 'host_process_died',
                          attrs, params=p, obs=obs, stacks=r['stderr'][-4000:])
            continue
        which = [c[0] for c in obs['cbs']]
        if not obs.get('nap_reached'):
            rec.anomaly('ack_window_not_reached', params=p)
            continue
        rec.count('ackwin:nap_reached')
        if obs['outcome'][0] == 'unresolved':
            rec.violation('job_not_resolved', attrs, params=p, obs=obs)
            continue
        res = [w for w in which if w in ('ok', 'err')]
        if which.count('accept') != 1 or len(res) != 1:
            rec.violation('accept_or_result_callback_not_once', attrs, params=p, callbacks=obs['cbs'],
                          outcome=obs['outcome'])
            continue
        rec.count('ackwin:accept_before_result')
        if obs['outcome'][0] == 'exc':
            rec.count('ackwin:resolved_by_other_thread')
        if which.index('accept') > which.index(res[0]):
            rec.violation('result_callback_before_accept_callback', attrs, params=p,
                          callbacks=obs['cbs'], nap_at_line=obs.get('nap_at_line'))
        if obs.get('probe', ['?'])[0] != 'ok':
            rec.violation('pool_unusable_afterwards', attrs, params=p, probe=obs.get('probe'))
        rec.sig(['ackwin', resolver, obs.get('nap_at_line'), obs['outcome'][:2]])
        rec.sample({'lane': 'ackwin', 'resolver': resolver, 'nap_at_line': obs.get('nap_at_line'),
                    'outcome': obs['outcome'][:2], 'callback_order': which})


def judge_pool(sc, p, obs, ev, attrs, rec):
    sub, cbs, outs = obs['sub'], obs.get('cbs', []), obs['outcomes']
    starts = {}
    for e in ev:
        if e['k'] == 'task_start':
            starts.setdefault(e['tag'], []).append(e)
    sends = {}
    for e in ev:
        if e['k'] == 'send_ack':
            sends.setdefault(e['job'], []).append(e)

    def V(kind, extra=None, **detail):
        a = dict(attrs)
        a.update(extra or {})
        rec.violation(kind, a, params=p, **detail)

    if obs.get('deadlock'):
        on = sorted({w[1] for w in obs['deadlock'].get('workers', [])})
        V('worker_deadlocked', {'blocked_on': '+'.join(on)}, deadlock=obs['deadlock'],
          events_tail=ev[-8:])
        return
    if sc == 'synack' and not obs.get('blockers_accepted'):
        V('job_not_accepted', {'phase': 'first_jobs'}, waited=30, events_tail=ev[-8:])
        return
    kinds = {j['tag']: j['desc']['kind'] for j in p['jobs']}
    n_ref = 0
    for tag, s in sub.items():
        mine = [(n, c) for n, c in enumerate(cbs) if c['tag'] == tag]
        acc = [(n, c) for n, c in mine if c['which'] == 'accept']
        res = [(n, c) for n, c in mine if c['which'] in ('ok', 'err')]
        st = starts.get(tag, [])
        kattr = {'result': kinds.get(tag, 'gate')}
        cancel = s.get('cancel')
        if cancel == 'before':
            n_ref += 1
            rec.count('pool:refused_jobs')
            if st:
                V('refused_job_executed', kattr, tag=tag, task_events=st[:2])
            if res or s['final_ready']:
                V('result_for_refused_job', kattr, tag=tag, callbacks=[c for _n, c in res])
            sa = sends.get(s['job'], [])
            if s['final_accepted'] and not (len(sa) == 1 and sa[0]['response'] == 3):
                V('cancelled_job_not_refused', kattr, tag=tag, send_ack_calls=sa)
            if not s['final_accepted']:
                rec.anomaly('refused_job_never_offered_to_a_worker', tag=tag)
            continue
        if cancel == 'after_accept':
            rec.count('pool:cancel_after_accept')
        oc = outs.get(tag)
        if oc is None or (oc[0] == 'exc' and oc[1] == 'TimeoutError'):
            V('job_not_resolved', dict(kattr, cancel=cancel), tag=tag, outcome=oc,
              accepted=s['final_accepted'], send_ack_calls=sends.get(s['job']))
            continue
        if len(acc) != 1:
            V('accept_callback_not_once', kattr, tag=tag, n=len(acc))
            continue
        if len(res) != 1:
            V('result_callback_not_once', kattr, tag=tag, n=len(res))
            continue
        rec.count('pool:accept_before_result')
        if acc[0][0] > res[0][0] or acc[0][1]['t'] > res[0][1]['t']:
            V('result_callback_before_accept_callback', kattr, tag=tag,
              callbacks=[c for _n, c in mine])
        a = acc[0][1]
        if len(st) != 1:
            V('task_not_executed_once', kattr, tag=tag, runs=len(st))
            continue
        rec.count('pool:owner_checked')
        ran_in = st[0]['pid']
        if a['pid'] != ran_in:
            V('owner_is_not_the_executing_worker', dict(kattr, via='accept_callback'), tag=tag,
              accept_pid=a['pid'], executed_in=ran_in)
        if not a.get('no_handle_yet'):
            if a['worker_pids'] != [ran_in] or not a['accepted']:
                V('owner_is_not_the_executing_worker', dict(kattr, via='worker_pids'), tag=tag,
                  worker_pids=a['worker_pids'], accepted=a['accepted'], executed_in=ran_in)
        if s['final_worker_pids'] != [ran_in] or not s['final_accepted']:
            V('owner_is_not_the_executing_worker', dict(kattr, via='worker_pids_final'), tag=tag,
              worker_pids=s['final_worker_pids'], executed_in=ran_in)
        ta = a['time_accepted']
        if not (isinstance(ta, float) and s['t_submit'] <= ta <= a['t'] and ta <= st[0]['t']):
            V('accept_time_outside_window', kattr, tag=tag, time_accepted=ta,
              submitted=s['t_submit'], callback_at=a['t'], task_start=st[0]['t'])
        if s['time_accepted'] != ta:
            V('accept_time_not_recorded', kattr, tag=tag, handle=s['time_accepted'], callback=ta)
        k = kinds.get(tag)
        if k == 'pid' and (oc[0] != 'ok' or oc[1][2] != a['pid']):
            V('owner_is_not_the_executing_worker', dict(kattr, via='task_value'), tag=tag,
              outcome=oc, accept_pid=a['pid'])
        if sc == 'synack':
            sa = sends.get(s['job'], [])
            if not (len(sa) == 1 and sa[0]['response'] == 0 and sa[0]['wpid'] == ran_in):
                V('accepted_job_not_confirmed_once', kattr, tag=tag, send_ack_calls=sa)
    for smp in obs.get('inflight_samples', []):
        st = starts.get(smp['tag'], [])
        if smp['accepted'] and not smp['ready'] and len(st) == 1:
            rec.count('pool:inflight_owner_checked')
            if smp['worker_pids'] != [st[0]['pid']]:
                V('owner_is_not_the_executing_worker', {'via': 'worker_pids_in_flight'},
                  sample=smp, executed_in=st[0]['pid'])
    ms = obs.get('map_sample')
    if ms:
        c = ms['chunk']
        for j in range(ms['n']):
            first = starts.get('m%d' % ((j // c) * c), [])
            if ms['accepted'][j] and len(first) == 1:
                rec.count('pool:map_owner_checked')
                if ms['worker_pid'][j] != first[0]['pid']:
                    V('owner_is_not_the_executing_worker', {'via': 'map_worker_pid'},
                      element=j, sample=ms, executed_in=first[0]['pid'])
            elif not ms['accepted'][j] and ms['worker_pid'][j]:
                V('owner_recorded_without_acceptance', {'via': 'map_worker_pid'}, element=j, sample=ms)
        if obs.get('map_outcome', ['?'])[0] == 'ok' and obs.get('map_final_worker_pids'):
            rec.anomaly('map_owners_left_after_completion', pids=obs['map_final_worker_pids'])
    # quota on the real pool: refused jobs do not count
    mt = p.get('maxtasks')
    if mt:
        per = {}
        for tag, st in starts.items():
            for e in st:
                per[e['pid']] = per.get(e['pid'], 0) + 1
        for e in ev:
            if e['k'] == 'on_process_exit' and e['exitcode'] == 155:
                rec.count('pool:recycle_exits_checked')
                if per.get(e['wpid'], 0) != mt:
                    V('quota_exit_wrong_count', {'nacks': bool(n_ref)}, pid=e['wpid'],
                      executed=per.get(e['wpid'], 0), quota=mt)
        for pid, n in per.items():
            if n > mt:
                V('quota_exceeded', {'nacks': bool(n_ref)}, pid=pid, executed=n, quota=mt)
    if obs.get('cache_left'):
        rec.count('pool:refused_jobs_left_in_cache', len(obs['cache_left']))
    pat = sorted((kinds.get(t, 'gate'), s.get('cancel') or '') for t, s in sub.items())
    rec.sig(['pool', sc, p['nproc'], p.get('maxtasks'), pat, bool(p.get('map'))])
    rec.sample({'lane': 'pool', 'scenario': sc, 'nproc': p['nproc'], 'maxtasks': p.get('maxtasks'),
                'jobs': [[j['tag'], j['desc']['kind'], j.get('cancel')] for j in p['jobs']],
                'callback_order': [[c['tag'], c['which']] for c in cbs][:30]})


# --------------------------------------------------------------------------
# lane PARENT: real ResultHandler handlers + ApplyResult / MapResult, scripted
# worker messages in seeded orders relative to _cancel()
# --------------------------------------------------------------------------

class _FakeCounter:
    """stands in for the shared Value('i') (same interface)"""

    def __init__(self):
        import threading
        self.value = 0
        self._l = threading.Lock()

    def get_lock(self):
        return self._l


def run_parent_spec(spec, rec):
    try:
        from billiard import pool as bpool
        from billiard.common import restart_state
        from billiard.einfo import ExceptionInfo
        cache = {}
        counters = {}
        rh = bpool.ResultHandler(None, None, cache, None, None, None, restart_state(100, 1),
                                 None, None, on_ready_counters=counters)
        deliver = rh.on_state_change
        bpool.ApplyResult, bpool.MapResult
    except Exception as e:           # noqa
        rec.missing('ResultHandler/ApplyResult for the parent lane: %r' % (e,))
        return
    ACK, READY, NACK = bpool.ACK, bpool.READY, bpool.NACK
    for hno in range(spec['histories']):
        only = spec.get('only')
        if only is not None and only != hno:
            continue
        rng = rng_for(spec['seed'], 'parent', hno)
        cache.clear()
        counters.clear()
        pids = rng.sample(range(5000000, 5000100), rng.choice([1, 2, 3]))
        for q in pids:
            counters[q] = _FakeCounter()
        log = []                  # ordered observations
        synack = rng.random() < 0.8
        jobs = []
        for k in range(rng.choice([1, 2, 3, 4])):
            tag = 'j%d' % k
            j = {'tag': tag, 'pid': rng.choice(pids), 'fd': rng.randrange(3, 60),
                 't': 1000.0 + rng.random() * 100, 'success': rng.random() < 0.6,
                 'cancel_at': rng.choice([None, None, 'before_ack', 'before_ack', 'after_ack',
                                          'after_ready']),
                 'state': 'new', 'response': None}

            def mk(which, tag=tag):
                return lambda *a: log.append((which, tag) + tuple(a))

            def send_ack(response, pid, job, fd, tag=tag):
                log.append(('send_ack', tag, response, pid, job, fd))
            j['h'] = bpool.ApplyResult(
                cache, mk('ok') if rng.random() < 0.8 else None,
                mk('accept') if rng.random() < 0.8 else None, None,
                mk('err') if rng.random() < 0.8 else None,
                send_ack=send_ack if synack else None)
            j['has'] = {'ok': j['h']._callback is not None, 'accept': j['h']._accept_callback is not None,
                        'err': j['h']._error_callback is not None}
            if j['success']:
                j['result'] = (True, ['v', tag])
            else:
                try:
                    raise KeyError(tag)
                except KeyError:
                    j['result'] = (False, ExceptionInfo())
            jobs.append(j)
        hist = []
        attrs = {'lane': 'parent', 'synack': synack}

        def V(kind, extra=None, **detail):
            a = dict(attrs)
            a.update(extra or {})
            rec.violation(kind, a, history=hist, seed=spec['seed'], history_index=hno, **detail)

        steps = 0
        while steps < 100:
            steps += 1
            acts = []
            # a worker has one unanswered job at a time (it takes the next one only
            # after its result, or after the parent refused the job): an
            # acknowledgement can only come from a worker that is free
            busy_pids = {x['pid'] for x in jobs
                         if x['state'] == 'acked' and x['response'] != NACK}
            free_pids = [q for q in pids if q not in busy_pids]
            for j in jobs:
                if j['state'] == 'new':
                    if free_pids:
                        acts.append((j, 'ack'))
                    if j['cancel_at'] == 'before_ack' and not j.get('cancelled'):
                        acts.append((j, 'cancel'))
                elif j['state'] == 'acked':
                    if j['cancel_at'] == 'after_ack' and not j.get('cancelled'):
                        acts.append((j, 'cancel'))
                    if j['response'] != NACK:
                        acts.append((j, 'ready'))
                elif j['state'] == 'done':
                    if j['cancel_at'] == 'after_ready' and not j.get('cancelled'):
                        acts.append((j, 'cancel'))
            if not acts:
                break
            j, act = rng.choice(acts)
            if act == 'ack' and j['cancel_at'] == 'before_ack' and not j.get('cancelled') \
                    and rng.random() < 0.7:
                act = 'cancel'
            hist.append([act, j['tag']])
            h = j['h']
            n0 = len(log)
            try:
                if act == 'cancel':
                    h._cancel()
                    j['cancelled'] = True
                    j['cancelled_in'] = j['state']
                    continue
                if act == 'ack':
                    if j['pid'] in busy_pids:
                        j['pid'] = rng.choice(free_pids)
                    deliver((ACK, (h._job, None, j['t'], j['pid'], j['fd'])))
                else:
                    c0 = counters[j['pid']].value
                    deliver((READY, (h._job, None, j['result'], 7)))
            except BaseException as e:        # noqa
                V('result_handler_raised', {'on': act}, error=repr(e),
                  tb=traceback.format_exc()[-1500:])
                j['state'] = 'broken'
                continue
            new = log[n0:]
            if act == 'ack':
                j['state'] = 'acked'
                refused = synack and j.get('cancelled_in') == 'new'
                sa = [x for x in new if x[0] == 'send_ack']
                ac = [x for x in new if x[0] == 'accept']
                if refused:
                    rec.count('parent:nack_sent')
                    j['response'] = NACK
                    if sa != [('send_ack', j['tag'], NACK, j['pid'], h._job, j['fd'])]:
                        V('cancelled_job_not_refused', send_ack_calls=sa)
                        j['response'] = sa[0][2] if sa else None
                    if not h.accepted():
                        V('refused_job_not_marked_accepted')
                    # nobody runs a refused job: it has no owner and no acceptance
                    # time (the time-limit scanner and the supervisor would act on
                    # the refusing worker, which is busy with another job by then)
                    rec.count('parent:refused_owner_checked')
                    if h.worker_pids() or getattr(h, '_time_accepted', None) is not None:
                        V('refused_job_has_an_owner', worker_pids=h.worker_pids(),
                          time_accepted=getattr(h, '_time_accepted', None))
                else:
                    if j['cancel_at'] == 'after_ack':
                        rec.count('parent:cancel_after_ack')
                    j['response'] = ACK
                    want = [('accept', j['tag'], j['pid'], j['t'])] if j['has']['accept'] else []
                    if ac != want:
                        V('accept_callback_wrong', got=ac, expected=want)
                    if synack and sa != [('send_ack', j['tag'], ACK, j['pid'], h._job, j['fd'])]:
                        V('accepted_job_not_confirmed_once', send_ack_calls=sa)
                        if sa and sa[0][2] == NACK:
                            j['response'] = NACK
                    if not synack and sa:
                        V('send_ack_without_handshake', send_ack_calls=sa)
                    rec.count('parent:owner_checked')
                    if h.worker_pids() != [j['pid']] or not h.accepted() or \
                            h._time_accepted != j['t']:
                        V('owner_is_not_the_acknowledging_worker', worker_pids=h.worker_pids(),
                          accepted=h.accepted(), time_accepted=h._time_accepted,
                          ack=[j['pid'], j['t']])
                if [x for x in new if x[0] in ('ok', 'err')]:
                    V('result_callback_on_ack', got=new)
            else:
                j['state'] = 'done'
                rec.count('parent:ready_delivered')
                which = 'ok' if j['success'] else 'err'
                want = [(which, j['tag'], j['result'][1])] if j['has'][which] else []
                got = [x for x in new if x[0] in ('ok', 'err', 'accept')]
                if got != want:
                    V('result_callback_wrong', got=got, expected=want)
                if not h.ready() or h.successful() != j['success']:
                    V('job_not_resolved_by_ready', ready=h.ready())
                if counters[j['pid']].value != c0 + 1:
                    V('consumed_result_not_credited_to_owner', before=c0,
                      after=counters[j['pid']].value,
                      others={q: c.value for q, c in counters.items()})
                if h._job in cache:
                    V('resolved_job_left_in_cache')
                if h.worker_pids() != [j['pid']]:
                    V('owner_is_not_the_acknowledging_worker', {'after': 'ready'},
                      worker_pids=h.worker_pids(), ack=[j['pid'], j['t']])
        # per job: accept strictly before result in the global observation log
        for j in jobs:
            ia = [n for n, x in enumerate(log) if x[0] == 'accept' and x[1] == j['tag']]
            ir = [n for n, x in enumerate(log) if x[0] in ('ok', 'err') and x[1] == j['tag']]
            if ia and ir and ia[0] > ir[0]:
                V('result_callback_before_accept_callback', log=[x[:2] for x in log])
            if j['response'] == NACK and (ir or j['h'].ready()):
                V('result_for_refused_job', log=[x[:2] for x in log])
        rec.case()
        rec.count('parent:histories')
        rec.sig(['parent', synack, sorted(
            '%s/%s/%s' % (j['cancel_at'] if j.get('cancelled') else None, j.get('cancelled_in'),
                          j['success']) for j in jobs)])
        if hno < 3:
            rec.sample({'lane': 'parent', 'synack': synack, 'history': hist,
                        'observed': [list(x[:3]) for x in log]})
    run_parent_map(spec, rec, bpool, deliver, cache, counters)
    # with the handshake on, a job whose accept callback raises must still be
    # answered (the code's answer is NACK)
    try:
        cache.clear()
        calls = []

        def boom(pid, t):
            raise ValueError('accept callback failure')
        r = bpool.ApplyResult(cache, None, boom, send_ack=lambda *a: calls.append(a))
        deliver((ACK, (r._job, None, 1.0, 5000001, 9)))
        if not calls:
            # with the handshake on the worker blocks until it gets ACK or NACK:
            # without any answer the job is neither run nor refused, and the
            # worker never takes another job
            rec.violation('raising_accept_callback_leaves_worker_unanswered',
                          {'lane': 'parent', 'probe': 'raising_accept_callback'},
                          accepted=r.accepted(), send_ack_calls=calls)
        else:
            rec.count('parent:raising_accept_callback_answered')
    except BaseException as e:            # noqa
        rec.anomaly('raising_accept_callback_escapes_result_handler', error=repr(e))


def run_parent_map(spec, rec, bpool, deliver, cache, counters):
    """MapResult ownership per element under seeded ACK/READY orders"""
    ACK, READY = bpool.ACK, bpool.READY
    for hno in range(max(20, spec['histories'] // 10)):
        rng = rng_for(spec['seed'], 'parent-map', hno)
        cache.clear()
        counters.clear()
        pids = rng.sample(range(5000000, 5000100), rng.choice([1, 2, 3]))
        for q in pids:
            counters[q] = _FakeCounter()
        n, c = rng.choice([1, 2, 3, 5, 7, 8]), rng.choice([1, 2, 3])
        done = []
        mr = bpool.MapResult(cache, c, n, lambda v: done.append(v), None)
        nch = (n + c - 1) // c
        owner = [None] * n
        state = {i: 'new' for i in range(nch)}
        who = {}
        hist = []
        busy = {}
        while any(s != 'done' for s in state.values()):
            cands = []
            for i, s in state.items():
                if s == 'new':
                    free = [q for q in pids if q not in busy]
                    if free:
                        cands.append((i, 'ack'))
                elif s == 'acked':
                    cands.append((i, 'ready'))
            i, act = rng.choice(cands)
            hist.append([act, i])
            lo, hi = i * c, min((i + 1) * c, n)
            try:
                if act == 'ack':
                    q = rng.choice([x for x in pids if x not in busy])
                    busy[q] = i
                    who[i] = q
                    deliver((ACK, (mr._job, i, 1000.0 + hno, q, None)))
                    state[i] = 'acked'
                    for e in range(lo, hi):
                        owner[e] = q
                else:
                    q = who[i]
                    c0 = counters[q].value
                    deliver((READY, (mr._job, i, (True, [['v', e] for e in range(lo, hi)]), 7)))
                    state[i] = 'done'
                    del busy[q]
                    for e in range(lo, hi):
                        owner[e] = None
                    if counters[q].value != c0 + 1:
                        rec.violation('consumed_result_not_credited_to_owner',
                                      {'lane': 'parent', 'job': 'map'}, history=hist,
                                      others={x: cc.value for x, cc in counters.items()})
            except BaseException as e:        # noqa
                rec.violation('result_handler_raised', {'lane': 'parent', 'job': 'map', 'on': act},
                              error=repr(e), tb=traceback.format_exc()[-1500:], history=hist)
                break
            rec.count('parent:map_owner_checked')
            if sorted(mr.worker_pids()) != sorted(x for x in owner if x):
                rec.violation('owner_is_not_the_acknowledging_worker',
                              {'lane': 'parent', 'job': 'map'}, history=hist, n=n, chunk=c,
                              worker_pids=mr.worker_pids(), expected=owner)
                break
        else:
            if not mr.ready() or done != [[['v', e] for e in range(n)]]:
                rec.violation('job_not_resolved_by_ready', {'lane': 'parent', 'job': 'map'},
                              history=hist, value=done)
        rec.case()
        rec.count('parent:map_histories')
