"""C20 - manager proxies behave like the local object; referents live as long
as proxies; talking to the server requires the manager's key.

Lane L0: a real manager server process (billiard.managers) plus client
threads and client processes (fork / spawn / forkserver).  Modes:

diff      seeded operation sequences per registered type, executed on a proxy
          and on a local object of the same type (reference model); results,
          exception types/args and final state are compared.
conc      N client processes x threads issue single operations carrying unique
          tags on shared list/dict/Queue/Value/locks; unique-tag accounting,
          winner-uniqueness for contended keys, interval overlap for locks.
refs      create / copy / pass-to-child / send-over-pipe / drop histories with
          a reference-count model; at every quiescent point the server's own
          table (debug_info, number_of_objects) must equal the model.
auth      wrong-key, no-key and hostile raw clients; none may get a request
          executed or change the server state.
pool      Pool / AsyncResult / Iterator proxies against sequential results.
directed  multi-step sequences: alias drop while a lock is held, proxy
          returning methods on rebuilt proxies, nested proxies, unexposed and
          non-public names, stale tokens, second manager connecting, proxies
          of one manager stored in an object of another (colliding object
          ids), methods whose reply cannot be sent back.
"""
import array
import copy
import gc
import os
import pickle
import queue as pyqueue
import re
import threading
import time
import traceback

from vmon.core import rng_for, REPO

PROPERTY = 'C20'
LEVEL = 'exploration'
TECHNIQUE = ('differential execution against local objects, unique-tag accounting, '
             'reference-count model vs the server table, hostile clients')
RULE = ('cases are seeded histories: (diff) one operation sequence on one registered type, '
        'signature = (type, operation kinds seen, exception types re-raised, length bucket), '
        'non-trivial when a referent exception was re-raised and compared; (conc) one '
        'multi-process multi-thread run, signature = (processes, threads, start method, '
        'bucketed producer switches in the final list / contended keys / overlapping calls), '
        'non-trivial when calls of different clients overlapped in time; (refs) one '
        'create/copy/pass/drop history, signature = (start methods, step kinds, bucketed max '
        'refcount, disposals), non-trivial when an object went through refcount >= 2 and was '
        'disposed; (auth) one hostile attempt, signature = (variant, request)')
ASSUMPTIONS = [
    'pickle serializer only (xmlrpclib serializer not driven)',
    'thread/process interleavings are sampled, not enumerated',
    'clients that are killed (SIGKILL, os._exit) cannot release their references; not generated',
    'proxies rebuilt outside process start need the process authkey to equal the manager key '
    '(documented limitation); custom-key histories only pass proxies at process start',
    'atomicity is demanded for single operations of builtin referents (list, dict, Queue, locks), '
    'not for methods of user classes written in Python',
]
_PER_TYPE_Q = {'ops:' + t: 150 for t in (
    'list', 'dict', 'Namespace', 'Value', 'Array', 'Queue', 'JoinableQueue', 'Lock', 'RLock',
    'Semaphore', 'BoundedSemaphore', 'Event', 'Condition', 'Barrier', 'Counter')}
FLOORS = {
    'quick': dict(_PER_TYPE_Q, **{
        'ops_compared': 5000, 'referent_exceptions_compared': 600,
        'final_states_compared': 30,
        'conc_ops': 3500, 'conc_overlapping_calls': 300, 'contended_keys': 60,
        'producer_switches': 120, 'pops_checked': 300, 'private_echoes': 1000,
        'locked_sections': 150, 'queue_items_checked': 300,
        'ref_steps': 300, 'quiescent_checks': 300, 'disposals_observed': 60,
        'disposed_after_sharing': 30, 'referent_reads_compared': 40,
        'child_started': 20, 'child_started:spawn': 5, 'child_started:fork': 8,
        'child_started:forkserver': 4, 'pipe_transfers': 15,
        'hostile_attempts': 140, 'hostile_rejected': 90, 'wrong_key_rejected': 50,
        'right_key_accepted': 3, 'unexposed_refused': 8, 'pool_results_compared': 5,
        'stale_token_refused': 1}),
    'thorough': dict({k: 4 * v for k, v in _PER_TYPE_Q.items()}, **{
        'ops_compared': 40000, 'referent_exceptions_compared': 5000,
        'conc_ops': 25000, 'conc_overlapping_calls': 2000, 'contended_keys': 500,
        'ref_steps': 2000, 'quiescent_checks': 2000, 'disposals_observed': 400,
        'child_started': 120, 'child_started:spawn': 25, 'child_started:forkserver': 25,
        'pipe_transfers': 150, 'hostile_attempts': 800, 'wrong_key_rejected': 300}),
}
JOBS = 14
SPEC_TIMEOUT = 420
# depend on a wall-clock upper bound (a call that never returned within a
# very generous limit): confirmed alone before being reported
CONFIRM_ALONE = ('client_operation_never_returned', 'event_wait_missed_set',
                 'child_unresponsive')

DIFF_TYPES = ['list', 'dict', 'Namespace', 'Value', 'Array', 'Queue', 'JoinableQueue',
              'Lock', 'RLock', 'Semaphore', 'BoundedSemaphore', 'Event', 'Condition',
              'Barrier', 'Counter']


def plan(tier, seed):
    q = tier == 'quick'
    specs = []
    n_diff = 10 if q else 22
    for i in range(n_diff):
        types = [DIFF_TYPES[(i * 3 + k) % len(DIFF_TYPES)] for k in range(5)]
        specs.append({'mode': 'diff', 'seed': seed * 1000 + i, 'types': types,
                      'histories': 4 if q else 8, 'ops': 50 if q else 100,
                      'server': 'spawn' if i % 5 == 4 else 'fork'})
    confs = [(2, 3, 'fork'), (4, 2, 'fork'), (3, 2, 'spawn'), (6, 1, 'fork'),
             (1, 6, 'fork'), (3, 3, 'forkserver'), (5, 2, 'fork'), (2, 4, 'spawn')]
    n_conc = 6 if q else 12
    for i in range(n_conc):
        procs, ths, method = confs[i % len(confs)]
        specs.append({'mode': 'conc', 'seed': seed * 1000 + 100 + i, 'procs': procs,
                      'threads': ths, 'method': method, 'parent_threads': 2 if i % 2 else 0,
                      'ops': 160 if q else 400, 'runs': 1 if q else 2})
    methods = ['fork', 'spawn', 'forkserver', 'mixed', 'fork', 'mixed', 'spawn',
               'fork', 'forkserver', 'mixed']
    n_refs = 10 if q else 22
    for i in range(n_refs):
        specs.append({'mode': 'refs', 'seed': seed * 1000 + 200 + i,
                      'method': methods[i % len(methods)],
                      'custom_key': i % 5 == 3,
                      'histories': (3 if methods[i % len(methods)] == 'fork' else 2) if q else 5,
                      'steps': [8, 36] if q else [5, 60]})
    for i in range(3 if q else 6):
        specs.append({'mode': 'auth', 'seed': seed * 1000 + 300 + i,
                      'rounds': 3 if q else 5})
    specs.append({'mode': 'pool', 'seed': seed * 1000 + 400})
    specs.append({'mode': 'directed', 'seed': seed * 1000 + 500})
    return specs


# --------------------------------------------------------------------------
# shared utilities
# --------------------------------------------------------------------------

_REF_RE = re.compile(r'^  ([0-9a-f]+):\s+refcount=(-?\d+)$', re.M)


def server_refs(m):
    """the server's own table: ident -> refcount (via Server.debug_info)"""
    return {a: int(b) for a, b in _REF_RE.findall(m._debug_info())}


def under_test(exc):
    """True when billiard code is on the traceback of `exc` (otherwise the
    exception is a harness bug and must crash the spec, not accuse billiard)"""
    root = os.path.join(os.path.abspath(REPO), 'billiard') + os.sep
    tb = exc.__traceback__
    while tb is not None:
        if os.path.abspath(tb.tb_frame.f_code.co_filename).startswith(root):
            return True
        tb = tb.tb_next
    return False


class ManagerUnresponsive(RuntimeError):
    """the first request of a legitimate client got no answer for PROBE_WAIT
    seconds: nothing can be observed through this manager (the spec ends as
    'crashed' = inconclusive; the auth mode has made its hostile attempts,
    which need no working legitimate client, before this point)"""


PROBE_WAIT = 75


def probe_manager(m):
    box = []

    def ask():
        try:
            box.append(('ok', m._number_of_objects()))
        except BaseException as exc:      # reported by the caller's own first use
            box.append(('exc', exc))
    t = threading.Thread(target=ask, daemon=True)
    t.start()
    t.join(PROBE_WAIT)
    if not box:
        raise ManagerUnresponsive('no reply to number_of_objects within %ds' % PROBE_WAIT)


def new_manager(server='fork', authkey=None, probe=True):
    import billiard
    from vmon.c20_helpers import HManager
    ctx = billiard.get_context(server)
    m = HManager(authkey=authkey, ctx=ctx)
    m.start()
    if probe:
        try:
            probe_manager(m)
        except ManagerUnresponsive:
            stop_manager(m)
            raise
    return m


def stop_manager(m):
    def down():
        try:
            m.shutdown()
        except Exception:
            pass
    p = getattr(m, '_process', None)
    t = threading.Thread(target=down, daemon=True)     # shutdown talks to the server:
    t.start()                                          # never wait for it unboundedly
    t.join(20)
    try:
        if p is not None and p.is_alive():
            p.terminate()
            p.join(2)
    except Exception:
        pass


def bucket(n):
    return 0 if n <= 0 else (1 if n < 4 else (2 if n < 16 else (3 if n < 100 else 4)))


def tbtail(n=1500):
    return traceback.format_exc()[-n:]


# --------------------------------------------------------------------------
# mode diff: proxy versus local object of the same type
# --------------------------------------------------------------------------

def rand_val(rng, depth=0):
    r = rng.random()
    if r < 0.35:
        return rng.randrange(-2, 6)
    if r < 0.50:
        return rng.choice(['a', 'b', '', 'k1', 'k2', 'é'])
    if r < 0.58:
        return rng.choice([None, True, False, 1.5, -0.0, 2 ** 70, b'x', 1.0])
    if r < 0.70:
        return tuple(rand_val(rng, depth + 1) for _ in range(rng.randrange(0, 3))) \
            if depth < 2 else 0
    if r < 0.82 and depth < 2:
        return [rand_val(rng, depth + 1) for _ in range(rng.randrange(0, 3))]
    if r < 0.88 and depth < 2:
        return {rng.choice('xyz'): rand_val(rng, depth + 1) for _ in range(rng.randrange(0, 3))}
    return rng.randrange(0, 4)


def rand_key(rng):
    r = rng.random()
    if r < 0.5:
        return rng.randrange(0, 6)
    if r < 0.8:
        return rng.choice(['a', 'b', 'c', ''])
    if r < 0.9:
        return rng.choice([None, True, 1.0, 2.5, (1, 2), ('a',), ()])
    return [1]          # unhashable: the referent raises TypeError


def rand_idx(rng, n):
    r = rng.random()
    if r < 0.7 and n:
        return rng.randrange(-n, n)
    return rng.randrange(-n - 3, n + 3)


def rand_slice(rng, n):
    def e():
        return None if rng.random() < 0.3 else rng.randrange(-n - 2, n + 3)
    step = rng.choice([None, None, None, 1, 2, -1, -2, 3])
    return slice(e(), e(), step)


def gen_list(rng, mo):
    n = len(mo)
    k = rng.choice(['append', 'append', 'extend', 'insert', 'pop', 'popi', 'remove', 'index',
                    'count', 'reverse', 'sort', 'get', 'getslice', 'set', 'setslice', 'del',
                    'delslice', 'len', 'contains', 'add', 'mul', 'rmul', 'imul', 'iadd',
                    'reversed', 'iter', 'sortrev'])
    if k in ('append', 'remove', 'index', 'count', 'contains'):
        if k != 'append' and n and rng.random() < 0.6:
            return (k, copy.deepcopy(mo[rng.randrange(n)]))
        return (k, rand_val(rng))
    if k in ('extend', 'iadd', 'add'):
        if rng.random() < 0.1:
            return (k, rng.choice([5, None, (1, 2), 'ab']))
        return (k, [rand_val(rng) for _ in range(rng.randrange(0, 4))])
    if k == 'insert':
        return (k, rand_idx(rng, n), rand_val(rng))
    if k in ('popi', 'get', 'del'):
        return (k, rand_idx(rng, n))
    if k == 'set':
        return (k, rand_idx(rng, n), rand_val(rng))
    if k in ('getslice', 'delslice'):
        return (k, rand_slice(rng, n))
    if k == 'setslice':
        return (k, rand_slice(rng, n), [rand_val(rng) for _ in range(rng.randrange(0, 4))])
    if k in ('mul', 'rmul', 'imul'):
        return (k, rng.choice([0, 1, 2, 2, -1]) if n < 40 else 1)
    return (k,)


def ap_list(o, op):
    k = op[0]
    if k == 'append':
        return o.append(op[1])
    if k == 'extend':
        return o.extend(op[1])
    if k == 'insert':
        return o.insert(op[1], op[2])
    if k == 'pop':
        return o.pop()
    if k == 'popi':
        return o.pop(op[1])
    if k == 'remove':
        return o.remove(op[1])
    if k == 'index':
        return o.index(op[1])
    if k == 'count':
        return o.count(op[1])
    if k == 'reverse':
        return o.reverse()
    if k == 'sort':
        return o.sort()
    if k == 'sortrev':
        return o.sort(reverse=True)
    if k in ('get', 'getslice'):
        return o[op[1]]
    if k in ('set', 'setslice'):
        o[op[1]] = op[2]
        return None
    if k in ('del', 'delslice'):
        del o[op[1]]
        return None
    if k == 'len':
        return len(o)
    if k == 'contains':
        return op[1] in o
    if k == 'add':
        return o + op[1]
    if k == 'mul':
        return o * op[1]
    if k == 'rmul':
        return op[1] * o
    if k == 'imul':
        o2 = o
        o2 *= op[1]
        return ('same object', o2 is o)
    if k == 'iadd':
        o2 = o
        o2 += op[1]
        return ('same object', o2 is o)
    if k == 'reversed':
        return list(reversed(o))
    if k == 'iter':
        return [x for x in o]
    raise RuntimeError('harness: list op %r' % (op,))


def gen_dict(rng, mo):
    k = rng.choice(['set', 'set', 'set', 'get', 'del', 'getm', 'getd', 'pop', 'popd',
                    'popitem', 'setdefault', 'update', 'updatel', 'updatekw', 'clear', 'copy',
                    'keys', 'values', 'items', 'len', 'contains'])
    keys = list(mo.keys())

    def key():
        if keys and rng.random() < 0.6:
            return rng.choice(keys)
        return rand_key(rng)
    if k in ('set', 'setdefault', 'getd', 'popd'):
        return (k, key(), rand_val(rng))
    if k in ('get', 'del', 'getm', 'pop', 'contains'):
        return (k, key())
    if k == 'update':
        return (k, {rng.choice([0, 1, 2, 'a', 'b', None, (1, 2), 2.5]): rand_val(rng)
                    for _ in range(rng.randrange(0, 3))}) if rng.random() < 0.9 else (k, 5)
    if k == 'updatel':
        return (k, [(rng.randrange(5), rand_val(rng)) for _ in range(rng.randrange(0, 3))])
    if k == 'updatekw':
        return (k, {rng.choice('pqr'): rand_val(rng)})
    if k == 'clear' and rng.random() < 0.7:
        return ('len',)
    return (k,)


def ap_dict(o, op):
    k = op[0]
    if k == 'set':
        o[op[1]] = op[2]
        return None
    if k == 'get':
        return o[op[1]]
    if k == 'del':
        del o[op[1]]
        return None
    if k == 'getm':
        return o.get(op[1])
    if k == 'getd':
        return o.get(op[1], op[2])
    if k == 'pop':
        return o.pop(op[1])
    if k == 'popd':
        return o.pop(op[1], op[2])
    if k == 'popitem':
        return o.popitem()
    if k == 'setdefault':
        return o.setdefault(op[1], op[2])
    if k in ('update', 'updatel'):
        return o.update(op[1])
    if k == 'updatekw':
        return o.update(**op[1])
    if k == 'clear':
        return o.clear()
    if k == 'copy':
        return o.copy()
    if k == 'keys':
        return list(o.keys())
    if k == 'values':
        return list(o.values())
    if k == 'items':
        return list(o.items())
    if k == 'len':
        return len(o)
    if k == 'contains':
        return op[1] in o
    raise RuntimeError('harness: dict op %r' % (op,))


NS_NAMES = ['x', 'y', 'count', 'name', 'data']


def gen_ns(rng, mo):
    k = rng.choice(['set', 'set', 'get', 'get', 'del', 'repr'])
    if k == 'set':
        return (k, rng.choice(NS_NAMES), rand_val(rng))
    if k == 'repr':
        return (k,)
    return (k, rng.choice(NS_NAMES))


def ap_ns(o, op):
    k = op[0]
    if k == 'set':
        setattr(o, op[1], op[2])
        return None
    if k == 'get':
        return getattr(o, op[1])
    if k == 'del':
        delattr(o, op[1])
        return None
    if k == 'repr':
        return str(o)
    raise RuntimeError('harness: ns op %r' % (op,))


def gen_value(rng, mo):
    k = rng.choice(['setattr', 'getattr', 'set', 'get', 'repr'])
    if k in ('setattr', 'set'):
        return (k, rand_val(rng))
    return (k,)


def ap_value(o, op):
    k = op[0]
    if k == 'setattr':
        o.value = op[1]
        return None
    if k == 'getattr':
        return o.value
    if k == 'set':
        return o.set(op[1])
    if k == 'get':
        return o.get()
    if k == 'repr':
        return str(o)
    raise RuntimeError('harness: value op %r' % (op,))


def gen_array(rng, mo):
    n = len(mo)
    tc = mo.typecode
    k = rng.choice(['get', 'get', 'set', 'set', 'len', 'getslice', 'setslice'])
    if k == 'get':
        return (k, rand_idx(rng, n))
    if k == 'set':
        r = rng.random()
        if r < 0.75:
            v = rng.randrange(-100, 100) if tc != 'd' else rng.randrange(-100, 100) / 4
        elif r < 0.9:
            v = rng.choice([2 ** 40, -2 ** 40, 1000, 'x', None, 1.5])
        else:
            v = rng.randrange(0, 5)
        return (k, rand_idx(rng, n), v)
    if k == 'getslice':
        return (k, rand_slice(rng, n))
    if k == 'setslice':
        a = rng.randrange(0, n + 1)
        b = rng.randrange(a, n + 1)
        vals = [rng.randrange(0, 50) for _ in range(b - a)]
        return (k, slice(a, b), array.array(tc, [float(v) for v in vals] if tc == 'd' else vals))
    return (k,)


def ap_array(o, op):
    k = op[0]
    if k in ('get', 'getslice'):
        return o[op[1]]
    if k in ('set', 'setslice'):
        o[op[1]] = op[2]
        return None
    if k == 'len':
        return len(o)
    raise RuntimeError('harness: array op %r' % (op,))


def gen_queue(rng, mo):
    k = rng.choice(['put_nowait', 'put_nowait', 'get_nowait', 'get_nowait', 'put_t', 'get_t',
                    'put_nb', 'qsize', 'empty', 'full', 'task_done', 'join'])
    if k == 'join' and mo.unfinished_tasks:
        k = 'task_done'
    if k in ('put_nowait', 'put_t', 'put_nb'):
        return (k, rand_val(rng))
    return (k,)


def ap_queue(o, op):
    k = op[0]
    if k == 'put_nowait':
        return o.put_nowait(op[1])
    if k == 'get_nowait':
        return o.get_nowait()
    if k == 'put_t':
        return o.put(op[1], True, 0.005)
    if k == 'get_t':
        return o.get(True, 0.005)
    if k == 'put_nb':
        return o.put(op[1], False)
    if k in ('qsize', 'empty', 'full', 'task_done', 'join'):
        return getattr(o, k)()
    raise RuntimeError('harness: queue op %r' % (op,))


def gen_lock(rng, mo):
    return rng.choice([('acquire', False), ('acquire', False), ('acquire', True, 0.005),
                       ('acquire', True, 0), ('release',), ('release',), ('enter_exit',)])


def _lock_free(mo):
    if hasattr(mo, '_value'):
        return mo._value > 0
    if hasattr(mo, 'locked'):
        try:
            return not mo.locked()
        except Exception:
            return True
    return True


def ap_lock(o, op, mo=None):
    k = op[0]
    if k == 'acquire':
        return o.acquire(*op[1:])
    if k == 'release':
        return o.release()
    if k == 'enter_exit':
        # only when the model says it cannot block (RLock is re-entrant for
        # the single client thread on both sides)
        if mo is not None and not isinstance(mo, type(threading.RLock())) and not _lock_free(mo):
            return o.acquire(False)
        with o:
            pass
        return 'with ok'
    raise RuntimeError('harness: lock op %r' % (op,))


def gen_event(rng, mo):
    return rng.choice([('set',), ('clear',), ('is_set',), ('is_set',), ('wait', 0),
                       ('wait', 0.003), ('wait', None)])


def ap_event(o, op, mo=None):
    k = op[0]
    if k == 'wait':
        if op[1] is None:
            if mo is not None and not mo.is_set():
                return o.wait(0.001)
            return o.wait()
        return o.wait(op[1])
    return getattr(o, k)()


def gen_cond(rng, mo):
    return rng.choice([('acquire', False), ('acquire', False), ('release',), ('notify',),
                       ('notify_all',), ('wait', 0.003), ('wait_for', True, 0.003),
                       ('wait_for', False, 0.003), ('enter_exit',)])


def ap_cond(o, op, mo=None):
    k = op[0]
    if k == 'acquire':
        return o.acquire(*op[1:])
    if k == 'wait':
        return o.wait(op[1])
    if k == 'wait_for':
        flag = op[1]
        return o.wait_for(lambda: flag, op[2])
    if k == 'enter_exit':
        with o:
            pass
        return 'with ok'
    return getattr(o, k)()


def gen_barrier(rng, mo):
    return rng.choice([('parties',), ('n_waiting',), ('broken',), ('broken',),
                       ('wait', 0.003), ('wait', 0.003), ('abort',), ('reset',)])


def ap_barrier(o, op, mo=None):
    k = op[0]
    if k in ('parties', 'n_waiting', 'broken'):
        return getattr(o, k)
    if k == 'wait':
        return o.wait(op[1])
    return getattr(o, k)()


def gen_counter(rng, mo):
    k = rng.choice(['incr', 'incr', 'get', 'boom', 'boom', 'make_sub_use', 'incrbad'])
    if k == 'incr':
        return (k, rng.randrange(-3, 9))
    if k == 'boom':
        return (k, rng.choice(['helper', 'zero', 'key', 'stop', 'other']))
    if k == 'make_sub_use':
        return (k, rng.randrange(1, 4))
    return (k,)


def ap_counter(o, op, mo=None):
    k = op[0]
    if k == 'incr':
        return o.incr(op[1])
    if k == 'incrbad':
        return o.incr('x')
    if k == 'get':
        return o.get()
    if k == 'boom':
        return o.boom(op[1])
    if k == 'make_sub_use':
        s = o.make_sub()
        out = [s.add('t%d' % i) for i in range(op[1])]
        return (out, s.items())
    raise RuntimeError('harness: counter op %r' % (op,))


def make_pair(m, tname, rng):
    """-> (proxy, local model, generator, applier, compare_final)"""
    from billiard import managers
    if tname == 'list':
        init = [rand_val(rng) for _ in range(rng.randrange(0, 5))]
        return m.list(init), list(copy.deepcopy(init)), gen_list, ap_list, 'value'
    if tname == 'dict':
        init = {rng.randrange(5): rand_val(rng) for _ in range(rng.randrange(0, 4))}
        return m.dict(init), dict(copy.deepcopy(init)), gen_dict, ap_dict, 'value'
    if tname == 'Namespace':
        return m.Namespace(x=1), managers.Namespace(x=1), gen_ns, ap_ns, 'repr'
    if tname == 'Value':
        v = rand_val(rng)
        return m.Value('i', v), managers.Value('i', copy.deepcopy(v)), gen_value, ap_value, 'repr'
    if tname == 'Array':
        tc = rng.choice(['i', 'd', 'b', 'H'])
        init = [rng.randrange(0, 100) for _ in range(rng.randrange(0, 8))]
        if tc == 'd':
            init = [float(x) for x in init]
        return m.Array(tc, init), array.array(tc, init), gen_array, ap_array, 'value'
    if tname in ('Queue', 'JoinableQueue'):
        ms = rng.choice([0, 1, 3])
        return getattr(m, tname)(ms), pyqueue.Queue(ms), gen_queue, ap_queue, None
    if tname == 'Lock':
        return m.Lock(), threading.Lock(), gen_lock, ap_lock, None
    if tname == 'RLock':
        return m.RLock(), threading.RLock(), gen_lock, ap_lock, None
    if tname == 'Semaphore':
        n = rng.randrange(0, 3)
        return m.Semaphore(n), threading.Semaphore(n), gen_lock, ap_lock, None
    if tname == 'BoundedSemaphore':
        n = rng.randrange(1, 3)
        return m.BoundedSemaphore(n), threading.BoundedSemaphore(n), gen_lock, ap_lock, None
    if tname == 'Event':
        return m.Event(), threading.Event(), gen_event, ap_event, None
    if tname == 'Condition':
        return m.Condition(), threading.Condition(), gen_cond, ap_cond, None
    if tname == 'Barrier':
        n = rng.choice([1, 1, 2])
        return m.Barrier(n), threading.Barrier(n), gen_barrier, ap_barrier, None
    if tname == 'Counter':
        from vmon.c20_helpers import Counter
        n = rng.randrange(0, 5)
        return m.Counter(n), Counter(n), gen_counter, ap_counter, None
    raise RuntimeError('harness: type %r' % tname)


_VIEW_TYPES = (type({}.keys()), type({}.values()), type({}.items()))


def norm(v):
    from billiard.managers import BaseProxy
    if isinstance(v, BaseProxy):
        return ('proxy', v._token.typeid)
    if isinstance(v, _VIEW_TYPES):
        v = list(v)
    return (type(v).__name__, repr(v))


def attempt(fn):
    try:
        return ('ret',) + norm(fn())
    except Exception as exc:
        a = exc.args
        return ('exc', type(exc).__module__ + '.' + type(exc).__name__, repr(a))


TAKES_MODEL = (ap_lock, ap_event, ap_cond, ap_barrier, ap_counter)


def diff_history(rec, rng, m, tname, nops):
    attrs = {'mode': 'diff', 'type': tname}
    px, mo, gen, ap, final = make_pair(m, tname, rng)
    kinds, excs = set(), set()
    hist = []
    ok = True
    for step in range(nops):
        op = gen(rng, mo)
        # the proxy runs first for operations whose outcome the generator
        # reads from the model state (the model must still be "before")
        if ap in TAKES_MODEL:
            got = attempt(lambda: ap(px, op, mo))
            want = attempt(lambda: ap(mo, op, mo))
        else:
            want = attempt(lambda: ap(mo, copy.deepcopy(op)))
            got = attempt(lambda: ap(px, op))
        hist.append([repr(op)[:80], want[0], got[0]])
        kinds.add(op[0])
        rec.count('ops_compared')
        rec.count('ops:' + tname)
        if want[0] == 'exc':
            excs.add(want[1].split('.')[-1])
            rec.count('referent_exceptions_compared')
        if got != want:
            ok = False
            kind = 'proxy_result_differs_from_local'
            if want[0] == 'exc' and got[0] == 'exc':
                kind = 'proxy_raised_different_exception'
            elif want[0] == 'exc':
                kind = 'proxy_swallowed_referent_exception'
            elif got[0] == 'exc':
                kind = 'proxy_raised_where_local_returns'
            rec.violation(kind, dict(attrs, op=op[0]), local=want, proxy=got,
                          op=repr(op)[:300], history=hist[-12:])
            break
    if ok and final:
        rec.count('final_states_compared')
        try:
            if final == 'value':
                g1, g2 = px._getvalue(), copy.deepcopy(px)
                s = str(px)
                if norm(g1) != norm(mo) or norm(g2) != norm(mo) or s != repr(mo):
                    rec.violation('final_state_differs_from_local', attrs,
                                  local=repr(mo)[:600], getvalue=repr(g1)[:600],
                                  deepcopy=repr(g2)[:600], str=s[:600], history=hist[-12:])
            else:
                s = str(px)
                if s != repr(mo):
                    rec.violation('final_state_differs_from_local', attrs,
                                  local=repr(mo)[:600], str=s[:600], history=hist[-12:])
        except Exception as exc:
            if not under_test(exc):
                raise
            rec.violation('proxy_raised_where_local_returns', dict(attrs, op='final'),
                          exc=repr(exc)[:300], tb=tbtail())
    # leave sync objects released so that nothing is blocked at teardown
    del px
    rec.case()
    if excs and len(hist) >= 10:
        rec.sig(['diff', tname, sorted(kinds), sorted(excs), bucket(len(hist))])
    rec.sample({'mode': 'diff', 'type': tname, 'ops': len(hist),
                'exceptions_reraised': sorted(excs), 'tail': hist[-4:]})


def run_diff(spec, rec):
    rng = rng_for(spec['seed'], 'diff')
    m = new_manager(spec.get('server', 'fork'))
    try:
        for tname in spec['types']:
            rec.count('types_driven_in_spec')
            for h in range(spec['histories']):
                # the history runs in one worker thread (proxy connections and
                # lock ownership are per thread); this thread is the watchdog:
                # a proxy operation that never returns where the local object
                # returns at once must not end as a harness watchdog
                box = {}

                def run(box=box):
                    try:
                        diff_history(rec, rng, m, tname, spec['ops'])
                    except BaseException as exc:      # noqa
                        box['exc'] = exc
                        box['tb'] = tbtail()
                th = threading.Thread(target=run, daemon=True)
                n0 = rec.counters.get('ops_compared', 0)
                th.start()
                last, t_last = n0, time.monotonic()
                while th.is_alive():
                    th.join(0.5)
                    n = rec.counters.get('ops_compared', 0)
                    if n != last:
                        last, t_last = n, time.monotonic()
                    elif time.monotonic() - t_last > 45:
                        rec.violation('client_operation_never_returned',
                                      {'mode': 'diff', 'type': tname},
                                      after_ops=n - n0,
                                      note='the same operation on the local object returns')
                        rec.flush()
                        return        # the manager may be wedged: end this spec
                if 'exc' in box:
                    exc = box['exc']
                    if not isinstance(exc, Exception) or not under_test(exc):
                        raise exc
                    rec.violation('manager_operation_raised', {'mode': 'diff', 'type': tname},
                                  exc=repr(exc)[:300], tb=box.get('tb'))
            rec.flush()
        # a proxy that re-raised a referent's exception sits in a reference
        # cycle (exception -> traceback -> _callmethod frame -> exception)
        # until the collector runs; it is a live proxy until then
        before_gc = m._number_of_objects()
        gc.collect()
        left = m._number_of_objects()
        if before_gc and not left:
            rec.anomaly('referent_kept_until_gc_by_exception_cycle_in_callmethod',
                        objects_before_gc=before_gc)
        if left:
            rec.violation('object_alive_after_last_release', {'mode': 'diff', 'after': 'all_dropped'},
                          objects_left=left, table=m._debug_info()[:1500])
    finally:
        stop_manager(m)


# --------------------------------------------------------------------------
# mode conc: concurrent clients, unique-tag accounting
# --------------------------------------------------------------------------

def _max_overlap(intervals):
    ev = []
    for a, b in intervals:
        ev.append((a, 1))
        ev.append((b, -1))
    ev.sort(key=lambda x: (x[0], x[1]))
    cur = best = 0
    for _t, d in ev:
        cur += d
        best = max(best, cur)
    return best


def _tag_owner(tag):
    return tag.split(':', 1)[0]


def _tag_seq(tag):
    return int(tag.rsplit(':', 1)[1])


def conc_run(rec, spec, run_no):
    import billiard
    from vmon import c20_helpers as H
    seed = spec['seed'] * 10 + run_no
    method = spec['method']
    attrs = {'mode': 'conc', 'method': method}
    wd = os.environ.get('VERIF_WORKDIR', '/tmp')
    ops = spec['ops']
    nstock = 40
    ntok = ops // 2 + 4
    m = new_manager('fork')
    procs = []
    try:
        stock = ['s:%d' % i for i in range(nstock)]
        tokens = {'tok%d' % i: 'tv:%d' % i for i in range(ntok)}
        sh = {'L': m.list(stock), 'D': m.dict(tokens), 'Q': m.Queue(), 'V': m.Value('i', 0),
              'V2': m.Value('i', 0), 'LK': m.Lock(), 'RL': m.RLock(), 'SEM': m.Semaphore(2),
              'GATE': m.Event(), 'READY': m.list(), 'NS': m.Namespace()}
        params = {'ops': ops}
        ctx = billiard.get_context(method)
        stuck_after = 150
        outs = []
        for cid in range(1, spec['procs'] + 1):
            out = os.path.join(wd, 'conc-%d-%d.json' % (run_no, cid))
            outs.append(out)
            p = ctx.Process(target=H.conc_client,
                            args=(cid, spec['threads'], seed, sh, params, out, stuck_after))
            p.start()
            procs.append(p)
        plog, perrs, pths = [], [], []
        for t in range(spec.get('parent_threads', 0)):
            th = threading.Thread(target=H.conc_thread, daemon=True,
                                  args=(0, t, seed, sh, params, plog, perrs))
            th.start()
            pths.append(th)
        total = spec['procs'] * spec['threads'] + len(pths)
        t_end = time.monotonic() + 120
        while time.monotonic() < t_end:
            if len(sh['READY']) >= total:
                break
            if not any(p.is_alive() for p in procs) and not pths:
                break
            time.sleep(0.01)
        sh['GATE'].set()
        rec.flush()
        stuck_threads = []
        for th in pths:
            th.join(stuck_after)
            if th.is_alive():
                stuck_threads.append(th.name)
        for p in procs:
            p.join(stuck_after + 30)
        logs, errs, stuck = list(plog), list(perrs), list(stuck_threads)
        for p, out in zip(procs, outs):
            if p.is_alive():
                stuck.append('process %s' % p.pid)
                p.terminate()
                p.join(5)
                continue
            try:
                import json
                with open(out) as f:
                    d = json.load(f)
            except (OSError, ValueError):
                errs.append(['client', 'no_result_file', 'exitcode=%r' % p.exitcode, ''])
                continue
            logs.extend(d['log'])
            errs.extend(d['errs'])
            stuck.extend('c%dt%d' % (d['cid'], t) for t in d['stuck'])
        for e in errs[:5]:
            rec.violation('client_operation_raised', dict(attrs, exc=e[1]),
                          client=e[0], exc=e[2], tb=e[3])
        if stuck:
            rec.violation('client_operation_never_returned', attrs, stuck=stuck[:10],
                          waited_s=stuck_after)
        # ---------------- oracles over the merged logs ----------------
        by = {}
        for e in logs:
            by.setdefault(e[1], []).append(e)
        rec.count('conc_ops', len(logs))
        rec.count('conc_clients', total)
        for e in by.get('gate', []):
            if e[3] is not True:
                rec.violation('event_wait_missed_set', attrs, client=e[0])
        # list: conservation of unique tags
        final = sh['L']._getvalue()
        appended = [e[2] for e in by.get('append', [])]
        for e in by.get('append', []):
            if e[3] is not None:
                rec.violation('proxy_result_differs_from_local', dict(attrs, op='append'),
                              returned=e[3])
        universe = set(appended) | set(stock)
        popped = [e[3] for e in by.get('pop', []) if e[3] != '#IndexError']
        rec.count('pops_checked', len(popped))
        rec.count('pop_on_empty', len(by.get('pop', [])) - len(popped))
        seen = set()
        for x in popped:
            if x not in universe:
                rec.violation('pop_returned_unknown_value', attrs, value=repr(x)[:100])
            elif x in seen:
                rec.violation('duplicated_pop', attrs, value=x,
                              calls=[e for e in by['pop'] if e[3] == x][:4])
            seen.add(x)
        fset = set()
        for x in final:
            if x in fset:
                rec.violation('duplicated_element', attrs, value=repr(x)[:100])
            fset.add(x)
            if x not in universe:
                rec.violation('unknown_element_in_list', attrs, value=repr(x)[:100])
        lost = universe - seen - fset
        if lost:
            rec.violation('lost_append', attrs, lost=sorted(lost)[:8], n=len(lost))
        both = seen & fset
        if both:
            rec.violation('popped_element_still_present', attrs, values=sorted(both)[:8])
        last = {}
        switches = 0
        prev_owner = None
        for x in final:
            if not isinstance(x, str) or ':' not in x:
                continue
            o, s = _tag_owner(x), _tag_seq(x)
            if o in last and s < last[o]:
                rec.violation('append_order_violated', attrs, owner=o, seq=s, after=last[o])
            last[o] = s
            if prev_owner is not None and o != prev_owner:
                switches += 1
            prev_owner = o
        rec.count('producer_switches', switches)
        # dict: contended setdefault -> exactly one winner per key
        dfinal = sh['D']._getvalue()
        per = {}
        for e in by.get('setdefault', []):
            per.setdefault(e[2][0], []).append(e)
        contended = 0
        for k, es in per.items():
            results = {e[3] for e in es}
            proposals = {e[2][1] for e in es}
            if len({e[0] for e in es}) > 1:
                contended += 1
            if len(results) != 1 or not results <= proposals or dfinal.get(k) not in results:
                rec.violation('setdefault_not_atomic', attrs, key=k, results=sorted(map(str, results))[:6],
                              final=repr(dfinal.get(k)), calls=es[:6])
        rec.count('contended_keys', contended)
        pert = {}
        for e in by.get('poptoken', []):
            pert.setdefault(e[2], []).append(e)
        for k, es in pert.items():
            got = [e for e in es if e[3] is not None]
            if len({e[0] for e in es}) > 1:
                rec.count('contended_tokens')
            if len(got) > 1:
                rec.violation('duplicated_dict_pop', attrs, key=k, calls=got[:4])
            for e in got:
                if e[3] != tokens.get(k):
                    rec.violation('pop_returned_unknown_value', dict(attrs, type='dict'),
                                  key=k, value=repr(e[3])[:100])
            if got and k in dfinal:
                rec.violation('popped_element_still_present', dict(attrs, type='dict'), key=k)
        for k, v in tokens.items():
            if k not in dfinal and not any(e[3] is not None for e in pert.get(k, [])):
                rec.violation('lost_dict_item', attrs, key=k)
        for e in by.get('echo', []):
            v = e[2][1]
            if e[3] != [v, v, True, v, 'gone']:
                rec.violation('reply_mismatch_on_private_key', dict(attrs, type='dict'),
                              client=e[0], expected=[v, v, True, v, 'gone'], got=e[3])
        rec.count('private_echoes', len(by.get('echo', [])) + len(by.get('ns_echo', [])))
        for e in by.get('ns_echo', []):
            if e[3] != e[2][1]:
                rec.violation('reply_mismatch_on_private_key', dict(attrs, type='Namespace'),
                              client=e[0], expected=e[2][1], got=e[3])
        leftovers = [k for k in dfinal if str(k).startswith('own:')]
        if leftovers:
            rec.violation('popped_element_still_present', dict(attrs, type='dict_private'),
                          keys=leftovers[:5])
        # queue: no loss, no duplicate, per-producer FIFO
        puts = [e[2] for e in by.get('qput', [])]
        gets = [e for e in by.get('qget', []) if e[3] != '#Empty']
        remaining = []
        while True:
            try:
                remaining.append(sh['Q'].get_nowait())
            except pyqueue.Empty:
                break
        gotset = set()
        for e in gets:
            if e[3] not in set(puts):
                rec.violation('queue_returned_unknown_item', attrs, value=repr(e[3])[:100])
            if e[3] in gotset:
                rec.violation('duplicated_queue_item', attrs, value=e[3])
            gotset.add(e[3])
        for x in remaining:
            if x in gotset:
                rec.violation('duplicated_queue_item', attrs, value=x, where='remaining')
            gotset.add(x)
        lostq = set(puts) - gotset
        if lostq:
            rec.violation('lost_queue_item', attrs, lost=sorted(lostq)[:8], n=len(lostq))
        rec.count('queue_items_checked', len(puts))
        percons = {}
        maxgot = {}
        for e in gets:          # log order of one thread == its program order
            x = e[3]
            if not isinstance(x, str) or x.count(':') != 2:
                continue
            o, s = _tag_owner(x), _tag_seq(x)
            key = (e[0], o)
            if key in percons and s < percons[key]:
                rec.violation('queue_order_violated', attrs, consumer=e[0], producer=o,
                              seq=s, after=percons[key])
            percons[key] = s
            maxgot[o] = max(maxgot.get(o, 0), s)
        lastr = {}
        for x in remaining:
            o, s = _tag_owner(x), _tag_seq(x)
            if s < maxgot.get(o, 0) or s < lastr.get(o, 0):
                rec.violation('queue_order_violated', attrs, producer=o, seq=s, where='remaining')
            lastr[o] = s
        # lock protected read-modify-write, semaphore occupancy
        for name, val in (('LK', 'V'), ('RL', 'V2')):
            es = [e for e in by.get('locked_incr', []) if e[2] == name]
            fin = sh[val].value
            rec.count('locked_sections', len(es))
            if fin != len(es) or sorted(e[3] for e in es) != list(range(len(es))):
                rec.violation('lost_update_under_lock', dict(attrs, lock=name),
                              final=fin, sections=len(es))
            if _max_overlap([(e[4], e[5]) for e in es]) > 1:
                rec.violation('lock_not_exclusive', dict(attrs, lock=name))
        holds = [(e[4], e[5]) for e in by.get('sem_hold', []) if e[3]]
        rec.count('semaphore_holds', len(holds))
        if _max_overlap(holds) > 2:
            rec.violation('semaphore_overcommitted', attrs, overlap=_max_overlap(holds))
        # evidence that calls of different clients really overlapped
        spans = sorted((e[4], e[5], e[0]) for e in logs if e[1] in ('append', 'pop', 'setdefault', 'qput', 'qget', 'poptoken'))
        overl = 0
        for i in range(len(spans) - 1):
            if spans[i + 1][0] < spans[i][1] and spans[i + 1][2] != spans[i][2]:
                overl += 1
        rec.count('conc_overlapping_calls', overl)
        rec.case()
        if overl:
            rec.sig(['conc', spec['procs'], spec['threads'], spec.get('parent_threads', 0), method,
                     bucket(switches), bucket(contended), bucket(overl)])
        rec.sample({'mode': 'conc', 'procs': spec['procs'], 'threads': spec['threads'],
                    'method': method, 'ops_logged': len(logs), 'producer_switches': switches,
                    'contended_setdefault_keys': contended, 'overlapping_calls': overl,
                    'popped': len(popped), 'final_len': len(final)})
        # all clients gone: only the parent's proxies remain
        del sh
    finally:
        for p in procs:
            try:
                if p.is_alive():
                    p.terminate()
                    p.join(3)
            except Exception:
                pass
        stop_manager(m)


def run_conc(spec, rec):
    for r in range(spec.get('runs', 1)):
        try:
            conc_run(rec, spec, r)
        except Exception as exc:
            if not under_test(exc):
                raise
            rec.violation('manager_operation_raised', {'mode': 'conc', 'method': spec['method']},
                          exc=repr(exc)[:300], tb=tbtail())
        rec.flush()


# --------------------------------------------------------------------------
# mode refs: reference-count model versus the server's table
# --------------------------------------------------------------------------

CHILD_WAIT = 90          # generous: a child answers a command in milliseconds


class ChildGone(Exception):
    pass


class RefHistory:
    def __init__(self, rec, rng, spec, hno):
        from vmon import c20_helpers as H
        self.H = H
        self.rec, self.rng, self.spec = rec, rng, spec
        self.custom = bool(spec.get('custom_key'))
        self.method = spec['method']
        self.attrs = {'mode': 'refs', 'method': self.method, 'custom_key': self.custom}
        self.key = (b'K' + bytes(rng.randrange(1, 256) for _ in range(rng.randrange(8, 24)))
                    ) if self.custom else None
        self.m = None
        self.model = {'parent': {}}        # process -> {name: ident}
        self.content = {}                  # ident -> list of tags in the referent
        self.typeid = {}                   # ident -> typeid
        self.children = {}                 # cname -> (process, conn, method)
        self.nchild = 0
        self.nname = 0
        self.ntag = 0
        self.steps = []
        self.kinds = set()
        self.methods_used = set()
        self.maxref = 0
        self.disposals = 0
        self.went_high = set()
        self.last = 'start'
        self.aborted = False

    # -- bookkeeping ---------------------------------------------------------
    def name(self):
        self.nname += 1
        return 'p%d' % self.nname

    def tag(self):
        self.ntag += 1
        return 'u%d' % self.ntag

    def expected(self):
        exp = {}
        for held in self.model.values():
            for ident in held.values():
                exp[ident] = exp.get(ident, 0) + 1
        return exp

    def step(self, kind, **kw):
        self.last = kind
        self.kinds.add(kind)
        self.steps.append(dict(kw, step=kind))
        self.rec.count('ref_steps')
        self.rec.count('ref_step:' + kind)

    def fail(self, kind, **detail):
        self.aborted = True
        self.rec.violation(kind, dict(self.attrs, after=self.last), history=self.steps[-15:],
                           **detail)

    def check(self):
        """quiescent point: every command has been acknowledged"""
        if self.aborted:
            return
        exp = self.expected()
        before = set(getattr(self, '_prev_exp', ()))
        obs = server_refs(self.m)
        self.rec.count('quiescent_checks')
        for ident in before - set(exp):
            self.disposals += 1
            if ident in self.went_high:
                self.rec.count('disposed_after_sharing')
            self.rec.count('disposals_observed')
        self._prev_exp = set(exp)
        for ident, n in exp.items():
            self.maxref = max(self.maxref, n)
            if n >= 2:
                self.went_high.add(ident)
            self.rec.maxi('max:refcount', n)
            if ident not in obs:
                return self.fail('object_disposed_while_proxy_exists', ident_type=self.typeid.get(ident),
                                 expected_refcount=n, server_table=obs, model=exp)
            if obs[ident] < n:
                return self.fail('refcount_too_low', ident_type=self.typeid.get(ident),
                                 expected=n, observed=obs[ident], server_table=obs, model=exp)
            if obs[ident] > n:
                return self.fail('refcount_too_high', ident_type=self.typeid.get(ident),
                                 expected=n, observed=obs[ident], server_table=obs, model=exp)
        extra = set(obs) - set(exp)
        if extra:
            return self.fail('object_alive_after_last_release',
                             refcounts=[obs[i] for i in extra], server_table=obs, model=exp)
        if self.rng.random() < 0.3:
            n = self.m._number_of_objects()
            if n != len(exp):
                return self.fail('number_of_objects_disagrees', reported=n, expected=len(exp))

    # -- child plumbing --------------------------------------------------------
    def ask(self, cname, *cmd):
        p, conn, _meth = self.children[cname]
        conn.send(cmd)
        return self.reply(cname)

    def reply(self, cname):
        p, conn, _meth = self.children[cname]
        if not conn.poll(CHILD_WAIT):
            self.fail('child_unresponsive', child_alive=p.is_alive(), waited_s=CHILD_WAIT)
            raise ChildGone(cname)
        try:
            r = conn.recv()
        except EOFError:
            self.fail('client_process_died', exitcode=p.exitcode)
            raise ChildGone(cname)
        if r[0] == 'err':
            self.fail('proxy_operation_failed', where='child', exc_type=r[1], exc=r[2], tb=r[3])
            raise ChildGone(cname)
        return r[1] if r[0] == 'ok' else r

    # -- steps -----------------------------------------------------------------
    def st_create(self):
        H, m = self.H, self.m
        tid = self.rng.choice(['list', 'list', 'dict', 'Sub', 'Singleton', 'SubRet'])
        n = self.name()
        if tid == 'SubRet':
            H.HOLDER[n] = H.HOLDER['_cnt'].make_sub()
        else:
            H.HOLDER[n] = getattr(m, tid)()
        ident = H.HOLDER[n]._token.id
        if tid == 'Singleton':
            self.content.setdefault(ident, [])     # one referent for the server's lifetime
        elif ident not in self.expected():
            self.content[ident] = []               # (an address may be reused after disposal)
        self.typeid[ident] = tid
        self.model['parent'][n] = ident
        self.step('create', type=tid, name=n)

    def st_copy(self, who):
        n0 = self.rng.choice(self.usable(who))
        how = self.rng.choice(['pickle', 'copy', 'thread'])
        n = self.name()
        if who == 'parent':
            self.H.HOLDER[n] = self.H.copy_proxy(self.H.HOLDER[n0], how)
        else:
            self.ask(who, 'copy', n0, n, how)
        self.model[who][n] = self.model[who][n0]
        self.step('copy', who=self.kind_of(who), how=how, src=n0, name=n)

    def st_drop(self, who):
        n = self.rng.choice(self.usable(who))
        how = self.rng.choice(['main', 'main', 'thread'])
        ident = self.model[who][n]
        token = None
        if who == 'parent':
            token = self.H.HOLDER[n]._token
            self.H.drop_named(self.H.HOLDER, n, how)
        else:
            self.ask(who, 'drop', n, how)
        del self.model[who][n]
        self.step('drop', who=self.kind_of(who), how=how, name=n)
        if token is not None and ident not in self.expected() \
                and self.typeid.get(ident) != 'Singleton':
            # that was the last proxy: the token must be worthless now
            from billiard import managers
            try:
                z = managers.BaseProxy(token, 'pickle', authkey=self.m._authkey)
            except managers.RemoteError:
                self.rec.count('stale_token_refused')
            else:
                del z
                self.fail('stale_token_accepted', ident_type=self.typeid.get(ident))

    def st_use(self, who):
        n = self.rng.choice(self.usable(who))
        ident = self.model[who][n]
        t = self.tag()
        if who == 'parent':
            got = self.H.use_proxy(self.H.HOLDER[n], t)
        else:
            got = self.ask(who, 'use', n, t)
        self.content[ident].append(t)
        self.step('use', who=self.kind_of(who), name=n)
        self.rec.count('referent_reads_compared')
        if list(got) != self.content[ident]:
            self.fail('referent_content_differs', ident_type=self.typeid.get(ident),
                      expected=self.content[ident][-10:], got=list(got)[-10:])

    def st_start_child(self):
        import billiard
        H = self.H
        method = self.method
        if method == 'mixed':
            method = self.rng.choice(['fork', 'spawn', 'forkserver'])
        ctx = billiard.get_context(method)
        a, b = ctx.Pipe()
        self.nchild += 1
        cname = 'child%d' % self.nchild
        if method == 'fork':
            given = None
            names = sorted(H.HOLDER)
            p = ctx.Process(target=H.ref_child, args=(b, None))
        else:
            cands = self.usable('parent')
            names = sorted(self.rng.sample(cands, self.rng.randrange(0, min(4, len(cands)) + 1)))
            p = ctx.Process(target=H.ref_child, args=(b, {n: H.HOLDER[n] for n in names}))
        p.start()
        p._args = ()              # the harness must not keep proxies alive itself
        b.close()
        self.children[cname] = (p, a, method)
        self.methods_used.add(method)
        msg = self.reply(cname)
        if msg[0] != 'ready' or msg[1] != names:
            raise RuntimeError('harness: child handshake %r vs %r' % (msg, names))
        self.model[cname] = {n: self.model['parent'][n] for n in names}
        self.step('start_child', method=method, passed=len(names))
        self.rec.count('child_started')
        self.rec.count('child_started:' + method)

    def st_send(self, cname):
        """parent -> running child over a pipe (sender keeps its proxy)"""
        n0 = self.rng.choice(self.usable('parent'))
        n = self.name()
        p, conn, _ = self.children[cname]
        conn.send(('recv', n))
        conn.send(self.H.HOLDER[n0])
        self.reply(cname)
        self.model[cname][n] = self.model['parent'][n0]
        self.step('pipe_to_child', src=n0, name=n)
        self.rec.count('pipe_transfers')

    def st_send_back(self, cname):
        n0 = self.rng.choice(self.usable(cname))
        n = self.name()
        p, conn, _ = self.children[cname]
        conn.send(('send', n0))
        if not conn.poll(CHILD_WAIT):
            self.fail('child_unresponsive', child_alive=p.is_alive(), waited_s=CHILD_WAIT)
            raise ChildGone(cname)
        obj = conn.recv()
        if isinstance(obj, tuple):
            self.fail('proxy_operation_failed', where='child send', reply=obj)
            raise ChildGone(cname)
        self.H.HOLDER[n] = obj
        del obj
        self.reply(cname)
        self.model['parent'][n] = self.model[cname][n0]
        self.step('pipe_to_parent', src=n0, name=n)
        self.rec.count('pipe_transfers')

    def st_exit_child(self, cname):
        p, conn, meth = self.children[cname]
        self.ask(cname, 'exit')
        p.join(CHILD_WAIT)
        if p.is_alive():
            self.fail('child_unresponsive', at='exit', waited_s=CHILD_WAIT)
            raise ChildGone(cname)
        conn.close()
        del self.children[cname]
        del self.model[cname]
        self.step('child_exit', method=meth, exitcode=p.exitcode)
        if p.exitcode != 0:
            self.fail('client_process_died', exitcode=p.exitcode)

    def usable(self, who):
        return sorted(n for n in self.model[who] if not n.startswith('_'))

    def kind_of(self, who):
        return 'parent' if who == 'parent' else 'child:' + self.children[who][2]

    # -- driver ------------------------------------------------------------------
    def run(self):
        H, rng, rec = self.H, self.rng, self.rec
        H.HOLDER.clear()
        self.m = new_manager('fork' if rng.random() < 0.8 else 'spawn', authkey=self.key)
        try:
            H.HOLDER['_cnt'] = self.m.Counter(0)
            self.model['parent']['_cnt'] = H.HOLDER['_cnt']._token.id
            self.typeid[self.model['parent']['_cnt']] = 'Counter'
            self.check()
            lo, hi = self.spec['steps']
            nsteps = rng.randrange(lo, hi + 1)
            max_children = 3
            budget_children = 4 if self.method == 'fork' else 3
            try:
                for _ in range(nsteps):
                    if self.aborted:
                        break
                    procs = ['parent'] + sorted(self.children)
                    who = rng.choice(procs) if rng.random() < 0.55 else 'parent'
                    have = self.usable(who)
                    r = rng.random()
                    if who == 'parent':
                        if not have or (r < 0.22 and len(have) < 8):
                            self.st_create()
                        elif r < 0.38 and not self.custom:
                            self.st_copy(who)
                        elif r < 0.60 and len(have) > 0:
                            self.st_drop(who)
                        elif r < 0.72:
                            self.st_use(who)
                        elif r < 0.86 and len(self.children) < max_children and budget_children > 0:
                            budget_children -= 1
                            self.st_start_child()
                        elif self.children and not self.custom and r < 0.95 and have:
                            self.st_send(rng.choice(sorted(self.children)))
                        else:
                            self.st_use(who)
                    else:
                        if r < 0.12:
                            self.st_exit_child(who)
                        elif not have:
                            if self.custom or not self.usable('parent'):
                                self.st_exit_child(who)
                            else:
                                self.st_send(who)
                        elif r < 0.30 and not self.custom:
                            self.st_copy(who)
                        elif r < 0.55:
                            self.st_drop(who)
                        elif r < 0.80:
                            self.st_use(who)
                        elif not self.custom:
                            self.st_send_back(who)
                        else:
                            self.st_use(who)
                    self.check()
                # teardown in random order: children exit / parent drops all
                order = sorted(self.children) + ['parent']
                rng.shuffle(order)
                for who in order:
                    if self.aborted:
                        break
                    if who == 'parent':
                        for n in sorted(self.model['parent']):
                            H.drop_named(H.HOLDER, n, 'main')
                            del self.model['parent'][n]
                        self.step('drop_all', who='parent')
                    else:
                        self.st_exit_child(who)
                    self.check()
            except ChildGone:
                pass
        finally:
            H.HOLDER.clear()
            for cname, (p, conn, _m) in list(self.children.items()):
                try:
                    conn.close()
                    p.join(2)
                    if p.is_alive():
                        p.terminate()
                        p.join(2)
                except Exception:
                    pass
            stop_manager(self.m)
        rec.case()
        if self.went_high and self.disposals:
            rec.sig(['refs', sorted(self.methods_used), sorted(self.kinds), bucket(self.maxref),
                     bucket(self.disposals), self.custom])
        rec.sample({'mode': 'refs', 'method': self.method, 'custom_key': self.custom,
                    'steps': len(self.steps), 'max_refcount': self.maxref,
                    'disposals': self.disposals, 'children': sorted(self.methods_used),
                    'tail': self.steps[-5:]})


def run_refs(spec, rec):
    rng = rng_for(spec['seed'], 'refs')
    for h in range(spec['histories']):
        hist = RefHistory(rec, rng, spec, h)
        try:
            hist.run()
        except Exception as exc:
            if not under_test(exc):
                raise
            rec.violation('proxy_operation_failed', dict(hist.attrs, after=hist.last),
                          exc=repr(exc)[:300], tb=tbtail(), history=hist.steps[-15:])
        rec.flush()


# --------------------------------------------------------------------------
# mode auth: wrong key, no key, hostile raw clients
# --------------------------------------------------------------------------

def _drain(c, limit=6, wait=1.5):
    """read whatever the server still sends; -> list of decoded messages"""
    out = []
    for _ in range(limit):
        try:
            if not c.poll(wait):
                break
            raw = c.recv_bytes(1 << 20)
        except (EOFError, OSError):
            break
        try:
            out.append(pickle.loads(raw))
        except Exception:
            out.append(raw)
        wait = 0.3
    return out


HOSTILE_VARIANTS = ('no_handshake', 'ignore_failure', 'skip_first', 'welcome_first',
                    'echo_challenge', 'empty_answer', 'short_answer')


def hostile(address, variant, request):
    """a client that does not know the key.  -> (executed?, transcript)"""
    from billiard import connection
    tr = []
    try:
        c = connection.Client(address)            # no handshake on our side
    except OSError as exc:
        return False, ['connect failed %r' % exc]
    try:
        def rb():
            if not c.poll(2.0):
                tr.append('no data')
                return None
            r = c.recv_bytes(1 << 20)
            tr.append(('recv', r[:40]))
            return r
        if variant == 'no_handshake':
            c.send(request)
        elif variant == 'ignore_failure':
            rb()                                              # server's challenge
            c.send_bytes(os.urandom(16))                      # a digest we cannot know
            rb()                                              # verdict, ignored
            c.send_bytes(connection.CHALLENGE + os.urandom(20))
            rb()                                              # server's digest, ignored
            c.send_bytes(connection.WELCOME)
            c.send(request)
        elif variant == 'skip_first':
            c.send_bytes(connection.CHALLENGE + os.urandom(20))
            rb()
            c.send_bytes(connection.WELCOME)
            c.send(request)
        elif variant == 'welcome_first':
            c.send_bytes(connection.WELCOME)
            c.send(request)
        elif variant in ('empty_answer', 'short_answer'):
            # an answer of the wrong length, then the rest of the handshake as
            # if it had been accepted
            rb()
            c.send_bytes(b'' if variant == 'empty_answer' else os.urandom(1))
            rb()
            c.send_bytes(connection.CHALLENGE + os.urandom(20))
            rb()
            c.send_bytes(connection.WELCOME)
            c.send(request)
        elif variant == 'echo_challenge':
            ch = rb()                                         # reflect the challenge itself
            c.send_bytes(ch or b'')
            rb()
            c.send(request)
        else:
            raise RuntimeError('harness: variant %r' % variant)
        msgs = _drain(c)
        tr.append(('after', [repr(x)[:80] for x in msgs]))
        executed = any(isinstance(x, tuple) and len(x) == 2 and x[0] in ('#RETURN', '#PROXY')
                       for x in msgs)
        return executed, tr
    except (EOFError, OSError) as exc:
        tr.append('closed: %r' % (exc,))
        return False, tr
    finally:
        try:
            c.close()
        except Exception:
            pass


def run_auth(spec, rec):
    from billiard import connection, managers
    from billiard.exceptions import AuthenticationError
    from vmon.c20_helpers import HManager
    rng = rng_for(spec['seed'], 'auth')
    attrs0 = {'mode': 'auth'}
    for rnd in range(spec['rounds']):
        key = bytes(rng.randrange(1, 256) for _ in range(rng.randrange(8, 33)))
        m = new_manager('fork', authkey=key, probe=False)
        try:
            # hostile clients first: they need no working legitimate client
            for variant in HOSTILE_VARIANTS:
                for rname in ('dummy', 'number_of_objects'):
                    rec.count('hostile_attempts')
                    rec.count('hostile:' + variant)
                    executed, tr = hostile(m.address, variant, (None, rname, (), {}))
                    if executed:
                        rec.violation('unauthenticated_request_executed',
                                      dict(attrs0, client=variant, request=rname), transcript=tr)
                    else:
                        rec.count('hostile_rejected')
            rec.flush()
            probe_manager(m)
            content = ['a%d' % i for i in range(rng.randrange(1, 6))]
            lst = m.list(content)
            dct = m.dict({'k': 1})
            base = server_refs(m)
            ident = lst._token.id

            def state_ok(after, **extra):
                """legit client: the table and the contents are what they were"""
                now = server_refs(m)
                got, gd = lst._getvalue(), dct._getvalue()
                if now != base or got != content or gd != {'k': 1}:
                    rec.violation('hostile_client_changed_server_state', dict(attrs0, **after),
                                  table_before=base, table_now=now, list_now=got[:20],
                                  dict_now=repr(gd)[:200], **extra)
                    return False
                return True
            # 1. regular clients with a wrong key
            k2 = bytearray(key)
            k2[rng.randrange(len(key))] ^= 1 << rng.randrange(8)
            wrong = [('random', bytes(rng.randrange(1, 256) for _ in range(len(key)))),
                     ('truncated', key[:-1]), ('extended', key + b'x'), ('empty', b''),
                     ('bitflip', bytes(k2)), ('prefixed', b'x' + key)]
            for label, wk in wrong:
                if wk.rstrip(b'\0') == key.rstrip(b'\0'):
                    continue        # HMAC zero-pads keys: not a different key
                a = dict(attrs0, client='wrong_key', key=label)
                for how in ('Client', 'manager.connect', 'proxy'):
                    rec.count('hostile_attempts')
                    try:
                        if how == 'Client':
                            c = connection.Client(m.address, authkey=wk)
                            c.close()
                        elif how == 'manager.connect':
                            HManager(address=m.address, authkey=wk).connect()
                        else:
                            managers.ListProxy(lst._token, 'pickle', authkey=wk)
                    except AuthenticationError:
                        rec.count('wrong_key_rejected')
                    except (EOFError, OSError):
                        rec.count('wrong_key_rejected')
                        rec.count('wrong_key_connection_dropped')
                    else:
                        rec.violation('wrong_key_accepted', dict(a, via=how))
                    rec.sig(['auth', 'wrong_key', label, how])
                state_ok({'client': 'wrong_key', 'key': label})
                rec.case()
            # 2. no key at all through the public API
            rec.count('hostile_attempts')
            try:
                c = connection.Client(m.address)
                r = managers.dispatch(c, None, 'number_of_objects')
                rec.violation('unauthenticated_request_executed',
                              dict(attrs0, client='no_key', request='number_of_objects'), reply=r)
            except (EOFError, OSError, ValueError, pickle.UnpicklingError, TypeError,
                    managers.RemoteError, AssertionError):
                rec.count('no_key_rejected')
            except Exception as exc:
                rec.count('no_key_rejected')
                rec.count('no_key_other_error:' + type(exc).__name__)
            # 3. hostile raw clients
            requests = [('create', (None, 'create', ('list', ['evil']), {})),
                        ('decref', (None, 'decref', (ident,), {})),
                        ('incref', (None, 'incref', (ident,), {})),
                        ('number_of_objects', (None, 'number_of_objects', (), {})),
                        ('debug_info', (None, 'debug_info', (), {})),
                        ('dummy', (None, 'dummy', (), {})),
                        ('method_call', (ident, 'append', ('evil',), {})),
                        ('accept_connection', (None, 'accept_connection', ('evil',), {}))]
            variants = list(HOSTILE_VARIANTS)
            rng.shuffle(requests)
            for variant in variants:
                for rname, req in requests[:5 if spec.get('tier') == 'quick' else 8]:
                    rec.count('hostile_attempts')
                    rec.count('hostile:' + variant)
                    executed, tr = hostile(m.address, variant, req)
                    a = {'client': variant, 'request': rname}
                    if executed:
                        rec.violation('unauthenticated_request_executed', dict(attrs0, **a),
                                      transcript=tr)
                    else:
                        rec.count('hostile_rejected')
                    rec.sig(['auth', variant, rname])
                    rec.case()
                    if not state_ok(a, transcript=tr):
                        base = server_refs(m)
                        content = lst._getvalue()
            # shutdown request last: if honoured the manager dies
            for variant in variants:
                rec.count('hostile_attempts')
                executed, tr = hostile(m.address, variant, (None, 'shutdown', (), {}))
                time.sleep(0.05)
                alive = m._process.is_alive()
                if executed or not alive:
                    rec.violation('unauthenticated_request_executed',
                                  dict(attrs0, client=variant, request='shutdown'),
                                  transcript=tr, manager_alive=alive)
                    break
                rec.count('hostile_rejected')
            # the right key still works and nothing moved
            if m._process.is_alive():
                rec.count('right_key_accepted')
                c = connection.Client(m.address, authkey=key)
                managers.dispatch(c, None, 'dummy')
                c.close()
                m2 = HManager(address=m.address, authkey=key)
                m2.connect()
                l2 = m2.list([1])
                exp = dict(base)
                exp[l2._token.id] = 1
                now = server_refs(m)
                if now != exp:
                    rec.violation('refcount_mismatch_second_manager', attrs0, expected=exp, observed=now)
                del l2
                state_ok({'client': 'right_key_second_manager'})
            del lst, dct
        except Exception as exc:
            if not under_test(exc):
                raise
            rec.violation('manager_operation_raised', attrs0, exc=repr(exc)[:300], tb=tbtail())
        finally:
            stop_manager(m)
        rec.flush()


# --------------------------------------------------------------------------
# mode pool: Pool / AsyncResult / Iterator proxies
# --------------------------------------------------------------------------

def run_pool(spec, rec):
    from vmon.c20_helpers import sq, boom_task
    attrs = {'mode': 'pool'}
    m = new_manager('fork')
    pool = None
    try:
        pool = m.Pool(2)
        xs = list(range(7))

        def cmp(name, fn, want):
            rec.count('pool_results_compared')
            rec.case()
            rec.sig(['pool', name])
            try:
                got = fn()
            except Exception as exc:
                if not under_test(exc):
                    raise
                kind = 'proxy_raised_where_local_returns'
                if name in ('imap', 'imap_unordered'):
                    kind = 'iterator_proxy_next_refused'
                rec.violation(kind, dict(attrs, method=name), exc_type=type(exc).__name__,
                              exc=str(exc)[-600:], local=repr(want)[:200])
                return
            if got != want:
                rec.violation('proxy_result_differs_from_local', dict(attrs, method=name),
                              local=repr(want)[:300], proxy=repr(got)[:300])
        cmp('apply', lambda: pool.apply(sq, (3,)), 9)
        cmp('map', lambda: pool.map(sq, xs), [sq(x) for x in xs])
        cmp('starmap', lambda: pool.starmap(pow, [(2, 3), (3, 2)]), [8, 9])
        cmp('apply_async', lambda: pool.apply_async(sq, (5,)).get(60), 25)
        cmp('map_async', lambda: pool.map_async(sq, xs).get(60), [sq(x) for x in xs])

        def async_state():
            r = pool.apply_async(sq, (6,))
            v = r.get(60)
            return (v, r.ready(), r.successful())
        cmp('async_result_state', async_state, (36, True, True))
        cmp('imap', lambda: [x for x in pool.imap(sq, xs)], [sq(x) for x in xs])
        cmp('imap_unordered', lambda: sorted(pool.imap_unordered(sq, xs)), [sq(x) for x in xs])
        # an exception raised by the referent's method is re-raised in the caller
        rec.count('pool_results_compared')
        try:
            pool.apply(boom_task, (1,))
            rec.violation('proxy_swallowed_referent_exception', dict(attrs, method='apply'))
        except ValueError as exc:
            rec.count('referent_exceptions_compared')
            if exc.args != ("task 1",):
                rec.violation('proxy_raised_different_exception', dict(attrs, method='apply'),
                              args=repr(exc.args))
        except Exception as exc:
            inner = getattr(exc, 'exc', None)       # billiard's ExceptionWithTraceback wrapper
            if isinstance(inner, ValueError):
                rec.count('referent_exceptions_compared')
            else:
                rec.violation('proxy_raised_different_exception', dict(attrs, method='apply'),
                              exc_type=type(exc).__name__, exc=str(exc)[-400:])
        # result proxies are ordinary referents: gone once dropped
        gc.collect()
        n_before = m._number_of_objects()
        r = pool.apply_async(sq, (2,))
        r.get(60)
        n_mid = m._number_of_objects()
        del r
        n_after = m._number_of_objects()
        if not (n_mid == n_before + 1 and n_after == n_before):
            rec.violation('object_alive_after_last_release', dict(attrs, type='AsyncResult'),
                          before=n_before, with_result=n_mid, after_drop=n_after)
        rec.sample({'mode': 'pool', 'objects': [n_before, n_mid, n_after]})
    except Exception as exc:
        if not under_test(exc):
            raise
        rec.violation('manager_operation_raised', attrs, exc=repr(exc)[:300], tb=tbtail())
    finally:
        try:
            if pool is not None:
                pool.terminate()
        except Exception:
            pass
        stop_manager(m)


# --------------------------------------------------------------------------
# mode directed: multi-step sequences
# --------------------------------------------------------------------------

def _sc_alias_drop(rec, m, tname):
    """two proxies to one lock in one process; the lock is taken through one,
    the other is dropped; the holder must still be able to release"""
    attrs = {'mode': 'directed', 'scenario': 'alias_drop_while_held', 'type': tname}
    rec.case()
    rec.sig(['directed', 'alias_drop', tname])
    lk = getattr(m, tname)()
    alias = pickle.loads(pickle.dumps(lk))
    if not lk.acquire():
        rec.violation('proxy_result_differs_from_local', dict(attrs, op='acquire'))
        return
    del alias                       # a local alias going away changes nothing locally
    # keep another client thread connected so that the server thread which
    # holds the lock cannot be mistaken for a brand-new one (thread ids are
    # recycled by the OS)
    time.sleep(0.3)
    other = m.list()
    go = threading.Event()
    dones = []

    def hold(done):
        other.append(1)
        done.set()
        go.wait(120)
    ths = []
    for _ in range(16):
        done = threading.Event()
        dones.append(done)
        ths.append(threading.Thread(target=hold, args=(done,), daemon=True))
        ths[-1].start()
    for done in dones:
        done.wait(60)
    try:
        if tname == 'Condition':
            lk.notify()
        lk.release()
        rec.count('alias_drop_release_ok')
    except Exception as exc:
        rec.violation('lock_ownership_lost_after_alias_drop', attrs,
                      exc_type=type(exc).__name__, exc=str(exc)[-500:],
                      note='local object: acquire(); release() succeeds')
    finally:
        go.set()
        for t in ths:
            t.join(10)


def _sc_unrelated_drop(rec, m, tname):
    """a lock is held through a proxy while other, unrelated proxies of the
    same process are created and dropped (also in another thread)"""
    attrs = {'mode': 'directed', 'scenario': 'unrelated_drop_while_held', 'type': tname}
    rec.case()
    rec.sig(['directed', 'unrelated_drop', tname])
    lk = getattr(m, tname)()
    model = {'RLock': threading.RLock, 'Condition': threading.Condition}[tname]()
    keep = m.list()
    try:
        for o in (lk, model):
            o.acquire()
            o.acquire()
        tmp = m.dict()
        tmp['a'] = 1
        del tmp
        t = threading.Thread(target=lambda: m.list([1]).append(2))
        t.start()
        t.join(60)
        a = pickle.loads(pickle.dumps(keep))
        del a
        if tname == 'Condition':
            lk.notify_all()
        lk.release()
        lk.release()
        rec.count('unrelated_drop_release_ok')
    except Exception as exc:
        if not under_test(exc):
            raise
        rec.violation('lock_ownership_lost_after_unrelated_drop', attrs,
                      exc_type=type(exc).__name__, exc=str(exc)[-500:])
        return
    try:
        lk.release()
        rec.violation('proxy_swallowed_referent_exception', dict(attrs, op='release'))
    except RuntimeError:
        rec.count('referent_exceptions_compared')


def _sc_rebuilt_proxy_method(rec, m):
    """a method registered as returning a proxy, called through a proxy that
    was rebuilt from a pickle (the way proxies reach other processes)"""
    attrs = {'mode': 'directed', 'scenario': 'proxy_returning_method_on_rebuilt_proxy'}
    rec.case()
    rec.sig(['directed', 'rebuilt_proxy_method'])
    c = m.Counter(1)
    before = server_refs(m)
    c2 = pickle.loads(pickle.dumps(c))
    s = None
    try:
        s = c2.make_sub()
        s.add('x')
        if s.items() != ['x']:
            rec.violation('proxy_result_differs_from_local', dict(attrs, op='make_sub'))
    except Exception as exc:
        rec.violation('proxy_returning_method_fails_on_rebuilt_proxy', attrs,
                      exc_type=type(exc).__name__, exc=str(exc)[-400:])
    del s, c2
    gc.collect()
    after = server_refs(m)
    if after != before:
        rec.violation('server_object_leaked_without_proxy', attrs, table_before=before,
                      table_after=after,
                      leaked=[k for k in after if k not in before])
    del c


def _sc_nested(rec, m):
    attrs = {'mode': 'directed', 'scenario': 'proxy_stored_in_proxy'}
    rec.case()
    rec.sig(['directed', 'nested'])
    outer, inner = m.list(), m.dict()
    l_out, l_in = [], {}
    outer.append(inner)
    l_out.append(l_in)
    inner['k'] = 1
    l_in['k'] = 1
    if norm(outer[0]) != norm(l_out[0]):
        rec.violation('proxy_result_differs_from_local', dict(attrs, op='getitem'),
                      local=repr(l_out[0]), proxy=repr(outer[0]))
    del inner
    if norm(outer[0]) != norm(l_out[0]) or len(outer) != 1:
        rec.violation('proxy_result_differs_from_local', dict(attrs, op='getitem_after_drop'),
                      local=repr(l_out[0]), proxy=repr(outer[0]))
    del outer
    gc.collect()
    n = m._number_of_objects()
    if n:
        rec.violation('object_alive_after_last_release', attrs, objects_left=n)


def _sc_unexposed(rec, m):
    """names outside the exposed set must be refused and have no effect"""
    from billiard import managers
    attrs = {'mode': 'directed', 'scenario': 'unexposed_method'}
    lst, dct, val, ns = m.list([3, 1, 2]), m.dict({'a': 1}), m.Value('i', 7), m.Namespace(x=1)
    cnt, lk = m.Counter(5), m.Lock()
    trials = [(lst, 'clear', ()), (lst, 'copy', ()), (lst, '__iter__', ()), (lst, '__init__', ([9],)),
              (lst, '__class__', ()), (lst, '__reduce__', ()), (dct, '__init__', ({'z': 1},)),
              (dct, 'fromkeys', (['q'],)), (dct, '__iter__', ()), (val, '__init__', ('i', 0)),
              (val, '__setattr__', ('_value', 0)), (ns, '__init__', ()), (ns, '__dir__', ()),
              (cnt, '_private', ()), (cnt, '__init__', (0,)), (cnt, '__setattr__', ('n', 0)),
              (lk, 'locked', ()), (lk, '__enter__', ())]
    for px, name, args in trials:
        rec.case()
        tid = px._token.typeid
        rec.sig(['directed', 'unexposed', tid, name])
        try:
            r = px._callmethod(name, args)
            rec.violation('unexposed_method_executed', dict(attrs, type=tid, method=name),
                          returned=repr(r)[:200])
        except (managers.RemoteError, AttributeError):
            rec.count('unexposed_refused')
        except Exception as exc:
            rec.count('unexposed_refused')
            rec.count('unexposed_refused_with:' + type(exc).__name__)
    state = (lst._getvalue(), dct._getvalue(), val.value, ns.x, cnt.get(), lk.acquire(False))
    if state != ([3, 1, 2], {'a': 1}, 7, 1, 5, True):
        rec.violation('unexposed_method_executed', dict(attrs, type='any', method='state'),
                      state=repr(state))
    lk.release()
    # fallbacks that are meant to work without being exposed
    if str(lst) != '[3, 1, 2]' or lst._getvalue() != [3, 1, 2]:
        rec.violation('proxy_result_differs_from_local', dict(attrs, op='str'))
    # server functions outside Server.public
    addr, key = m.address, m._authkey
    for fname, args in (('fallback_getvalue', ('i', 'o')), ('fallback_repr', ('i', 'o')),
                        ('handle_request', ()), ('__init__', ()), ('registry', ())):
        rec.case()
        rec.sig(['directed', 'non_public', fname])
        c = m._Client(addr, authkey=key)
        try:
            r = managers.dispatch(c, None, fname, args)
            rec.violation('non_public_server_function_executed', dict(attrs, function=fname),
                          returned=repr(r)[:200])
        except managers.RemoteError:
            rec.count('unexposed_refused')
        except (EOFError, OSError):
            rec.count('unexposed_refused')
        finally:
            c.close()
    if not m._process.is_alive():
        rec.violation('non_public_server_function_executed', dict(attrs, function='any'),
                      note='server died')


def _sc_stale_token(rec, m):
    from billiard import managers
    attrs = {'mode': 'directed', 'scenario': 'stale_token'}
    rec.case()
    rec.sig(['directed', 'stale_token'])
    d = m.dict({'a': 1})
    tok = d._token
    del d
    try:
        z = managers.DictProxy(tok, 'pickle', authkey=m._authkey)
    except managers.RemoteError:
        rec.count('stale_token_refused')
    else:
        try:
            content = repr(z._getvalue())[:200]
        except Exception as exc:
            content = 'unreadable: %r' % (exc,)
        rec.violation('stale_token_accepted', attrs, content=content[:300],
                      note='a proxy could be built from the token of a disposed object')
        del z
    gc.collect()
    if server_refs(m):
        rec.violation('object_alive_after_last_release', attrs, table=server_refs(m))


def _sc_thread_local(rec, m):
    """one proxy object used from many threads of one process; dropping all
    proxies and creating new ones reconnects"""
    attrs = {'mode': 'directed', 'scenario': 'threads_share_proxy'}
    rec.case()
    rec.sig(['directed', 'threads_share_proxy'])
    d = m.dict()
    bad = []

    def work(i):
        for j in range(150):
            k, v = 'k%d_%d' % (i, j), 'v%d_%d' % (i, j)
            d[k] = v
            got = d[k]
            if got != v:
                bad.append((k, v, got))
    ths = [threading.Thread(target=work, args=(i,), daemon=True) for i in range(6)]
    for t in ths:
        t.start()
    for t in ths:
        t.join(120)
    if any(t.is_alive() for t in ths):
        rec.violation('client_operation_never_returned', attrs)
        return
    rec.count('private_echoes', 900)
    if bad or len(d) != 900:
        rec.violation('reply_mismatch_on_private_key', dict(attrs, type='dict'), bad=bad[:5],
                      size=len(d))
    del d
    l = m.list([1])                    # every proxy was dropped: the connection is re-made
    a = pickle.loads(pickle.dumps(l))
    del a                               # same ident still referenced by `l`
    if l[0] != 1 or len(l) != 1:
        rec.violation('proxy_result_differs_from_local', dict(attrs, op='after_reconnect'))
    l.append(2)
    if l._getvalue() != [1, 2]:
        rec.violation('proxy_result_differs_from_local', dict(attrs, op='after_reconnect'))


def _ret(v):
    return ('ret',) + norm(v)


def _sc_two_managers(rec, m):
    """proxies of one manager stored in an object of another manager: the
    second server must keep them as proxies of the first (object ids are heap
    addresses and repeat across servers forked from one parent), operations
    through the stored proxy reach the first manager's object, and that object
    lives as long as the stored proxy does"""
    attrs = {'mode': 'directed', 'scenario': 'proxy_of_one_manager_stored_in_another'}
    rec.case()
    m2 = new_manager('fork')
    try:
        n = 60
        b_objs = [m2.list([('B', i)]) for i in range(n)]
        a_objs = [m.list([('A', i)]) for i in range(n)]
        b_ids = {p._token.id for p in b_objs}
        coll = [p for p in a_objs if p._token.id in b_ids]
        rec.count('two_managers:id_collisions', len(coll))
        rec.sig(['directed', 'two_managers', bucket(len(coll))])
        holder = m2.dict()
        for i, p in enumerate(a_objs):
            holder[i] = p
        for i, p in enumerate(a_objs):
            got = holder[i]
            first = attempt(lambda: got[0])
            if first != _ret(('A', i)):
                rec.violation('proxy_result_differs_from_local',
                              dict(attrs, op='read_back', id_collision=p in coll),
                              local=repr(('A', i)), proxy=repr(first))
                break
            got.append(('via-B', i))
            if attempt(lambda: p[-1]) != _ret(('via-B', i)):
                rec.violation('proxy_result_differs_from_local',
                              dict(attrs, op='write_through', id_collision=p in coll),
                              local=repr(('via-B', i)), proxy=repr(attempt(lambda: p[-1])))
                break
            del got
        # lifetime: the only remaining proxies are the ones held inside m2's dict
        del a_objs, coll, p
        gc.collect()
        time.sleep(0.3)
        left = m._number_of_objects()
        if left != n:
            rec.violation('object_gone_while_proxy_exists', attrs, objects=left, expected=n)
        else:
            v = attempt(lambda: holder[n - 1][0])
            if v != _ret(('A', n - 1)):
                rec.violation('object_gone_while_proxy_exists', dict(attrs, op='use_after_drop'),
                              got=repr(v))
        holder.clear()
        t_end = time.monotonic() + 10
        while m._number_of_objects() and time.monotonic() < t_end:
            time.sleep(0.1)
        left = m._number_of_objects()
        if left:
            rec.violation('object_alive_after_last_release', attrs, objects_left=left)
        del b_objs, holder
    finally:
        stop_manager(m2)


def _sc_unsendable_reply(rec, m):
    """a method whose return value (or exception) cannot be sent back: whatever
    the caller is told about that call, everything done afterwards through this
    and other proxies, from the same thread, still behaves like the local object"""
    attrs = {'mode': 'directed', 'scenario': 'unsendable_reply'}
    rec.case()
    odd = m.Odd()
    lst, dct, val = m.list(), m.dict(), m.Value('i', 0)
    l_lst, l_dct = [], {}
    kinds = ['lock', 'gen', 'local', 'lambda', 'raise_unpicklable']
    seen = []
    for k, what in enumerate(kinds):
        r = attempt(lambda: odd.ret(what))
        seen.append((what, r[0] if r[0] == 'ret' else r[1]))
        rec.count('unsendable_replies')
        if r[0] == 'ret':
            rec.violation('proxy_returned_for_unsendable_reply', dict(attrs, what=what),
                          got=repr(r)[:200])
        # the thread's connection to the manager must still serve everybody
        lst.append(k)
        l_lst.append(k)
        dct[what] = k
        l_dct[what] = k
        val.value = k
        checks = [('list', attempt(lambda: lst[:]), _ret(list(l_lst))),
                  ('dict', attempt(lambda: dict(dct.items())), _ret(dict(l_dct))),
                  ('value', attempt(lambda: val.value), _ret(k)),
                  ('same_proxy', attempt(lambda: odd.ret('plain')), _ret(('plain', 2 * k + 2)))]
        for name, got, want in checks:
            if got != want:
                rec.violation('proxy_result_differs_from_local',
                              dict(attrs, op='after_' + what, through=name),
                              local=repr(want), proxy=repr(got)[:300])
                return
    rec.sig(['directed', 'unsendable', seen])


def run_directed(spec, rec):
    scenarios = [lambda m: _sc_two_managers(rec, m),
                 lambda m: _sc_unsendable_reply(rec, m),
                 lambda m: _sc_alias_drop(rec, m, 'RLock'),
                 lambda m: _sc_alias_drop(rec, m, 'Lock'),
                 lambda m: _sc_alias_drop(rec, m, 'Condition'),
                 lambda m: _sc_unrelated_drop(rec, m, 'RLock'),
                 lambda m: _sc_unrelated_drop(rec, m, 'Condition'),
                 lambda m: _sc_rebuilt_proxy_method(rec, m),
                 lambda m: _sc_nested(rec, m),
                 lambda m: _sc_unexposed(rec, m),
                 lambda m: _sc_stale_token(rec, m),
                 lambda m: _sc_thread_local(rec, m)]
    for sc in scenarios:
        m = new_manager('fork')       # one server per scenario: no cross-talk
        try:
            sc(m)
        except Exception as exc:
            if not under_test(exc):
                raise
            rec.violation('manager_operation_raised', {'mode': 'directed'},
                          exc=repr(exc)[:300], tb=tbtail())
        finally:
            stop_manager(m)
        rec.flush()


def run_spec(spec, rec):
    mode = spec['mode']
    if mode == 'diff':
        run_diff(spec, rec)
    elif mode == 'conc':
        run_conc(spec, rec)
    elif mode == 'refs':
        run_refs(spec, rec)
    elif mode == 'auth':
        run_auth(spec, rec)
    elif mode == 'pool':
        run_pool(spec, rec)
    elif mode == 'directed':
        run_directed(spec, rec)
    else:
        raise RuntimeError('unknown mode %r' % mode)
