"""C07 - close() then join() drains all work and leaves no processes behind.
Lane REAL: a real pool in a host process of its own; seeded mixes of pending
apply / map / imap / imap_unordered jobs, close() at a seeded instant, every
pool size and recycling setting, with and without helper threads; failing
items (a map resolved early by a failing chunk); directed scenarios: a worker
leaving while a chunked map runs on, slow callbacks, a replacement worker that
has worked, close() landing inside the supervisor's pass that starts several
workers, producers blocked on the put-lock at close().  Oracles:
results vs the sequential reference, wall time of join() against the work
left (never the workers' 30 s consumption guard), /proc for worker processes
and zombies, thread-set diff, post-close offers refused and never executed."""
from vmon.core import rng_for
from vmon import real

PROPERTY = 'C07'
LEVEL = 'exploration'
TECHNIQUE = 'runtime monitoring of real pools: result provenance vs sequential reference, /proc process census, thread-set diff, bounded-progress wall-clock check with confirm-alone re-run'
RULE = ('one case = one scenario (pool size 1-4, maxtasksperchild in {None,1,3}, threads on/off, optional time-limit scanner, '
        '0-12 pending jobs of four kinds with seeded durations/chunk sizes, close() delay in {0,0.05,0.3,1,after completion}); '
        'signature = (size, quota, threads, scanner, sorted job kinds, close-delay class, whether work was pending at close); '
        'non-trivial = at least one job was still unfinished when close() was called')
ASSUMPTIONS = [
    'upper bound on join(): work left + 12 s, re-run alone before being reported (expected overhead 0.3-2 s; the guard to exclude is 30 s)',
    'threads=False scenarios use apply jobs only (map/imap need the task-handler thread)',
]
JOBS = 12
SPEC_TIMEOUT = 150
CONFIRM_ALONE = ('join_slow', 'join_hung')
FLOORS = {
    'quick': {'real:scenarios': 30, 'real:pending_at_close': 8, 'real:jobs_checked': 120,
              'real:post_close_refusals': 150, 'real:with_map': 10, 'real:with_imap': 10,
              'real:recycling': 5, 'real:failing_jobs': 6},
    'thorough': {'real:scenarios': 200, 'real:pending_at_close': 100, 'real:jobs_checked': 900},
}


def gen(rng):
    nproc = rng.choice([1, 2, 2, 3, 4])
    threads = rng.random() < 0.85
    p = {'nproc': nproc, 'maxtasks': rng.choice([None, None, None, 1, 3]),
         'threads': threads, 'T': 2.0,
         'pool_hard': 60 if rng.random() < 0.2 else None}
    jobs = []
    for j in range(rng.choice([0, 1, 3, 5, 8, 12])):
        kind = rng.choice(['apply', 'apply', 'map', 'imap', 'imap_u']) if threads else 'apply'
        job = {'kind': kind, 'tag': 'j%d' % j, 'dur': rng.choice([0.01, 0.05, 0.2, 0.6])}
        if kind != 'apply':
            job['n'] = rng.choice([1, 2, 5, 9, 12])
            job['dur'] = rng.choice([0.01, 0.05, 0.15])
            job['chunk'] = rng.choice([None, 1, 3]) if kind == 'map' else rng.choice([1, 1, 2])
            if rng.random() < 0.3:
                # one failing item: a map is resolved by it while its other
                # chunks are still queued or running
                job['fail_at'] = rng.choice([0, 0, rng.randrange(job['n'])])
        elif rng.random() < 0.15:
            job['raise'] = True
        jobs.append(job)
    p['jobs'] = jobs
    p['close_delay'] = rng.choice([0, 0.05, 0.3, 1.0, 3.0])
    return p


def directed(tier):
    """scenarios that need a specific shape"""
    out = []
    # a worker finishes its chunks and leaves on the close() sentinel while the
    # rest of a chunked map runs on for longer than the map's 10 s lost-worker
    # timeout: nothing may be reported lost, join() must not be held up
    # (the first chunk takes 1 s so that the other workers have started and
    # hold the long chunks by the time its worker is done and leaves)
    out.append({'nproc': 3, 'maxtasks': None, 'threads': True, 'T': 2.0, 'pool_hard': None,
                'close_delay': 0.3, 'jobs': [
                    {'kind': 'map', 'tag': 'dm', 'n': 6, 'chunk': 2, 'dur': 0.05,
                     'durs': [0.5, 0.5, 6.5, 6.5, 6.5, 6.5]}]})
    # slow result callbacks hold the result handler up while workers leave:
    # their DEATH notices are read after they were reaped
    out.append({'nproc': 2, 'maxtasks': None, 'threads': True, 'T': 2.0, 'pool_hard': None,
                'close_delay': 0, 'jobs': [{'kind': 'apply', 'tag': 'long', 'dur': 7.0}] + [
                    {'kind': 'apply', 'tag': 'sc%d' % i, 'dur': 0.05, 'cb_sleep': 1.3}
                    for i in range(3)]})
    # a map that failed on its first chunk: the results of its other chunks
    # arrive for a job the pool no longer knows; their workers must still be
    # able to leave at once when close() comes later
    out.append({'nproc': 2, 'maxtasks': None, 'threads': True, 'T': 2.0, 'pool_hard': None,
                'close_delay': 3.0, 'jobs': [
                    {'kind': 'map', 'tag': 'fm', 'n': 8, 'chunk': 1, 'dur': 0.05, 'fail_at': 0},
                    {'kind': 'apply', 'tag': 'a0', 'dur': 0.05}]})
    out.append({'nproc': 3, 'maxtasks': None, 'threads': True, 'T': 2.0, 'pool_hard': None,
                'close_delay': 3.0, 'jobs': [
                    {'kind': 'map', 'tag': 'fm', 'n': 9, 'chunk': 3, 'dur': 0.05, 'fail_at': 4},
                    {'kind': 'imap_u', 'tag': 'iu', 'n': 5, 'chunk': 1, 'dur': 0.05, 'fail_at': 1}]})
    # a replacement worker (started after the pool was built) has done work
    # and everything is finished when close() comes: it must leave at once
    out.append({'nproc': 1, 'maxtasks': 2, 'threads': True, 'T': 2.0, 'pool_hard': None,
                'close_delay': 6.0, 'jobs': [{'kind': 'apply', 'tag': 'r%d' % i, 'dur': 0.05}
                                             for i in range(3)]})
    out.append({'nproc': 2, 'maxtasks': 3, 'threads': True, 'T': 2.0, 'pool_hard': None,
                'close_delay': 6.0, 'jobs': [{'kind': 'apply', 'tag': 'r%d' % i, 'dur': 0.05}
                                             for i in range(8)]})
    # close() lands while the supervisor is starting several workers
    for nproc, grow in ((1, 2), (2, 3)):
        out.append({'nproc': nproc, 'maxtasks': None, 'threads': True, 'T': 2.0, 'pool_hard': None,
                    'close_delay': 0.1, 'grow_mid_close': grow, 'jobs': [
                        {'kind': 'apply', 'tag': 'g%d' % i, 'dur': 0.3} for i in range(4)] + [
                        {'kind': 'map', 'tag': 'gm', 'n': 4, 'chunk': 1, 'dur': 0.2},
                        {'kind': 'imap', 'tag': 'gi', 'n': 3, 'chunk': 1, 'dur': 0.2}]})
    # producers blocked on the put-lock when close() comes: their offers are
    # either refused or carried out - never accepted and then forgotten
    for nproc, k in ((2, 1), (1, 3)):
        out.append({'nproc': nproc, 'maxtasks': None, 'threads': True, 'T': 2.0, 'pool_hard': None,
                    'putlocks': True, 'blocked_producers': k, 'close_delay': 0.1,
                    'jobs': [{'kind': 'apply', 'tag': 'pl%d' % i, 'dur': 1.0} for i in range(nproc)]})
    if tier != 'quick':
        out.append({'nproc': 3, 'maxtasks': None, 'threads': True, 'T': 2.0, 'pool_hard': 60,
                    'close_delay': 0.1, 'jobs': [
                        {'kind': 'map', 'tag': 'dm', 'n': 9, 'chunk': 3, 'dur': 0.05,
                         'durs': [0.05] * 6 + [4.5, 4.5, 4.5]},
                        {'kind': 'apply', 'tag': 'sc0', 'dur': 0.05, 'cb_sleep': 1.5},
                        {'kind': 'apply', 'tag': 'sc1', 'dur': 0.05, 'cb_sleep': 1.5}]})
    return out


def plan(tier, seed):
    n = 38 if tier == 'quick' else 260
    specs = [{'lane': 'real', 'seed': seed * 10000 + i, 'timeout': 100} for i in range(n)]
    specs += [{'lane': 'real', 'seed': seed * 10000 + 9000 + k, 'timeout': 130, 'directed': p}
              for k, p in enumerate(directed(tier))]
    return specs


def work_estimate(p):
    tot, mx, ntasks = 0.0, 0.0, 0
    for j in p['jobs']:
        n = j.get('n', 1)
        durs = j.get('durs') or [j['dur']] * n
        tot += sum(durs) + j.get('cb_sleep', 0) * p['nproc']   # callbacks run serially in one thread
        mx = max(mx, max(durs) * (j.get('chunk') or 1 if j.get('durs') else 1))
        ntasks += n
    est = tot / p['nproc'] + mx
    if p.get('maxtasks'):
        est += 2.0 * (ntasks / float(p['nproc'] * p['maxtasks']) + 1)
    return est, ntasks


def expected(job):
    tag = job['tag']
    if job['kind'] == 'apply':
        return ['exc', 'TaskError'] if job.get('raise') else ['ok', ['v', tag]]
    vals = [['v', '%s.%d' % (tag, i)] for i in range(job['n'])]
    fail = job.get('fail_at')
    if job['kind'] == 'map':
        return ['ok', vals] if fail is None else ['exc', 'TaskError']
    if fail is not None:
        # (the reader stops at the first failing item; with chunks a failing
        # item fails its whole chunk - DESIGN 3, C02 note N)
        c = job.get('chunk') or 1
        return ['items', [['ok', v] for v in vals[:(fail // c) * c]] + [['exc', 'TaskError']]]
    return ['items', [['ok', v] for v in vals]]


def same_result(job, got, want):
    if want[0] == 'exc':
        return got[:2] == want
    if got[0] == 'items' and job.get('fail_at') is not None and got[1]:
        # billiard's imap iterators raise Exception(<remote traceback>) for a
        # failing item: any failure but a timeout of the reader counts
        last = got[1][-1]
        if last[0] == 'exc' and last[1] not in ('TimeoutError', 'StopIteration'):
            got = ['items', got[1][:-1] + [['exc', 'TaskError']]]
    if job['kind'] == 'imap_u' and got[0] == 'items':
        if job.get('fail_at') is not None:
            # any subset of the good items, in any order, then the failure
            c = job.get('chunk') or 1
            good = {repr(['ok', ['v', '%s.%d' % (job['tag'], i)]]) for i in range(job['n'])
                    if i // c != job['fail_at'] // c}
            return bool(got[1]) and got[1][-1] == ['exc', 'TaskError'] and \
                all(repr(x) in good for x in got[1][:-1]) and \
                len({repr(x) for x in got[1][:-1]}) == len(got[1]) - 1
        return sorted(map(repr, got[1])) == sorted(map(repr, want[1]))
    return got == want


def run_spec(spec, rec):
    rng = rng_for(spec['seed'], 'c07')
    p = spec.get('directed') or gen(rng)
    est, ntasks = work_estimate(p)
    r = real.run_scenario('vmon.real_pool', 'sc_close_join', p, timeout=est + 45)
    obs, ev = r['obs'], r['events']
    attrs = {'lane': 'real', 'recycling': bool(p['maxtasks']), 'threads': p['threads'],
             'kinds': sorted({j['kind'] for j in p['jobs']})}
    if r['status'] == 'scenario_error':
        raise RuntimeError('scenario error: ' + obs.get('scenario_exception', r['stderr'][-2000:]))
    rec.case()
    rec.count('real:scenarios')
    # was work pending when close() was called?
    t_close = next((e['t'] for e in ev if e['k'] == 'close_call'), None)
    ends = [e for e in ev if e['k'] == 'task_end']
    pending = t_close is not None and sum(1 for e in ends if e['t'] <= t_close) < ntasks
    if pending:
        rec.count('real:pending_at_close')
    attrs['pending_at_close'] = bool(pending)
    # a map resolved by a failing chunk while other chunks of it were still
    # queued or running when close() was called
    fmp = False
    for j in p['jobs']:
        if j['kind'] == 'map' and j.get('fail_at') is not None and t_close is not None:
            done = sum(1 for e in ends if e['t'] <= t_close
                       and str(e.get('tag', '')).startswith(j['tag'] + '.'))
            fmp = fmp or done < j['n']
    attrs['failed_map_pending_at_close'] = fmp
    if fmp:
        rec.count('real:failed_map_pending_at_close')
    if p['maxtasks']:
        rec.count('real:recycling')
    if r['status'] == 'hang':
        rec.violation('join_hung', attrs, params=p, obs=obs, stacks=r['stderr'][-5000:],
                      events_tail=ev[-15:])
        return
    if r['status'] == 'died':
        rec.violation('host_process_died', attrs, params=p, rc=r['rc'], stderr=r['stderr'][-3000:])
        return
    # 1. every pre-close job resolved with its real result
    for job, got in obs['results']:
        rec.count('real:jobs_checked')
        rec.count('real:with_' + ('imap' if job['kind'].startswith('imap') else job['kind']))
        want = expected(job)
        if job.get('fail_at') is not None or job.get('raise'):
            rec.count('real:failing_jobs')
        if not same_result(job, got, want):
            rec.violation('result_missing_or_wrong_after_join',
                          dict(attrs, job_kind=job['kind']), job=job, got=got, want=want,
                          params=p)
    # 2. join() did not wait out the consumption guard
    if obs['join_wall'] > est + 12.0:
        rec.violation('join_slow', attrs, join_wall=obs['join_wall'], work_estimate=est,
                      worst_stall=obs.get('worst_stall'), params=p)
    for tag, how, got in obs.get('producers', []):
        rec.count('real:producers_waiting_at_close')
        if how == 'still_blocked':
            rec.violation('producer_still_blocked_after_close', attrs, tag=tag, params=p)
        elif how == 'handle' and got != ['ok', ['v', tag]]:
            rec.violation('job_accepted_at_close_never_resolved', attrs, tag=tag, got=got, params=p)
    if p.get('grow_mid_close'):
        rec.count('real:close_during_repopulation' if obs.get('mid_reached')
                  else 'real:close_during_repopulation_not_reached')
    rec.maxi('max:join_overhead_ms', int(1000 * max(0.0, obs['join_wall'] - est)))
    # 3. nothing left behind
    if obs['workers_after_join']:
        rec.violation('worker_process_left_after_join', attrs, left=obs['workers_after_join'],
                      params=p)
    allowed = {'TimeoutHandler'} if p['pool_hard'] else set()
    extra = [t for t in obs['threads_after_join'] if t not in allowed]
    if extra:
        rec.violation('pool_thread_left_after_join', attrs, threads=obs['threads_after_join'],
                      params=p)
    if obs.get('threads_after_terminate'):
        rec.violation('pool_thread_left_after_terminate', attrs,
                      threads=obs['threads_after_terminate'])
    # 4. offers after close() are not accepted and never run
    for x in obs['post_close_handles']:
        rec.count('real:post_close_refusals')
        if x is not None:
            rec.violation('job_accepted_after_close', attrs, handle=x)
    ran = [e for e in ev if e['k'] == 'task_start' and str(e.get('tag', '')).startswith('postclose')]
    if ran:
        rec.violation('job_executed_after_close', attrs, events=ran[:3])
    if pending:
        rec.sig([p['nproc'], p['maxtasks'], p['threads'], bool(p['pool_hard']),
                 attrs['kinds'], p['close_delay']])
    rec.sample({'params': p, 'join_wall': round(obs['join_wall'], 2), 'work_estimate': round(est, 2),
                'pending_at_close': bool(pending)})
