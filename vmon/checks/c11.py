"""C11 - worker restarts are rate limited and the budget is restored.
Lane L0: the real restart_state against an executable model of the statement
(windowed counter) under seeded (time gap, job-accepted) sequences.  Lane SIM:
pools with explicit budgets - abnormal / clean / recycle exits with virtual
gaps, job acceptances anywhere; RestartFreqExceeded out of the supervision
pass and the number of workers forked compared with the model.  Lane REAL
(vmon.real_c11): start-up burst limit with an initializer that exits."""
from vmon import simcheck, l0_small

PROPERTY = 'C11'
LEVEL = 'exploration'
TECHNIQUE = 'runtime monitoring: reference-model comparison (windowed counter derived from the statement) of the real limiter and of real supervision passes under virtual time'
RULE = ('L0: one case = one seeded sequence of restarts/acceptances with time gaps (on a grid that hits the window edge exactly, or '
        'random); SIM: one case = one seeded pool history with explicit max_restarts/max_restart_freq; non-trivial = the limiter raised '
        'at least once AND the count was restored at least once (window expiry or acceptance)')
ASSUMPTIONS = ['`now` is a positive monotonic reading; what follows a raise is unspecified, the model resynchronises there',
               'a window that is exactly max_restart_freq old counts as expired']
JOBS = 14
SPEC_TIMEOUT = 900
CONFIRM_ALONE = ('pool_hung_at_startup_burst', 'restart_limiter_never_reacted')
FLOORS = {
    'quick': {'l0:limiter_steps': 100000, 'l0:limiter_raises': 3000, 'sim:limiter_raise_confirmed': 60,
              'sim:restarts_admitted': 1000, 'sim:supervise_with_exits': 1200},
    'thorough': {'l0:limiter_steps': 1000000, 'sim:limiter_raise_confirmed': 600},
}


def nontrivial(sim):
    return bool(sim.stats.get('limiter_raise_confirmed')) and \
        bool(sim.stats.get('ack_processed'))


def plan(tier, seed):
    q = tier == 'quick'
    specs = [{'lane': 'l0', 'seed': seed * 1000 + i, 'cases': 1500 if q else 10000}
             for i in range(6 if q else 12)]
    per, hist = (6, 80) if q else (14, 300)
    specs += simcheck.sim_specs(['c11'], seed, per, hist, base=110000)
    try:
        from vmon import real_c11
        specs += real_c11.plan(tier, seed)
    except ImportError:
        pass
    return specs


def run_spec(spec, rec):
    if spec['lane'] == 'sim':
        return simcheck.run_sim_spec(spec, rec, PROPERTY, nontrivial)
    if spec['lane'] == 'l0':
        return l0_small.c11_sequences(spec, rec)
    from vmon import real_c11
    return real_c11.run_spec(spec, rec)
