"""C04 - a worker dying mid-task yields WorkerLostError for exactly its job.
Lane SIM: exact ordering/timing of death notice vs pending ACK/READY messages
in virtual time (grace period, first-detection, message names the status, no
loss without a lost owner, every handle kind).  Lane REAL (vmon.real_c04):
fault matrix of signals / exit statuses x crash points x job kinds on real
pools.  Death causes include signals without a symbolic name (real-time signals); imap / imap_unordered with chunks (SIM and REAL): the grace period is the one the caller asked for; an imap consumer gets the other parts' values and exactly one failure per lost part (ordered: at that part's position) and the iterator ends."""
from vmon import simcheck

PROPERTY = 'C04'
LEVEL = 'fault_enumeration'
TECHNIQUE = 'runtime monitoring: fault matrix (signal/exit status x crash point x job kind) on real pools + seeded virtual-time schedules of death notice vs pending messages, oracle = loss provenance/timing model'
RULE = ('SIM: one case = one seeded history (see C01) from the death-heavy profiles; signature = (profile, pool size, quota?, '
        'bucketed event counts); non-trivial = at least one worker died while owning an accepted, unfinished job part. '
        'REAL: one case = one (death cause, crash point, job kind, pool size, concurrency) cell')
ASSUMPTIONS = [
    'SIM worker scripts die only idle or after ACK (property precondition)',
    'REAL lower bounds on time are exact; upper bounds use generous thresholds and are re-run alone before being reported',
]
JOBS = 14
SPEC_TIMEOUT = 900
CONFIRM_ALONE = ('loss_reported_late', 'loss_never_reported', 'worker_not_replaced',
                 'later_job_not_served', 'pool_hung_after_worker_death', 'other_job_failed',
                 'pool_hung_while_recycling', 'join_hung_after_worker_death')
FLOORS = {
    'quick': {'sim:loss_marks': 300, 'sim:exit:crash': 1500, 'sim:exit:recycle': 100,
              'sim:supervise_with_exits': 800, 'sim:submit_map': 100, 'sim:submit_imap': 50,
              'real:death_scenarios': 15, 'real:losses_reported': 12, 'real:other_jobs': 8,
              'real:recycle_scenarios': 2, 'real:death_after_close_scenarios': 2},
    'thorough': {'sim:loss_marks': 3000, 'sim:exit:crash': 15000},
}


def nontrivial(sim):
    return bool(sim.stats.get('loss_marks'))


def plan(tier, seed):
    per, hist = (3, 70) if tier == 'quick' else (14, 450)
    specs = simcheck.sim_specs(['c04', 'c04', 'c09', 'c11'], seed, per, hist, base=40000)
    try:
        from vmon import real_c04
        specs += real_c04.plan(tier, seed)
    except ImportError:
        pass
    return specs


def run_spec(spec, rec):
    if spec.get('lane') == 'sim':
        return simcheck.run_sim_spec(spec, rec, PROPERTY, nontrivial)
    from vmon import real_c04
    return real_c04.run_spec(spec, rec)
