"""C19 - process exit status and liveness are reported faithfully.

Lane L0, child matrix.  Real billiard Process objects (fork / spawn /
forkserver; context API, default-context API and run()-overriding subclasses)
are started on a child that announces itself on a FIFO and then blocks on a
second FIFO only the harness can write to - so "the child is alive" is known,
not guessed - and afterwards leaves through one enumerated exit path: return,
raise (17 exception shapes), sys.exit(n), a fatal signal delivered by itself
or by the harness (SIG_DFL restored first), os.abort(), or a kill before the
target is even reached.  The parent polls before the child is up, while it is
held, around the exit (five poll/join patterns) and after it.

Oracles: the table from the statement for the exit code; (None, True) for
every exitcode/is_alive observation made while the child is provably alive;
monotone observation sequences (dead never turns alive again, the code never
changes); join(t) measured against t; after a join that saw the exit the
process must be gone from active_children() *and* from the internal
`_children` set; /proc tells when the child has provably ended (zombie or
gone) before the first probe; start() a second time, or from another process
(os.fork and a billiard child receiving the object), must be refused.  sys.exit(n) also with n an IntEnum member, an instance of an int subclass, a bool."""
import os
import select
import signal
import sys
import threading
import time
import traceback

from vmon.core import rng_for

PROPERTY = 'C19'
LEVEL = 'fault_enumeration'
TECHNIQUE = ('child exit-path matrix on real Process objects with a harness-held '
             'release pipe; table oracle + liveness/monotonicity invariants')
RULE = ('cases enumerate (start method x API x exit path) with a seeded choice of '
        'probes while the child is held alive, release delay, poll/join pattern '
        'around the exit and join timeouts; the signature of a case is (method, api, '
        'exit path, sub-path (signal name / exception / exit-status bucket), pattern, '
        'join-timeout bucket, whether polls straddled the exit); '
        'a case is non-trivial when the child was observed alive at least once, '
        'its exit was observed and the post-join checks ran')
ASSUMPTIONS = [
    '"small integer" for sys.exit(n) is read as 0..255 (what a wait status can carry)',
    '"killed by signal s" presupposes that s kills: the child restores SIG_DFL (and unblocks s) first',
    'under forkserver any non-zero int is accepted for a signal death (255 observed)',
    '/proc/<pid>/stat state Z or a vanished pid is trusted as proof that the child has ended',
    'a short early return of join(t) on a live child is an anomaly; a long timed join that returns with neither exit status nor timeout while the child has ended counts as a "successful join" that left an active child (violation)',
    'thread interleavings of concurrent pollers are sampled, not enumerated',
]
FLOORS = {
    'quick': {'children_started': 80, 'alive_probes': 1500, 'probes_before_ready': 300,
              'join_timed_out_on_live_child': 60, 'exit_observed': 70,
              'exitcode_matches_table': 70, 'signal_deaths': 25,
              'sysexit_codes': 14, 'exception_exits': 8,
              'proc_confirmed_ended_before_probe': 8, 'polls_straddled_exit': 8,
              'second_start_refused': 30, 'foreign_start_refused': 8,
              'post_join_checks': 70, 'internal_children_set_checked': 70,
              'method:fork': 25, 'method:spawn': 25, 'method:forkserver': 25,
              'mt_cases': 6},
    'thorough': {'children_started': 600, 'alive_probes': 10000,
                 'join_timed_out_on_live_child': 400, 'exit_observed': 500,
                 'signal_deaths': 80, 'sysexit_codes': 300,
                 'exception_exits': 16, 'proc_confirmed_ended_before_probe': 50,
                 'polls_straddled_exit': 50, 'second_start_refused': 200,
                 'foreign_start_refused': 30, 'post_join_checks': 500,
                 'method:fork': 150, 'method:spawn': 150, 'method:forkserver': 150,
                 'mt_cases': 24},
}
JOBS = 14
SPEC_TIMEOUT = 900
# wall-clock upper bounds: re-run alone before believing them
CONFIRM_ALONE = ('join_overran_timeout',)

SLACK = 10.0         # join(t) returning later than t + SLACK is an overrun
HOLD_GUARD = 30.0   # a call on a held child not back after t + this: child is killed
EXIT_GUARD = 180.0   # a released child must have ended / a join must be back by then

METHODS = ['fork', 'spawn', 'forkserver']
SIGS_DESIGN = ['SIGHUP', 'SIGINT', 'SIGQUIT', 'SIGILL', 'SIGABRT', 'SIGBUS',
               'SIGFPE', 'SIGKILL', 'SIGUSR1', 'SIGSEGV', 'SIGUSR2', 'SIGPIPE',
               'SIGALRM', 'SIGTERM', 'SIGXCPU', 'SIGXFSZ', 'SIGVTALRM',
               'SIGPROF', 'SIGSYS']
SIGS_EXTRA = ['SIGTRAP', 'SIGSTKFLT', 'SIGIO', 'SIGPWR', 'SIGRTMIN', 'SIGRTMIN+5',
              'SIGRTMAX']
EXCS = ['ValueError', 'KeyError', 'ZeroDivisionError', 'CustomError', 'BadStrError',
        'BaseException', 'QuietBase', 'KeyboardInterrupt', 'GeneratorExit',
        'AssertionError', 'OSError', 'MemoryError', 'StopIteration',
        'RecursionError', 'ExceptionGroup', 'chained']
PATTERNS = ['join_none', 'join_long', 'spin', 'join_loop', 'proc_then_probe']


def signum(name):
    if '+' in name:
        base, off = name.split('+')
        return int(getattr(signal, base)) + int(off)
    return int(getattr(signal, name))


# --------------------------------------------------------------------------
# plan
# --------------------------------------------------------------------------

def _cases_for(tier, method, rng):
    quick = tier == 'quick'
    cases = [['return', None], ['return', 5], ['return', 'x']]
    if quick:
        must = ['ValueError', 'KeyboardInterrupt', 'BaseException', 'BadStrError']
        rest = [e for e in EXCS if e not in must]
        for e in must + rng.sample(rest, 4):
            cases.append(['raise', e])
    else:
        for e in EXCS:
            cases.append(['raise', e])
    flav = ['call', 'raise', 'nested']
    if quick:
        ns = [0, 1, 2, 127, 128, 255] + rng.sample(range(3, 127), 3) + \
            rng.sample(range(129, 255), 3)
    else:
        ns = list(range(256)) + [0, 1, 127, 128, 255, 0, 1, 127, 128, 255]
    for i, n in enumerate(ns):
        cases.append(['sysexit', [flav[(i + rng.randrange(3)) % 3], n]])
    # sys.exit(n) with n an instance of a subclass of int (IntEnum member, bool, ...)
    for fl, n in [('intenum', 0), ('intenum', 3), ('intsub', 2), ('bool', 1), ('bool', 0)] + \
            ([] if quick else [('intenum', 255), ('intsub', 0), ('intsub', 128), ('intenum', 1)]):
        cases.append(['sysexit', [fl, n]])
    allsigs = SIGS_DESIGN + SIGS_EXTRA
    if quick:
        for s in SIGS_DESIGN + rng.sample(SIGS_EXTRA, 1):
            cases.append(['selfsig', s])
        must = ['SIGKILL', 'SIGTERM', 'SIGINT', 'SIGPIPE']
        rest = [s for s in allsigs if s not in must]
        for s in must + rng.sample(rest, 4):
            cases.append(['extsig', s])
        cases.append(['abort', None])
        early = [['kill', 'SIGKILL'], ['kill', 'SIGTERM'], ['terminate', 'SIGTERM'],
                 ['terminate', 'SIGTERM']]
    else:
        for s in allsigs:
            cases.append(['selfsig', s])
            cases.append(['extsig', s])
        for s in rng.sample(allsigs, 8):
            cases.append([rng.choice(['selfsig', 'extsig']), s])
        cases += [['abort', None]] * 3
        early = [['kill', 'SIGKILL'], ['kill', 'SIGTERM'],
                 ['terminate', 'SIGTERM']] * 6
    for how, s in early:
        cases.append(['earlykill', [how, s, rng.choice([0, 0, 0.001, 0.005, 0.02, 0.05])]])
    rng.shuffle(cases)
    return cases


def plan(tier, seed):
    specs = []
    per = 8 if tier == 'quick' else 20
    apis = ['ctx', 'default', 'subclass']
    k = 0
    for method in METHODS:
        rng = rng_for(seed, 'plan', method)
        cases = _cases_for(tier, method, rng)
        for i in range(0, len(cases), per):
            specs.append({'mode': 'matrix', 'method': method, 'api': apis[k % 3],
                          'storm': (k % 4 == 1), 'seed': seed * 100000 + k,
                          # parent and child on one CPU: the parent tends to run in the
                          # window between the child closing its descriptors and
                          # becoming reapable
                          'pin': (k % 3 == 2),
                          'cases': cases[i:i + per]})
            k += 1
    for method in METHODS:
        n = 2 if tier == 'quick' else 4
        for j in range(n):
            specs.append({'mode': 'foreign', 'method': method, 'api': apis[j % 2],
                          'seed': seed * 100000 + 5000 + k,
                          'rounds': 1 if tier == 'quick' else 2})
            k += 1
            specs.append({'mode': 'mt', 'method': method, 'api': 'ctx',
                          'seed': seed * 100000 + 6000 + k,
                          'rounds': 3 if tier == 'quick' else 6})
            k += 1
    # a billiard child that is a parent itself (every pair of start methods),
    # and an interrupt from the terminal reaching a child
    pairs = [(o, i) for o in METHODS for i in ('fork', 'spawn')]
    if tier == 'quick':
        pairs = [pq for pq in pairs if pq[0] != pq[1] or pq[0] == 'fork']
    for o, i in pairs:
        specs.append({'mode': 'nested', 'method': o, 'inner': i, 'api': 'ctx',
                      'seed': seed * 100000 + 7000 + k})
        k += 1
    # longest specs first
    order = {'foreign': 0, 'mt': 1, 'matrix': 2, 'nested': 3}
    specs.sort(key=lambda s: (order[s['mode']], 0 if s['method'] == 'spawn' else 1))
    return specs


# --------------------------------------------------------------------------
# helpers
# --------------------------------------------------------------------------

class CaseAbort(Exception):
    """the case cannot continue (a violation was already recorded)"""


class CaseRetry(Exception):
    """a guard fired for the first time: run the case once more before
    believing it"""


class HarnessError(Exception):
    pass


def proc_state(pid):
    """one-letter state from /proc, None when the pid is gone"""
    try:
        with open('/proc/%d/stat' % pid) as f:
            s = f.read()
        return s[s.rindex(')') + 2]
    except (OSError, ValueError, IndexError):
        return None


def has_ended(pid):
    return proc_state(pid) in (None, 'Z', 'X')


def is_code(x):
    return isinstance(x, int) and not isinstance(x, bool)


def code_ok(method, kind, arg, code):
    if not is_code(code):
        return False
    if kind == 'return':
        return code == 0
    if kind == 'raise':
        return code == 1
    if kind == 'sysexit':
        return code == arg[1]
    s = sig_of(kind, arg)
    if method == 'forkserver':
        return code != 0
    return code == -s


def sig_of(kind, arg):
    if kind in ('selfsig', 'extsig'):
        return signum(arg)
    if kind == 'abort':
        return int(signal.SIGABRT)
    if kind == 'earlykill':
        return signum(arg[1])
    return None


def expected_text(method, kind, arg):
    if kind == 'return':
        return '0'
    if kind == 'raise':
        return '1'
    if kind == 'sysexit':
        return str(arg[1])
    s = sig_of(kind, arg)
    return 'non-zero' if method == 'forkserver' else str(-s)


def sub_of(kind, arg):
    if kind == 'return':
        return type(arg).__name__
    if kind == 'raise':
        return arg
    if kind == 'sysexit':
        n = arg[1]
        b = ('0' if n == 0 else '1' if n == 1 else '2-126' if n < 127 else
             '127' if n == 127 else '128' if n == 128 else
             '255' if n == 255 else '129-254')
        return arg[0] + ':' + b
    if kind == 'earlykill':
        return arg[0] + ':' + arg[1]
    return arg


class Watchdog(threading.Thread):
    """kills the current child when a guarded call does not come back, so the
    harness itself never hangs on a broken tree"""

    def __init__(self, env):
        threading.Thread.__init__(self, daemon=True, name='c19-watchdog')
        self.env = env
        self.lock = threading.Lock()
        self.deadline = None
        self.mode = self.pid = self.label = None
        self.fired = None
        self.max_gap = 0.0

    def take_gap(self):
        """worst scheduling stall of this (heartbeat) thread since the last call"""
        g, self.max_gap = self.max_gap, 0.0
        return g

    def arm(self, limit, mode, pid, label):
        with self.lock:
            self.deadline = time.monotonic() + limit
            self.mode, self.pid, self.label = mode, pid, label
            self.fired = None

    def disarm(self):
        with self.lock:
            self.deadline = None
            f, self.fired = self.fired, None
            return f

    def run(self):
        last = time.monotonic()
        while True:
            time.sleep(0.05)
            now = time.monotonic()
            self.max_gap = max(self.max_gap, now - last - 0.05)
            last = now
            with self.lock:
                if self.deadline is None or time.monotonic() < self.deadline:
                    continue
                self.deadline = None
                mode, pid, label = self.mode, self.pid, self.label
                if mode == 'exit' and has_ended(pid):
                    # child is gone, the call is still not back
                    self.env.blocked_after_end(label, pid)
                self.fired = (mode, label)
                _kill(pid, signal.SIGKILL)


def _kill(pid, sig):
    try:
        os.kill(pid, sig)
        return True
    except (ProcessLookupError, PermissionError):
        return False


class Env:
    def __init__(self, spec, rec):
        import billiard
        from billiard import process as bprocess
        from vmon import c19_helpers as H
        # popen_fork.wait() imports billiard.connection on its first call; under
        # load that import takes seconds and would be billed to the first join(t)
        import billiard.connection  # noqa
        self.spec, self.rec = spec, rec
        if spec.get('pin') and hasattr(os, 'sched_setaffinity'):
            try:
                cpus = sorted(os.sched_getaffinity(0))
                os.sched_setaffinity(0, {cpus[spec['seed'] % len(cpus)]})
                rec.count('pinned_specs')
            except OSError:
                pass
        self.method, self.api = spec['method'], spec.get('api', 'ctx')
        self.seed = spec['seed']
        self.H = H
        self.billiard = billiard
        self.bprocess = bprocess
        self.wd = os.environ.get('VERIF_WORKDIR') or '/tmp'
        self.ctx = billiard.get_context(self.method)
        if self.api == 'default':
            billiard.set_start_method(self.method, force=True)
            self.Process = billiard.Process
        elif self.api == 'subclass':
            self.Process = H.RUNNERS[self.method]
        else:
            self.Process = self.ctx.Process
        self.active_children = (billiard.active_children if self.api == 'default'
                                else self.ctx.active_children)
        try:
            import resource
            hard = resource.getrlimit(resource.RLIMIT_CORE)[1]
            resource.setrlimit(resource.RLIMIT_CORE, (0, hard))
        except Exception:
            pass
        self.wd_thread = Watchdog(self)
        self.wd_thread.start()
        self.blocked_once = {}
        self.disabled = set()
        self.case_no = 0
        self.storm_hits = [0]
        self.t0 = time.monotonic()
        self.current = None

    # storm of signals hitting the parent while it waits / polls
    def storm_on(self):
        def h(signo, frame):
            self.storm_hits[0] += 1
        signal.signal(signal.SIGALRM, h)
        signal.setitimer(signal.ITIMER_REAL, 0.004, 0.004)

    def storm_off(self):
        signal.setitimer(signal.ITIMER_REAL, 0, 0)
        signal.signal(signal.SIGALRM, signal.SIG_DFL)
        self.rec.count('signals_taken_by_parent_during_cases', self.storm_hits[0])

    def children_set(self):
        """the internal set of started, not yet joined children"""
        try:
            return self.bprocess._children
        except AttributeError:
            self.rec.missing('process._children')
            return None

    def blocked_after_end(self, label, pid):
        # called from the watchdog with the main thread stuck in a billiard
        # call although the child has ended: record, checkpoint, leave
        c = self.current
        attrs = {'method': self.method, 'path': c.kind if c else '?',
                 'phase': 'after_exit'}
        stack = ''
        try:
            fr = sys._current_frames().get(threading.main_thread().ident)
            stack = ''.join(traceback.format_stack(fr)[-8:])
        except Exception:
            pass
        self.rec.violation('call_blocked_after_child_ended', attrs, call=label,
                           waited_s=EXIT_GUARD, child_state=proc_state(pid),
                           history=c.hist[-40:] if c else None, stack=stack)
        try:
            self.rec.flush()
        finally:
            os._exit(0)


class Case:
    def __init__(self, env, idx, kind, arg, attempt=0):
        self.env, self.idx, self.kind, self.arg = env, idx, kind, arg
        self.rec = env.rec
        self.method = env.method
        self.rng = rng_for(env.seed, 'case', idx)
        self.hist = []
        self.t0 = time.monotonic()
        self.p = None
        self.pid = None
        self.pids = []
        self.fds = []
        self.paths = []
        self.pattern = None
        self.held_ops = []
        self.tb = None
        self.straddled = False
        self.saw_alive = 0
        self.joined_ok = False

    # -- bookkeeping ---------------------------------------------------------
    def log(self, ev, val=None):
        if len(self.hist) < 400:
            self.hist.append([round((time.monotonic() - self.t0) * 1000, 2), ev, val])

    def attrs(self, phase):
        return {'method': self.method, 'path': self.kind, 'phase': phase}

    def v(self, vkind, phase, **detail):
        self.rec.violation(vkind, self.attrs(phase), api=self.env.api,
                           path_arg=self.arg, pattern=self.pattern,
                           expected=expected_text(self.method, self.kind, self.arg),
                           history=self.hist[-60:], **detail)

    def call(self, name, fn, phase):
        """a call into billiard that must not raise"""
        try:
            r = fn()
        except (CaseAbort, CaseRetry, HarnessError):
            raise
        except BaseException as exc:
            self.log(name + '!raised', repr(exc))
            self.v('call_raised', phase, call=name, exc=repr(exc),
                   tb=traceback.format_exc()[-1500:])
            raise CaseAbort()
        self.log(name, r if (r is None or isinstance(r, (int, bool))) else repr(r)[:60])
        return r

    # -- set-up --------------------------------------------------------------
    def make(self, delay):
        env = self.env
        env.case_no += 1
        base = os.path.join(env.wd, 'c%d_%d' % (os.getpid(), env.case_no))
        # every third return / sys.exit / raise child leaves with a stdout whose
        # final flush fails (name suffix 'F' tells the child): the reported exit
        # code must not depend on it
        # (not under spawn: there the interpreter's own finalisation flushes
        # stdout once more and CPython itself turns the failure into status 120)
        fault = env.case_no % 3 == 0 and self.kind in ('return', 'sysexit', 'raise') \
            and env.method in ('fork', 'forkserver')
        if fault:
            env.rec.count('stdout_flush_faults')
        self.ready_path, self.release_path = base + '.ready', base + ('.relF' if fault else '.release')
        for x in (self.ready_path, self.release_path):
            os.mkfifo(x)
            self.paths.append(x)
        self.rfd = os.open(self.ready_path, os.O_RDONLY | os.O_NONBLOCK)
        self.wfd = os.open(self.release_path, os.O_RDWR)
        self.fds += [self.rfd, self.wfd]
        kind, arg = self.kind, self.arg
        if kind in ('selfsig', 'extsig'):
            carg = signum(arg)
        elif kind == 'sysexit':
            carg = tuple(arg)
        elif kind == 'earlykill':
            kind, carg = 'return', None
        else:
            carg = arg
        args = (kind, carg, self.ready_path, self.release_path, delay)
        if env.api == 'subclass':
            self.p = env.Process(args=args)
        else:
            self.p = env.Process(target=env.H.child, args=args)
        return self.p

    def start(self):
        p = self.p
        e = self.call('exitcode', lambda: p.exitcode, 'before_start')
        if e is not None:
            self.v('exitcode_set_before_start', 'before_start', exitcode=e)
        self.call('start', p.start, 'start')
        self.pid = p.pid
        if not isinstance(self.pid, int) or self.pid <= 0:
            self.v('no_pid_after_start', 'start', pid=repr(self.pid))
            raise CaseAbort()
        self.pids.append(self.pid)
        self.rec.count('children_started')
        self.rec.count('method:' + self.method)

    # -- observations while the child is alive --------------------------------
    def poll_alive(self, phase, n, pending=None):
        """n exitcode/is_alive observations; the child is alive"""
        p = self.p
        bad = []
        if 'poll' in self.env.disabled:
            return 0
        wd = self.env.wd_thread
        wd.arm(HOLD_GUARD, 'held', self.pid, 'poll')
        try:
            self._poll_alive(phase, n, bad)
        finally:
            fired = wd.disarm()
        if fired:
            self.guard_fired(fired, 'poll', phase, waited_s=HOLD_GUARD)
        if pending is not None:
            pending.extend(bad)
        else:
            for k, d in bad[:3]:
                self.v(k, phase, child_state=proc_state(self.pid), **d)
        return n

    def active_live(self, phase):
        """active_children() while the child is held alive (guarded: it polls)"""
        if 'active_children' in self.env.disabled or 'poll' in self.env.disabled:
            return None
        wd = self.env.wd_thread
        wd.arm(HOLD_GUARD, 'held', self.pid, 'active_children')
        try:
            lst = self.call('active_children', self.env.active_children, phase)
        finally:
            fired = wd.disarm()
        if fired:
            self.guard_fired(fired, 'active_children', phase, waited_s=HOLD_GUARD)
        return lst

    def _poll_alive(self, phase, n, bad):
        p = self.p
        for i in range(n):
            which = self.rng.randrange(3)
            if which != 1:
                e = self.call('exitcode', lambda: p.exitcode, phase)
                if e is not None:
                    bad.append(('exitcode_set_while_child_alive', {'exitcode': e}))
            if which != 0:
                a = self.call('is_alive', p.is_alive, phase)
                if a is not True:
                    bad.append(('not_alive_while_child_alive', {'is_alive': a}))

    def guard_fired(self, fired, name, phase, **detail):
        """the watchdog had to kill the held child to get a call back"""
        env = self.env
        self.log('guard_fired', name)
        if name not in env.blocked_once:
            env.blocked_once[name] = detail
            self.rec.anomaly('call_blocked_once', call=name, method=self.method, **detail)
            raise CaseRetry()
        a = self.attrs(phase)
        a['call'] = name
        self.rec.violation('call_blocked_on_live_child', a, api=env.api,
                           first=env.blocked_once[name], history=self.hist[-40:],
                           **detail)
        env.disabled.add(name)
        raise CaseAbort()

    def wait_ready(self):
        """poll while the child is coming up: everything seen before its 'R'
        arrives was seen while it was alive"""
        pending = []
        n = 0
        t_end = time.monotonic() + 120
        wd = self.env.wd_thread
        use_poll = 'poll' not in self.env.disabled
        it = 0
        while True:
            if use_poll:
                n += self.poll_alive('before_ready', 1, pending)
            it += 1
            r, _, _ = select.select([self.rfd], [], [], 0.0005 if it < 40 else 0.004)
            if r:
                b = os.read(self.rfd, 1)
                if b == b'R':
                    break
                raise HarnessError('child %d ended before reaching its target '
                                   '(state %r, exitcode %r)' % (
                                       self.pid, proc_state(self.pid),
                                       self.p._popen.poll()))
            if time.monotonic() > t_end:
                raise HarnessError('child %d never announced itself' % self.pid)
        self.log('ready')
        self.rec.count('probes_before_ready', n)
        self.rec.count('alive_probes', n)
        self.saw_alive += n
        for k, d in pending[:3]:
            self.v(k, 'before_ready', **d)

    def held_phase(self):
        env, rng, p, rec = self.env, self.rng, self.p, self.rec
        wd = env.wd_thread
        quick = env.spec.get('tier') != 'thorough'
        touts = [0, 0.0, -1, 0.001, 0.01, 0.05, 0.05, 0.05, 0.2, 0.2, 0.5] if quick else \
            [0, 0.0, -1, 0.001, 0.01, 0.05, 0.05, 0.2, 0.5, 0.5]
        ops = ['polls', 'active', 'join', 'internal']
        if rng.random() < 0.6:
            ops.append('join')
        if rng.random() < 0.45:
            ops.append('restart')
        if rng.random() < 0.2:
            ops.append('stopcont')
        rng.shuffle(ops)
        for op in ops:
            if op == 'polls' and 'poll' not in env.disabled:
                n = self.poll_alive('held', rng.choice([3, 10, 30]))
                rec.count('alive_probes', n)
                self.saw_alive += n
            elif op == 'active':
                lst = self.active_live('held')
                if lst is not None and p not in lst:
                    self.v('live_child_not_listed_active', 'held',
                           listed=len(lst))
                rec.count('active_children_checked_live')
            elif op == 'internal':
                s = env.children_set()
                if s is not None and p not in s:
                    self.v('live_child_not_in_children_set', 'held', size=len(s))
            elif op == 'join' and 'join' not in env.disabled:
                t = rng.choice(touts)
                self.join_live(t, 'held')
            elif op == 'restart':
                self.try_restart('held')
            elif op == 'stopcont':
                self.stopcont()
            self.held_ops.append(op)

    def join_live(self, t, phase):
        """join(t) on a child that cannot end: comes back after about t and
        changes nothing"""
        p, rec, wd = self.p, self.rec, self.env.wd_thread
        wd.arm(t + HOLD_GUARD, 'held', self.pid, 'join')
        wd.take_gap()
        t0 = time.monotonic()
        self.call('join(%r)' % t, lambda: p.join(t), phase)
        el = time.monotonic() - t0
        fired = wd.disarm()
        if fired:
            self.guard_fired(fired, 'join', phase, timeout=t, waited_s=round(el, 2))
        rec.count('join_timed_out_on_live_child')
        rec.maxi('max:join_overshoot_ms', int((el - max(t, 0)) * 1000))
        if el > max(t, 0) + SLACK:
            self.overrun(phase, t, el)
        elif el > max(t, 0) + 2.0:
            rec.anomaly('slow_join_on_live_child', timeout=t, elapsed=round(el, 3),
                        heartbeat_stall=round(wd.take_gap(), 2), method=self.method,
                        storm=bool(self.env.spec.get('storm')), phase=phase)
        if el < t - 0.003:
            rec.anomaly('join_returned_early', timeout=t, elapsed=round(el, 4),
                        method=self.method)
        n = self.poll_alive(phase, 1)
        rec.count('alive_probes', n)
        lst = self.active_live(phase)
        if lst is not None and p not in lst:
            self.v('live_child_not_listed_active', phase, after='join(%r)' % t)

    def join_none_came_back_empty(self, phase):
        """join() without a timeout returned and no status was recorded"""
        st = proc_state(self.pid)
        if st not in (None, 'Z', 'X'):
            self.v('join_returned_with_child_running', phase, child_state=st)
            raise CaseAbort()
        self.rec.anomaly('join_none_returned_without_status', method=self.method,
                         child_state=st)

    def overrun(self, phase, t, el):
        """join(t) came back later than t + SLACK"""
        gap = self.env.wd_thread.take_gap()
        if gap > 2.0:
            # the whole process was starved (the heartbeat thread stalled too)
            self.rec.anomaly('join_overrun_during_scheduling_stall', timeout=t,
                             elapsed=round(el, 3), heartbeat_stall=round(gap, 2),
                             method=self.method)
            return
        self.v('join_overran_timeout', phase, timeout=t, elapsed=round(el, 3),
               heartbeat_stall=round(gap, 2))

    def try_restart(self, phase):
        """start() on an already started object must be refused"""
        p = self.p
        old = p._popen
        try:
            p.start()
        except BaseException as exc:
            self.log('start#2 refused', type(exc).__name__)
            self.rec.count('second_start_refused')
            return
        newpid = getattr(getattr(p, '_popen', None), 'pid', None)
        self.log('start#2 SUCCEEDED', newpid)
        if isinstance(newpid, int) and newpid != self.pid:
            self.pids.append(newpid)
        self.v('second_start_succeeded', phase, first_pid=self.pid, second_pid=newpid)
        if old is not None and p._popen is not old:
            self.extra_popen = p._popen
            p._popen = old            # keep driving the first child for clean-up
        raise CaseAbort()

    def stopcont(self):
        """a stopped child is still alive"""
        if not _kill(self.pid, signal.SIGSTOP):
            return
        try:
            t_end = time.monotonic() + 10
            while proc_state(self.pid) not in ('T', 't') and time.monotonic() < t_end:
                time.sleep(0.001)
            if proc_state(self.pid) in ('T', 't'):
                self.log('stopped')
                n = self.poll_alive('held_stopped', 4)
                self.rec.count('alive_probes', n)
                self.rec.count('probes_on_stopped_child', n)
                if 'join' not in self.env.disabled:
                    self.join_live(0.01, 'held_stopped')
        finally:
            _kill(self.pid, signal.SIGCONT)

    # -- the exit ---------------------------------------------------------------
    def release(self):
        if self.kind == 'extsig':
            s = signum(self.arg)
            self.log('send', self.arg)
            if self.arg == 'SIGTERM' and self.rng.random() < 0.5:
                self.call('terminate', self.p.terminate, 'held')
            else:
                os.kill(self.pid, s)
        else:
            os.write(self.wfd, b'x')
            self.log('released')

    def finish_wait(self, label):
        """arm the exit guard around a blocking wait for a released child"""
        self.env.wd_thread.arm(EXIT_GUARD, 'exit', self.pid, label)

    def done_wait(self):
        fired = self.env.wd_thread.disarm()
        if fired:
            raise HarnessError('child %d did not end after release (%r): killed by '
                               'the harness' % (self.pid, fired))

    def peek_rc(self):
        """did a join/poll already see the exit?  (no side effects)"""
        try:
            return self.p._popen.returncode
        except AttributeError:
            self.rec.missing('Popen.returncode')
            return self.p.exitcode

    def check_really_ended(self, phase, said):
        """billiard says the child has ended: the kernel must agree"""
        if getattr(self, '_ended_checked', False):
            return
        self._ended_checked = True
        st = proc_state(self.pid)
        self.rec.count('end_crosschecked_with_proc')
        if st in (None, 'Z', 'X'):
            return
        if self.method == 'forkserver':
            # the status travels over the pipe a moment before _exit()
            t_end = time.monotonic() + 20
            while time.monotonic() < t_end:
                if has_ended(self.pid):
                    return
                time.sleep(0.002)
        self.v('reported_ended_while_running', phase, said=said, child_state=st)

    def after_successful_join(self, how):
        """first thing after a join that saw the exit, before any other call
        gets a chance to clean up behind it"""
        if self.joined_ok:
            return
        self.joined_ok = True
        self.check_really_ended('after_join', how)
        s = self.env.children_set()
        if s is not None:
            self.rec.count('internal_children_set_checked')
            if self.p in s:
                self.v('joined_child_still_in_children_set', 'after_join',
                       join=how, set_size=len(s))

    def exit_phase(self):
        p, rng, rec = self.p, self.rng, self.rec
        pat = self.pattern
        spin_deadline = 30.0
        if pat == 'join_none':
            self.finish_wait('join()')
            self.call('join()', p.join, 'around_exit')
            self.done_wait()
            if self.peek_rc() is None:
                self.join_none_came_back_empty('around_exit')
            else:
                self.after_successful_join('join()')
        elif pat == 'join_long':
            T = rng.choice([20.0, 60.0])
            self.tb = 'long'
            self.finish_wait('join(%r)' % T)
            t0 = time.monotonic()
            self.call('join(%r)' % T, lambda: p.join(T), 'around_exit')
            el = time.monotonic() - t0
            self.done_wait()
            if self.peek_rc() is not None:
                self.after_successful_join('join(%r)' % T)
                rec.count('timed_join_ended_by_exit')
            elif el < T - 2.0:
                # neither the exit (no status) nor the timeout: a join that
                # "succeeded" without the child being reaped - it is still an
                # active child with exitcode None
                self.v('timed_join_returned_without_exit_or_timeout', 'around_exit',
                       timeout=T, elapsed=round(el, 3), child_state=proc_state(self.pid))
            else:
                rec.anomaly('join_returned_early', timeout=T, elapsed=round(el, 3),
                            method=self.method, child_state=proc_state(self.pid))
        elif pat == 'spin':
            self.spin(spin_deadline)
        elif pat == 'join_loop':
            t = rng.choice([0, 0.0, -1, 0.001, 0.01, 0.05])
            self.tb = 'zero' if t <= 0 else 'short'
            n_to = 0
            t_start = time.monotonic()
            ended_at = None
            while True:
                t0 = time.monotonic()
                self.finish_wait('join(%r)' % t)
                self.call('join(%r)' % t, lambda: p.join(t), 'around_exit')
                self.done_wait()
                el = time.monotonic() - t0
                if el > max(t, 0) + SLACK:
                    self.overrun('around_exit', t, el)
                if self.peek_rc() is not None:
                    self.after_successful_join('join(%r)' % t)
                    break
                n_to += 1
                if t <= 0:
                    time.sleep(0.0005)
                if ended_at is None and has_ended(self.pid):
                    ended_at = time.monotonic()
                if ended_at is not None and time.monotonic() - ended_at > spin_deadline:
                    self.v('exit_never_reported', 'after_exit', via='join(%r)' % t,
                           tries=n_to, child_state=proc_state(self.pid))
                    raise CaseAbort()
                if time.monotonic() - t_start > EXIT_GUARD:
                    raise HarnessError('child %d did not end' % self.pid)
            rec.count('join_timeouts_before_exit_seen', n_to)
            if n_to:
                self.straddled = True
        elif pat == 'proc_then_probe':
            t_end = time.monotonic() + EXIT_GUARD
            while not has_ended(self.pid):
                if time.monotonic() > t_end:
                    raise HarnessError('child %d did not end' % self.pid)
                time.sleep(0.0005)
            self.log('proc says ended', proc_state(self.pid))
            rec.count('proc_confirmed_ended_before_probe')
            first = rng.choice(['is_alive', 'exitcode', 'join0', 'join_t',
                                'join_none', 'active_children'])
            self.tb = first
            if first == 'is_alive':
                a = self.call('is_alive', p.is_alive, 'after_exit')
                if a is not False:
                    self.v('alive_after_child_ended', 'after_exit', is_alive=a,
                           child_state=proc_state(self.pid))
            elif first == 'exitcode':
                e = self.call('exitcode', lambda: p.exitcode, 'after_exit')
                if e is None:
                    self.v('exitcode_none_after_child_ended', 'after_exit',
                           child_state=proc_state(self.pid))
            elif first == 'active_children':
                lst = self.call('active_children', self.env.active_children,
                                'after_exit')
                if p in lst:
                    self.v('dead_child_listed_active', 'after_exit',
                           child_state=proc_state(self.pid))
            else:
                t = {'join0': 0, 'join_t': rng.choice([0.01, 0.05, 0.3]),
                     'join_none': None}[first]
                self.finish_wait('join(%r)' % t)
                t0 = time.monotonic()
                self.call('join(%r)' % t, lambda: p.join(t), 'after_exit')
                el = time.monotonic() - t0
                self.done_wait()
                if t is not None and el > t + SLACK:
                    self.overrun('after_exit', t, el)
                if self.peek_rc() is not None:
                    self.after_successful_join('join(%r)' % t)
                else:
                    rec.anomaly('join_missed_ended_child', timeout=t,
                                method=self.method)

    def spin(self, deadline):
        """alternate exitcode / is_alive as fast as possible across the exit;
        the sequence must be (None|True)* then (code|False)* with one code"""
        p, rec = self.p, self.rec
        dead = None
        code = None
        n_before = 0
        n_after = 0
        t_start = time.monotonic()
        ended_at = None
        i = 0
        while True:
            i += 1
            if i % 2:
                e = self.call('exitcode', lambda: p.exitcode, 'around_exit')
                now_dead = e is not None
                if now_dead:
                    if code is not None and e != code:
                        self.v('exitcode_changed', 'around_exit', first=code, then=e)
                    code = e if code is None else code
            else:
                a = self.call('is_alive', p.is_alive, 'around_exit')
                if a not in (True, False):
                    self.v('is_alive_not_boolean', 'around_exit', value=repr(a))
                now_dead = not a
            if dead and not now_dead:
                self.v('liveness_flapped', 'around_exit',
                       probe='exitcode' if i % 2 else 'is_alive',
                       child_state=proc_state(self.pid))
                raise CaseAbort()
            if now_dead:
                if not dead:
                    self.check_really_ended('around_exit',
                                            'exitcode' if i % 2 else 'is_alive')
                dead = True
                n_after += 1
                if n_after >= 6 and code is not None:
                    break
            else:
                n_before += 1
                if n_before > 3000:
                    time.sleep(0.0005)      # be kind to the other checks
                if i % 64 == 0:
                    if ended_at is None and has_ended(self.pid):
                        ended_at = time.monotonic()
                    if ended_at is not None and time.monotonic() - ended_at > deadline:
                        self.v('exit_never_reported', 'after_exit', via='poll',
                               polls=n_before, child_state=proc_state(self.pid))
                        raise CaseAbort()
                    if time.monotonic() - t_start > EXIT_GUARD:
                        raise HarnessError('child %d did not end' % self.pid)
        rec.count('polls_after_release_before_exit_seen', n_before)
        rec.count('polls_after_exit_seen', n_after)
        if n_before:
            self.straddled = True

    # -- after the exit -------------------------------------------------------------
    def post(self):
        p, rec, rng, env = self.p, self.rec, self.rng, self.env
        if not self.joined_ok:
            # make the join that the statement calls successful
            how = rng.choice([None, None, 0, 0.05, 5.0])
            t_end = time.monotonic() + EXIT_GUARD
            while True:
                self.finish_wait('join(%r)' % how)
                self.call('join(%r)' % how, lambda: p.join(how), 'after_exit')
                self.done_wait()
                if self.peek_rc() is not None:
                    break
                if how is None:
                    self.join_none_came_back_empty('after_exit')
                    how = 0.05
                if time.monotonic() > t_end:
                    if has_ended(self.pid):
                        self.v('exit_never_reported', 'after_exit',
                               via='join(%r)' % how, child_state=proc_state(self.pid))
                        raise CaseAbort()
                    raise HarnessError('child %d did not end' % self.pid)
                time.sleep(0.001)
            self.after_successful_join('join(%r)' % how)
        rec.count('exit_observed')
        # the table
        codes = [self.call('exitcode', lambda: p.exitcode, 'after_join')
                 for _ in range(3)]
        e = codes[0]
        if len(set(map(repr, codes))) != 1:
            self.v('exitcode_changed', 'after_join', codes=codes)
        if not code_ok(self.method, self.kind, self.arg, e):
            self.v('exitcode_wrong', 'after_join', exitcode=repr(e))
        else:
            rec.count('exitcode_matches_table')
        s = sig_of(self.kind, self.arg)
        if s is not None:
            rec.count('signal_deaths')
            name = {'abort': 'SIGABRT(abort)', 'earlykill': self.arg[1]
                    if self.kind == 'earlykill' else None}.get(self.kind, self.arg)
            rec.count('sig:%s' % name)
        elif self.kind == 'sysexit':
            rec.count('sysexit_codes')
        elif self.kind == 'raise':
            rec.count('exception_exits')
        else:
            rec.count('normal_returns')
        a = self.call('is_alive', p.is_alive, 'after_join')
        if a is not False:
            self.v('alive_after_join', 'after_join', is_alive=a)
        lst = self.call('active_children', env.active_children, 'after_join')
        if p in lst:
            self.v('joined_child_still_active', 'after_join', listed=len(lst))
        st = env.children_set()
        if st is not None and p in st:
            self.v('joined_child_still_in_children_set', 'after_join',
                   join='after active_children()', set_size=len(st))
        # joining again is harmless and immediate
        t2 = rng.choice([None, 0, 0.05])
        self.finish_wait('join#2(%r)' % t2)
        t0 = time.monotonic()
        self.call('join#2(%r)' % t2, lambda: p.join(t2), 'after_join')
        el = time.monotonic() - t0
        self.done_wait()
        if el > (t2 or 0) + SLACK:
            self.overrun('after_join', t2, el)
        e2 = self.call('exitcode', lambda: p.exitcode, 'after_join')
        if repr(e2) != repr(e):
            self.v('exitcode_changed', 'after_join', codes=[e, e2])
        if rng.random() < 0.6:
            self.try_restart('after_join')
        rec.count('post_join_checks')

    # -- the case ----------------------------------------------------------------
    def run(self):
        rng, rec = self.rng, self.rec
        self.pattern = rng.choice(PATTERNS)
        delay = rng.choice([0, 0, 0.002, 0.02, 0.1])
        self.env.current = self
        self.make(delay)
        self.start()
        if self.kind == 'earlykill':
            how, sname, d = self.arg
            if d:
                time.sleep(d)
            if how == 'terminate':
                self.call('terminate', self.p.terminate, 'start')
            else:
                os.kill(self.pid, signum(sname))
            self.log('earlykill', [how, sname, d])
            if self.rng.random() < 0.5:
                self.try_restart('start')
        else:
            self.wait_ready()
            self.held_phase()
            self.release()
        self.exit_phase()
        self.post()
        rec.case()
        if self.straddled:
            rec.count('polls_straddled_exit')
        if self.kind == 'earlykill' or self.saw_alive:
            rec.sig([self.method, self.env.api, self.kind, sub_of(self.kind, self.arg),
                     self.pattern, self.tb, self.straddled])
        rec.sample({'method': self.method, 'api': self.env.api, 'path': self.kind,
                    'arg': self.arg, 'pattern': self.pattern,
                    'exitcode': self.p.exitcode, 'history': self.hist[:60]})

    def cleanup(self):
        for pid in self.pids:
            if not has_ended(pid):
                _kill(pid, signal.SIGCONT)
                _kill(pid, signal.SIGKILL)
        # reap through billiard where possible, else directly
        for pop in (getattr(self.p, '_popen', None), getattr(self, 'extra_popen', None)):
            if pop is None:
                continue
            try:
                t_end = time.monotonic() + 10
                while pop.poll() is None and time.monotonic() < t_end:
                    if has_ended(pop.pid) and self.method == 'forkserver':
                        break
                    time.sleep(0.002)
            except BaseException:
                pass
        for pid in self.pids:
            try:
                os.waitpid(pid, os.WNOHANG)
            except OSError:
                pass
        try:
            self.env.bprocess._children.discard(self.p)
        except Exception:
            pass
        for fd in self.fds:
            try:
                os.close(fd)
            except OSError:
                pass
        for x in self.paths:
            try:
                os.unlink(x)
            except OSError:
                pass


def run_case(env, idx, kind, arg):
    for attempt in range(2):
        c = Case(env, idx, kind, arg, attempt)
        try:
            c.run()
            return
        except CaseAbort:
            env.rec.case()
            env.rec.count('cases_aborted_after_violation')
            return
        except CaseRetry:
            env.rec.count('cases_retried_after_guard')
            continue
        finally:
            env.wd_thread.disarm()
            c.cleanup()
            env.current = None


# --------------------------------------------------------------------------
# start() from another process
# --------------------------------------------------------------------------

def _foreign_fork_try(env, proc, label, case_attrs, killable=True):
    """fork the harness; the copy tries proc.start() and reports"""
    rec = env.rec
    r, w = os.pipe()
    sys.stdout.flush()
    sys.stderr.flush()
    pid = os.fork()
    if pid == 0:
        try:
            os.close(r)
            try:
                proc.start()
            except BaseException as exc:
                msg = 'REFUSED:%s:%s' % (type(exc).__name__, exc)
            else:
                msg = 'STARTED:%s' % (getattr(proc._popen, 'pid', None),)
            os.write(w, msg.encode()[:500])
        finally:
            os._exit(0)
    os.close(w)
    data = b''
    t_end = time.monotonic() + 60
    while time.monotonic() < t_end:
        rr, _, _ = select.select([r], [], [], 1.0)
        if rr:
            b = os.read(r, 600)
            if not b:
                break
            data += b
    os.close(r)
    _kill(pid, signal.SIGKILL)
    try:
        os.waitpid(pid, 0)
    except OSError:
        pass
    msg = data.decode('utf8', 'replace')
    if msg.startswith('REFUSED'):
        rec.count('foreign_start_refused')
        rec.count('foreign:' + label)
        return True
    if msg.startswith('STARTED'):
        try:
            gp = int(msg.split(':')[1])
            _kill(gp, signal.SIGKILL)
        except ValueError:
            pass
        rec.violation('foreign_start_succeeded', case_attrs, state=label, reply=msg)
        return False
    raise HarnessError('no reply from the forked starter: %r' % msg)


def _join_until_exit(env, p, what, attrs):
    """join a child that is free to end; a slow machine is not a violation"""
    t_end = time.monotonic() + EXIT_GUARD
    while True:
        p.join(1.0)
        code = p.exitcode
        if code is not None:
            return code
        if time.monotonic() > t_end:
            if p.pid and has_ended(p.pid):
                env.rec.violation('exit_never_reported', attrs, what=what,
                                  child_state=proc_state(p.pid))
                return None
            _kill(p.pid, signal.SIGKILL)
            raise HarnessError('%s (pid %s) did not end within %d s' % (
                what, p.pid, EXIT_GUARD))


def run_foreign(env, rounds):
    rec, H = env.rec, env.H
    rng = rng_for(env.seed, 'foreign')
    for rnd in range(rounds):
        attrs = {'method': env.method, 'path': 'foreign_start', 'phase': 'other_process'}
        # (1) never started object, foreign process = os.fork copy
        q = env.Process(target=H.trivial)
        _foreign_fork_try(env, q, 'unstarted/os.fork', attrs)
        # ... its creator can still start it, and it reports 0
        try:
            q.start()
            rec.count('children_started')
            rec.count('method:' + env.method)
            code = _join_until_exit(env, q, 'object started by its creator',
                                    {'method': env.method, 'path': 'return',
                                     'phase': 'after_exit'})
            if code is not None and (code != 0 or not is_code(code)):
                rec.violation('exitcode_wrong', {'method': env.method, 'path': 'return',
                                                 'phase': 'after_join'},
                              exitcode=repr(code), where='after foreign attempt')
        except HarnessError:
            raise
        except BaseException as exc:
            rec.violation('call_raised', {'method': env.method, 'path': 'return',
                                          'phase': 'start'},
                          call='start after refused foreign start', exc=repr(exc))
        rec.case()
        # (2) running object and (3) joined object
        c = Case(env, 1000 + rnd, 'sysexit', ['call', 3])
        try:
            env.current = c
            c.pattern = 'join_none'
            c.make(0)
            c.start()
            c.wait_ready()
            _foreign_fork_try(env, c.p, 'running/os.fork', attrs)
            n = c.poll_alive('held', 2)
            rec.count('alive_probes', n)
            c.release()
            c.exit_phase()
            _foreign_fork_try(env, c.p, 'joined/os.fork', attrs)
            c.post()
            rec.case()
            rec.sig([env.method, 'foreign', 'os.fork'])
        except (CaseAbort, CaseRetry):
            pass
        finally:
            env.wd_thread.disarm()
            c.cleanup()
            env.current = None
        # (4) the object travels to a billiard child (inherited / pickled)
        for carrier in METHODS:
            cctx = env.billiard.get_context(carrier)
            q = env.Process(target=H.trivial)
            out = os.path.join(env.wd, 'foreign_%d_%s.txt' % (rnd, carrier))
            p = cctx.Process(target=H.foreign_start, args=(q, out))
            try:
                p.start()
                rec.count('children_started')
                rec.count('method:' + carrier)
                code = _join_until_exit(env, p, 'carrier',
                                        {'method': carrier, 'path': 'return',
                                         'phase': 'after_exit'})
            except HarnessError:
                raise
            except BaseException as exc:
                rec.violation('call_raised', {'method': carrier, 'path': 'return',
                                              'phase': 'start'},
                              call='start/join of carrier', exc=repr(exc),
                              tb=traceback.format_exc()[-1200:])
                continue
            finally:
                if p.pid and not has_ended(p.pid):
                    _kill(p.pid, signal.SIGKILL)
            try:
                with open(out) as f:
                    res = f.read()
            except OSError:
                res = ''
            a2 = dict(attrs)
            a2['carrier'] = carrier
            if res == 'STARTED':
                rec.violation('foreign_start_succeeded', a2,
                              state='unstarted/billiard child', reply=res)
            elif res:
                rec.count('foreign_start_refused')
                rec.count('foreign:unstarted/%s child' % carrier)
            else:
                raise HarnessError('carrier %s wrote nothing (exit %r)' % (carrier, code))
            if code is not None and (code != 0 or not is_code(code)):
                rec.violation('exitcode_wrong', {'method': carrier, 'path': 'return',
                                                 'phase': 'after_join'},
                              exitcode=repr(code), where='carrier of foreign start')
            rec.case()
            rec.sig([env.method, 'foreign', 'carrier:' + carrier])
            rec.sample({'foreign_start': carrier, 'object': env.method, 'reply': res})


# --------------------------------------------------------------------------
# several threads of the parent polling across the exit
# --------------------------------------------------------------------------

def run_mt(env, rounds):
    rec = env.rec
    rng = rng_for(env.seed, 'mt')
    paths = [['sysexit', ['call', 7]], ['return', None], ['raise', 'ValueError'],
             ['sysexit', ['raise', 0]], ['sysexit', ['call', 200]], ['selfsig', 'SIGKILL'],
             ['sysexit', ['nested', 1]], ['return', 5]]
    old = sys.getswitchinterval()
    for rnd in range(rounds):
        kind, arg = paths[rnd % len(paths)]
        c = Case(env, 2000 + rnd, kind, arg)
        c.pattern = 'concurrent_pollers'
        nth = rng.choice([1, 2, 3])
        sw = rng.choice([5e-3, 1e-4, 1e-5])
        main_op = rng.choice(['join()', 'join(30)', 'join_loop', 'poll'])
        only_exitcode = False
        if rnd % 2 == 0:
            # the profile that makes pollers and a joiner meet most often
            nth, sw, main_op, only_exitcode = 3, 1e-5, 'join()', True
        obs = [[] for _ in range(nth)]
        stop = threading.Event()
        attrs = {'method': env.method, 'phase': 'concurrent_pollers'}
        try:
            env.current = c
            c.make(rng.choice([0, 0.002, 0.02]))
            c.start()
            c.wait_ready()
            p = c.p

            def poller(k):
                i = 0
                while not stop.is_set() and len(obs[k]) < 200000:
                    i += 1
                    try:
                        v = p.exitcode if (only_exitcode or (i + k) % 2) else p.is_alive()
                    except BaseException as exc:
                        obs[k].append(('raised', repr(exc),
                                       traceback.format_exc()[-800:]))
                        break
                    if v is None or v is True:
                        if i > 4000:
                            time.sleep(0.0003)
                        if obs[k] and obs[k][-1][0] == 'alive':
                            obs[k][-1][1] += 1
                        else:
                            obs[k].append(['alive', 1])
                    else:
                        obs[k].append(['dead', v])
                        if len([o for o in obs[k] if o[0] == 'dead']) >= 4:
                            break
            sys.setswitchinterval(sw)
            ths = [threading.Thread(target=poller, args=(k,), daemon=True)
                   for k in range(nth)]
            for t in ths:
                t.start()
            time.sleep(rng.choice([0, 0.001, 0.01]))
            c.release()
            main_exc = None
            c.finish_wait(main_op)
            try:
                if main_op == 'join()':
                    p.join()
                elif main_op == 'join(30)':
                    p.join(30)
                elif main_op == 'join_loop':
                    while c.peek_rc() is None:
                        p.join(0.001)
                else:
                    n_spin = 0
                    while p.exitcode is None:
                        n_spin += 1
                        if n_spin > 3000:
                            time.sleep(0.0005)
            except BaseException as exc:
                main_exc = (repr(exc), traceback.format_exc()[-800:])
            c.done_wait()
            t_end = time.monotonic() + 30
            for t in ths:
                t.join(max(0.1, t_end - time.monotonic()))
            stop.set()
            for t in ths:
                t.join(10)
            sys.setswitchinterval(old)
            # oracle: legal set per observation, final value, no exception
            summary = []
            if main_exc:
                rec.violation('poll_raised_during_concurrent_join', attrs, path=kind, call=main_op, exc=main_exc[0],
                              tb=main_exc[1], threads=nth + 1)
            for k, o in enumerate(obs):
                seen_dead = False
                for item in o:
                    if item[0] == 'raised':
                        rec.violation('poll_raised_during_concurrent_join', attrs, path=kind, call='exitcode/is_alive',
                                      exc=item[1], tb=item[2], threads=nth + 1,
                                      main_thread=main_op)
                    elif item[0] == 'dead':
                        seen_dead = True
                        if item[1] is not False and \
                                not code_ok(env.method, kind, arg, item[1]):
                            rec.violation('exitcode_corrupted_by_concurrent_poll', attrs, path=kind, exitcode=repr(item[1]),
                                          expected=expected_text(env.method, kind, arg),
                                          threads=nth + 1, main_thread=main_op,
                                          seen_by='poller thread')
                    elif seen_dead:
                        rec.violation('liveness_flapped', attrs, path=kind, threads=nth + 1,
                                      observations=o[:20])
                summary.append([[x[0], x[1]] for x in o[:6]])
                rec.count('mt_alive_observations',
                          sum(x[1] for x in o if x[0] == 'alive'))
            try:
                fin = p.exitcode
                t_end = time.monotonic() + EXIT_GUARD
                while fin is None and time.monotonic() < t_end:
                    p.join(0.5)
                    fin = p.exitcode
                if fin is None and not has_ended(c.pid):
                    raise HarnessError('child %d did not end' % c.pid)
            except HarnessError:
                raise
            except BaseException as exc:
                fin = None
                rec.violation('poll_raised_during_concurrent_join', attrs, path=kind, call='exitcode (final)',
                              exc=repr(exc), threads=nth + 1)
            if not code_ok(env.method, kind, arg, fin):
                rec.violation('exitcode_corrupted_by_concurrent_poll', attrs, path=kind, exitcode=repr(fin),
                              expected=expected_text(env.method, kind, arg),
                              threads=nth + 1, main_thread=main_op,
                              seen_by='final read', pollers=summary)
            rec.count('mt_cases')
            rec.case()
            rec.sig([env.method, 'mt', kind, nth, main_op,
                     any(x[0] == 'alive' for o in obs for x in o)])
        except (CaseAbort, CaseRetry):
            pass
        finally:
            stop.set()
            sys.setswitchinterval(old)
            env.wd_thread.disarm()
            c.cleanup()
            env.current = None


# --------------------------------------------------------------------------

def run_nested(spec, rec):
    """a child started with `method` starts children of its own with `inner`:
    what it is told about their end must be as faithful as what the top-level
    parent is told; then an interrupt (SIGINT, dispositions as billiard left
    them) ends a child and is reported"""
    import billiard
    from vmon import c19_helpers as H2
    outer, inner = spec['method'], spec['inner']
    ctx = billiard.get_context(outer)
    A = {'method': outer, 'inner': inner, 'phase': 'nested'}
    r, w = ctx.Pipe(False)
    p = ctx.Process(target=H2.nested_parent, args=(inner, w))
    p.start()
    w.close()
    msg = None
    if r.poll(170):
        try:
            msg = r.recv()
        except EOFError:
            msg = None
    p.join(30)
    if p.is_alive():
        _kill(p.pid, signal.SIGKILL)
        p.join(5)
    rec.case()
    if msg is None:
        rec.violation('nested_parent_silent', A, exitcode=p.exitcode)
    elif msg[0] == 'raised':
        rec.violation('call_raised', A, tb=msg[1], partial=msg[2])
    else:
        want = {'return': 0, 'exit7': 7, 'kill': -9, 'term': -15}
        for kind, code, alive, listed, el in msg[1]:
            rec.count('nested_exits_checked')
            a = dict(A, path=kind)
            if code != want[kind]:
                rec.violation('exitcode_wrong', a, got=code, want=want[kind], join_s=el)
            if alive:
                rec.violation('ended_child_reported_alive', a, exitcode=code)
            if listed:
                rec.violation('ended_child_listed_active', a, exitcode=code)
        rec.sig(['nested', outer, inner])
    # interrupt
    wd = os.environ.get('VERIF_WORKDIR') or '/tmp'
    ready = os.path.join(wd, 'c19-int-%d-%s' % (os.getpid(), outer))
    q = ctx.Process(target=H2.sleeper, args=(ready,))
    q.start()
    t_end = time.monotonic() + 60
    while time.monotonic() < t_end and not os.path.exists(ready):
        time.sleep(0.02)
    A2 = {'method': outer, 'phase': 'interrupt', 'path': 'SIGINT'}
    if not os.path.exists(ready):
        rec.anomaly('interrupt_child_never_ready', method=outer)
    else:
        time.sleep(0.1)
        os.kill(q.pid, signal.SIGINT)
        q.join(20)
        rec.count('interrupts_checked')
        code = q.exitcode
        if code is None or q.is_alive():
            rec.violation('signalled_child_still_running', A2, exitcode=code,
                          child_state=proc_state(q.pid))
        elif code not in (1, -2):
            rec.violation('exitcode_wrong', A2, got=code, want='1 (KeyboardInterrupt) or -2')
    if q.is_alive():
        _kill(q.pid, signal.SIGKILL)
        q.join(5)
    try:
        os.unlink(ready)
    except OSError:
        pass
    rec.case()


def run_spec(spec, rec):
    if spec['mode'] == 'nested':
        return run_nested(spec, rec)
    env = Env(spec, rec)
    if spec['mode'] == 'matrix':
        if spec.get('storm'):
            env.storm_on()
        try:
            for i, (kind, arg) in enumerate(spec['cases']):
                run_case(env, i, kind, arg)
                if i % 4 == 3:
                    rec.flush()
        finally:
            if spec.get('storm'):
                env.storm_off()
    elif spec['mode'] == 'foreign':
        run_foreign(env, spec['rounds'])
    elif spec['mode'] == 'mt':
        run_mt(env, spec['rounds'])
    elif spec['mode'] == 'nested':
        run_nested(spec, rec)
