"""C06 - soft time limit is raised once, inside the task that exceeded it.
Lane SIM: every SIGUSR1 the parent sends is matched to a job with an expired
effective soft limit that was unresolved and not signalled before; timeout
callback told soft=True and the limit; precedence job over pool.  Lane REAL
(vmon.real_c06): tasks count the SoftTimeLimitExceeded they see; close() while
a soft-limited job runs; a job finishing in time whose slow result callback is
still running when the limit's instant passes.  A pool initializer with signal handling of its own (SIG_DFL / SIG_IGN / faulthandler on the soft-limit signal) does not keep the limit from being raised."""
from vmon import simcheck

PROPERTY = 'C06'
LEVEL = 'exploration'
TECHNIQUE = 'runtime monitoring: signal recorder on the real TimeoutHandler under virtual-time schedules + real pools whose tasks count the exceptions they catch; oracle = every soft signal justified exactly once'
RULE = ('SIM: one case = one seeded history from the limit-heavy profiles with many successive scans; non-trivial = at least one soft '
        'limit expired while the job was still running. REAL: one case = one scenario (limits, task duration, catch-or-not)')
ASSUMPTIONS = ['SIM checks the parent side (who is signalled, when, how often); delivery inside the right task is checked in the REAL lane']
JOBS = 14
SPEC_TIMEOUT = 900
CONFIRM_ALONE = ('soft_limit_not_raised_exactly_once_in_task', 'pool_hung_with_soft_limit',
                 'soft_timeout_callback_missing_or_wrong')
FLOORS = {
    'quick': {'sim:soft_expiries': 60, 'sim:scans': 2000, 'real:scenarios': 10,
              'real:soft_expired': 5, 'real:soft_not_expired': 2, 'real:caught_and_returned': 2},
    'thorough': {'sim:soft_expiries': 1500, 'sim:scans': 30000},
}


def nontrivial(sim):
    return bool(sim.stats.get('soft_expiries'))


def plan(tier, seed):
    per, hist = (4, 70) if tier == 'quick' else (12, 220)
    specs = simcheck.sim_specs(['c06', 'c05', 'c01'], seed, per, hist, base=60000)
    try:
        from vmon import real_c06
        specs += real_c06.plan(tier, seed)
    except ImportError:
        pass
    return specs


def run_spec(spec, rec):
    if spec.get('lane') == 'sim':
        return simcheck.run_sim_spec(spec, rec, PROPERTY, nontrivial)
    from vmon import real_c06
    return real_c06.run_spec(spec, rec)
