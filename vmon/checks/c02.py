"""C02 - results equal the sequential computation: value, order, exception.

Two lanes.

REAL (main): a real billiard Pool in a host process of its own runs a seeded
script of map / starmap / imap / imap_unordered / apply calls (blocking one
after the other, and batches of concurrently outstanding async calls): input
lengths 0..40 (quick) including non-multiples of the chunk size, chunk sizes
{default, 1, 2, 3, n-1, n, n+1, 10n}, pool sizes 1-4 (1-8 thorough), lists /
tuples / generators / iterators / deques / iterables without __len__, item
types int / str / bytes / float (NaN, -0.0) / nested containers / values of
70-300 KB (larger than a pipe) next to short ones, functions that
tag, take 2-3 starred arguments, take keywords (apply) or raise at chosen
positions, seeded per-item latency plus SIGSTOP/SIGCONT of random workers so
that chunks really finish out of order (the worker-side event log tells in
which order the items were completed and by which workers).  The monitor
process computes the sequential reference itself and compares canonical forms.

PERM (completion orders): the real parent-side code - Pool.map_async /
starmap_async / imap / imap_unordered (on a pool object without processes),
TaskHandler.body (chunk streaming and the length announcement),
ResultHandler's ack / ready handlers, MapResult / IMapIterator /
IMapUnorderedIterator, mapstar / starmapstar, ExceptionInfo through a pickle
round trip - is driven in-process with a scripted worker: EVERY completion
permutation of up to 6 parts times EVERY position of the length announcement
among the completions, with lazy / polling / blocked-thread consumers, and
seeded random orders (several jobs in flight at once) beyond 6 parts."""
import itertools
import math
import pickle
import queue
import threading
import time
import traceback

from vmon.core import rng_for
from vmon import c02_helpers as H

PROPERTY = 'C02'
LEVEL = 'exploration'
TECHNIQUE = ('runtime monitoring against an executable reference (sequential map computed by the monitor, canonical-form comparison); '
             'exhaustive enumeration of completion orders x length-announcement positions for <= 6 parts on the real result handles; '
             'real pools with seeded latency and SIGSTOP/SIGCONT, completion order observed from the worker-side event log')
RULE = ('REAL: one case = one pool call (api, input length, chunk size, iterable form, item types, function kind, raising positions, latency profile) on a '
        'pool of 1-8 workers, blocking or concurrently outstanding with other calls; signature = (api, chunk class, length class, iterable form class, '
        'raising?, pool size class, blocking/concurrent, whether the worker log shows items completed out of input order, number of workers that served it); '
        'non-trivial = at least 2 parts.  PERM: one case = one job (or 2-3 jobs in flight) with a completion permutation of its parts and a position of the '
        'length announcement; signature = (api, parts, chunked?, position class of the announcement, consumer mode, raising?, order class); '
        'non-trivial = at least 2 parts completed in an order other than input order or announcement not last')
ASSUMPTIONS = [
    'values are compared in a canonical form that distinguishes NaN/-0.0, str/bytes, list/tuple and dict order but not object sharing',
    'chunked imap/imap_unordered with a raising function is judged at chunk granularity (everything before the failing chunk in order, error record of an input of that chunk, then the generator ends) - stdlib-inherited behaviour, DESIGN note N',
    'PERM lane: the worker is scripted (runs the task tuple the parent sent, wraps failures in the real ExceptionInfo, pickles the result with billiard\'s pickler); pipes are replaced by a pickle round trip; the parent-side code is real',
    'chunk sizes <= 0 and input iterables that raise are outside the quantifier and are not generated',
    'REAL lane hang verdict: the call has not returned and no worker logged anything for 30 s (items take <= 40 ms); it is first replayed in process with the observed completion order (a logical witness needs no clock), otherwise re-run alone before being reported',
    'PERM lane verdicts are logical (every part delivered and announced, non-blocking probe) except for consumers blocked in a thread (15 s bound, reported only if the non-blocking twin of the case is clean, re-run alone)',
    'lost workers, time limits and recycling are other properties: none is injected here',
]
JOBS = 14
SPEC_TIMEOUT = 700
CONFIRM_ALONE = ('call_never_returned', 'call_never_resolved', 'iterator_stuck')
FLOORS = {
    'quick': {'real:calls': 120, 'real:scenarios': 10, 'real:calls_out_of_order': 25, 'real:multiworker_calls': 35,
              'real:raising_calls': 30, 'real:stopiteration_calls': 5, 'real:partial_last_chunk': 25, 'real:empty_input': 4,
              'real:nolen_iterable': 40, 'real:api:map': 30, 'real:api:starmap': 30, 'real:api:imap': 15,
              'real:api:imap_unordered': 15, 'real:api:apply': 8, 'real:concurrent_calls': 70, 'real:items_checked': 1700,
              'real:sigstops_sent': 200,
              'perm:cases': 15000, 'perm:exhaustive_orders_m6': 4320, 'perm:len_before_all_results': 2000,
              'perm:len_after_all_results': 2000, 'perm:len_in_between': 9000, 'perm:item_buffered': 7000,
              'perm:burst_release': 3000, 'perm:failing_part_cases': 1800, 'perm:random_cases': 400,
              'perm:random_orders_beyond_6': 80, 'perm:thread_consumer_cases': 350, 'perm:multi_job_cases': 100},
    'thorough': {'real:calls': 560, 'real:scenarios': 60, 'real:calls_out_of_order': 200, 'real:multiworker_calls': 250,
                 'real:raising_calls': 170, 'real:stopiteration_calls': 30, 'real:items_checked': 12000,
                 'perm:cases': 21000, 'perm:exhaustive_orders_m6': 4320, 'perm:random_cases': 6000,
                 'perm:random_orders_beyond_6': 2000, 'perm:multi_job_cases': 1800, 'perm:thread_consumer_cases': 1500},
}

APIS = ['map', 'map_async', 'starmap', 'starmap_async', 'imap', 'imap_unordered', 'apply', 'apply_async']
PERM_KINDS = ['imap1', 'imapc', 'imapu1', 'imapuc', 'map', 'starmap']


# --------------------------------------------------------------------------
# plan
# --------------------------------------------------------------------------

def plan(tier, seed):
    specs = []
    # PERM exhaustive: every kind, m = 0..6 (m = 6 sharded by first element)
    for kind in PERM_KINDS:
        specs.append({'lane': 'perm', 'mode': 'exh', 'kind': kind, 'ms': [0, 1, 2, 3, 4, 5], 'seed': seed, 'timeout': 300})
        for sh in range(3):
            specs.append({'lane': 'perm', 'mode': 'exh', 'kind': kind, 'ms': [6], 'shard': [sh, 3], 'seed': seed,
                          'timeout': 300})
    n_rand = 4 if tier == 'quick' else 16
    for i in range(n_rand):
        specs.append({'lane': 'perm', 'mode': 'rand', 'seed': seed * 1000 + i, 'timeout': 300,
                      'cases': 300 if tier == 'quick' else 1200, 'maxn': 40 if tier == 'quick' else 400})
    n_real = 7 if tier == 'quick' else 40        # two pools (scenarios) per spec, one after the other
    real = [{'lane': 'real', 'seeds': [seed * 1000 + 2 * i, seed * 1000 + 2 * i + 1], 'idxs': [2 * i, 2 * i + 1],
             'timeout': 700} for i in range(n_real)]
    # REAL scenarios first: they are the long ones
    return real + specs


# --------------------------------------------------------------------------
# the oracle (shared by both lanes)
# --------------------------------------------------------------------------

def base_api(api):
    return api.replace('_async', '')


def eff_chunk(c):
    """chunk size the call runs with, by the documented rule (reference model)"""
    api = base_api(c['api'])
    cs = c.get('chunk')
    if api in ('imap', 'imap_unordered'):
        return 1 if cs is None else cs
    if api == 'apply':
        return 1
    if cs is None:
        cs, extra = divmod(c['n'], c['nproc'] * 4)
        if extra:
            cs += 1
    return cs


def _tb_ok(text, tname):
    return 'Traceback (most recent call last)' in text and tname in text


def check_value_exc(c, ref, erec, attrs, fail):
    """exception raised by apply / map / starmap: same type and args as one of
    the call's own raising inputs, remote traceback attached"""
    legal = {(r[1], r[2]) for r in ref if r[0] == 'exc'}
    if erec.get('is_wrapper'):
        fail('exception_not_rebuilt', attrs, got=erec)
        return
    if (erec['type'], erec['args']) not in legal:
        fail('exception_wrong_or_foreign', attrs, got=erec, legal=sorted(legal)[:6])
        return
    if erec.get('cause') != 'RemoteTraceback' or not _tb_ok(erec.get('cause_text', ''), erec['type']):
        fail('remote_traceback_missing', attrs, got=erec)


def check_imap_exc(want, irec, attrs, fail):
    """want = ['exc', type, args] of the failing input"""
    if irec.get('wrapper') != 'Exception' or not irec.get('einfo'):
        fail('imap_error_without_exception_record', attrs, got=irec, want=want)
        return False
    inner = irec['inner']
    if irec.get('einfo_type') != want[1] or inner['type'] != want[1] or inner['args'] != want[2]:
        fail('imap_error_record_of_wrong_input', attrs, got=irec, want=want)
        return False
    if not _tb_ok(irec.get('tb_text', ''), want[1]):
        fail('imap_error_record_without_traceback', attrs, got=irec)
        return False
    return True


def judge(rec, c, out, lane, extra=None):
    """decide one call's outcome against the sequential reference.
    returns True when the call was clean"""
    api = base_api(c['api'])
    ref = H.reference(c)
    cs = eff_chunk(c)
    chunked = cs > 1
    raising = [i for i, r in enumerate(ref) if r[0] == 'exc']
    attrs = {'lane': lane, 'api': api, 'chunked': bool(chunked)}
    clean = [True]

    def fail(kind, a, **detail):
        clean[0] = False
        rec.violation(kind, a, call=c, outcome=_short(out), **dict(detail, **(extra or {})))

    hostile = c.get('exck') == 'stop' and raising
    if out[0] == 'unresolved':
        # PERM: every part was delivered and get(0) still times out - a logical verdict, no clock involved
        fail('job_never_resolves' if lane == 'perm' else 'call_never_resolved', attrs)
        return False
    if out[0] == 'hung':
        fail('call_never_returned', attrs, waited_s=out[1:])
        return False
    rec.count('%s:items_checked' % lane, len(ref))

    if api in ('map', 'starmap', 'apply'):
        if raising:
            if out[0] == 'exc':
                check_value_exc(c, ref, out[1], attrs, fail)
            elif hostile:
                fail('exception_swallowed_by_map', dict(attrs, exc='StopIteration', via=api),
                     want_error_of=raising[:5], reference_len=len(ref))
            else:
                fail('exception_not_raised', attrs, raising=raising[:5])
        elif out[0] != 'ok':
            fail('spurious_failure', attrs)
        else:
            want = [r[1] for r in ref] if api != 'apply' else ref[0][1]
            if out[1] != want:
                fail('apply_value_differs' if api == 'apply' else 'map_result_differs', attrs,
                     want=_short(want), first_diff=_first_diff(out[1], want))
            if len(out) > 2 and out[2][0] == 'cb' and any(v != want for v in out[2][1]):
                fail('map_callback_value_differs', attrs, cb=_short(out[2][1]), want=_short(want))
        return clean[0]

    # ---- iterators -------------------------------------------------------
    items, end = out[1], out[2]
    if end == 'incomplete':
        # PERM, polling consumer: everything was delivered and announced, next(0) finds neither item nor end
        fail('iterator_never_completes', attrs, yielded=len(items), expected=len(ref))
        return False
    if end == 'stuck':
        fail('iterator_stuck', attrs, yielded=len(items), expected=len(ref))
        return False
    if end != 'stop':
        fail('iterator_end_wrong', attrs, end=end)
        return False

    def norm(it):          # comparable form of one yielded outcome
        if it[0] == 'ok':
            return ('ok', it[1])
        ir = it[1]
        inner = ir.get('inner') or {}
        return ('exc', inner.get('type'), inner.get('args'))

    if api == 'imap' and not chunked:
        for pos, want in enumerate(ref):
            if pos >= len(items):
                fail('iterator_stopped_early', attrs, yielded=len(items), expected=len(ref))
                break
            got = items[pos]
            if want[0] == 'ok':
                if got != want:
                    fail('imap_sequence_differs', attrs, position=pos, got=_short(got), want=_short(want))
                    break
            else:
                if got[0] != 'exc':
                    fail('imap_error_at_wrong_position', attrs, position=pos, got=_short(got), want=want)
                    break
                if not check_imap_exc(want, got[1], attrs, fail):
                    break
        else:
            if len(items) > len(ref):
                fail('iterator_yields_extra_items', attrs, yielded=len(items), expected=len(ref))
        return clean[0]

    if api == 'imap_unordered' and not chunked:
        got = sorted(map(repr, map(norm, items)))
        want = sorted(repr(('ok', r[1]) if r[0] == 'ok' else ('exc', r[1], r[2])) for r in ref)
        if got != want:
            if len(items) < len(ref):
                fail('iterator_stopped_early', attrs, yielded=len(items), expected=len(ref))
            else:
                fail('imap_unordered_multiset_differs', attrs, first_diff=_first_diff(got, want))
        for it in items:
            if it[0] == 'exc':
                w = next((r for r in ref if r[0] == 'exc' and r[1] == (it[1].get('inner') or {}).get('type')
                          and r[2] == (it[1].get('inner') or {}).get('args')), None)
                if w is not None and not check_imap_exc(w, it[1], attrs, fail):
                    break
        return clean[0]

    # chunked iterators
    nchunks = int(math.ceil(len(ref) / float(cs)))
    chunks = [list(range(k * cs, min(len(ref), (k + 1) * cs))) for k in range(nchunks)]
    bad_chunks = [k for k, ch in enumerate(chunks) if any(ref[p][0] == 'exc' for p in ch)]
    if not bad_chunks:
        got = [norm(i) for i in items]
        want = [('ok', r[1]) for r in ref]
        if api == 'imap_unordered':
            same = sorted(map(repr, got)) == sorted(map(repr, want))
        else:
            same = got == want
        if not same:
            if len(got) < len(want):
                fail('iterator_stopped_early', attrs, yielded=len(got), expected=len(want))
            else:
                fail('imap_sequence_differs' if api == 'imap' else 'imap_unordered_multiset_differs',
                     attrs, first_diff=_first_diff(got, want))
        return clean[0]
    # a raising item fails its whole chunk and the generator ends there (note N)
    excs = [i for i in items if i[0] == 'exc']
    oks = [i for i in items if i[0] == 'ok']
    if not excs:
        if hostile:
            fail('exception_swallowed_by_map', dict(attrs, exc='StopIteration', via=api),
                 raising=raising[:5], yielded=len(items))
        else:
            fail('exception_not_raised', attrs, raising=raising[:5], yielded=len(items))
        return False
    if len(excs) != 1 or items[-1][0] != 'exc':
        fail('chunked_imap_continues_after_error_inconsistently', attrs, n_errors=len(excs))
        return False
    if api == 'imap':
        k = bad_chunks[0]
        wantp = [['ok', ref[p][1]] for p in range(k * cs)]
        if oks != wantp:
            fail('imap_sequence_differs', attrs, before_failing_chunk=True,
                 first_diff=_first_diff(oks, wantp))
        first_bad = next(p for p in chunks[k] if ref[p][0] == 'exc')
        check_imap_exc(ref[first_bad], excs[0][1], attrs, fail)
    else:
        inner = excs[0][1].get('inner') or {}
        cands = [next(p for p in chunks[k] if ref[p][0] == 'exc') for k in bad_chunks]
        w = next((ref[p] for p in cands if ref[p][1] == inner.get('type') and ref[p][2] == inner.get('args')), None)
        if w is None:
            fail('imap_error_record_of_wrong_input', attrs, got=excs[0][1],
                 legal=[ref[p] for p in cands][:5])
        else:
            check_imap_exc(w, excs[0][1], attrs, fail)
        # what was yielded before: items of non-failing chunks, each at most once
        avail = {}
        for k, ch in enumerate(chunks):
            if k not in bad_chunks:
                for p in ch:
                    avail[ref[p][1]] = avail.get(ref[p][1], 0) + 1
        for it in oks:
            if not avail.get(it[1]):
                fail('imap_unordered_multiset_differs', attrs, unexpected_or_duplicate_item=_short(it))
                break
            avail[it[1]] -= 1
    return clean[0]


def _short(o, n=1200):
    s = repr(o)
    return s if len(s) <= n else s[:n] + '...'


def _first_diff(a, b):
    if not isinstance(a, list) or not isinstance(b, list):
        return {'got': _short(a, 300), 'want': _short(b, 300)}
    for i, (x, y) in enumerate(zip(a, b)):
        if x != y:
            return {'index': i, 'got': _short(x, 300), 'want': _short(y, 300), 'len_got': len(a), 'len_want': len(b)}
    return {'index': min(len(a), len(b)), 'len_got': len(a), 'len_want': len(b)}


# --------------------------------------------------------------------------
# REAL lane
# --------------------------------------------------------------------------

def gen_call(rng, cid, nproc, tier, api=None):
    api = api or rng.choice(APIS)
    b = base_api(api)
    maxn = 40 if tier == 'quick' else rng.choice([40, 40, 120, 400])
    n = rng.choice([0, 1, 2, 3, 5, 7, 8, 12, 16, 17, 25, 33, 40, rng.randrange(0, maxn + 1), maxn])
    c = {'cid': cid, 'api': api, 'nproc': nproc, 'iseed': rng.randrange(10 ** 6),
         'types': rng.choice(H.TYPES), 'callable_obj': rng.random() < 0.25}
    if c['types'] == 'big':
        # values of 70-300 KB are there for what happens at the pipe's capacity, not
        # for volume: 400 of them in one chunk is a 70 MB task message, and the
        # "no worker logged anything for 30 s" rule would call its transfer a hang
        n = min(n, 40)
    if b == 'apply':
        c['n'] = rng.choice([0, 1, 2, 3])
        c['kw'] = rng.choice([0, 0, 1, 3])
        c['fkind'] = 'echo'
        if rng.random() < 0.3:
            c['bad'] = [0]
            c['exck'] = rng.choice(H.EXC_KINDS)
        c['lat'] = [rng.randrange(10 ** 6), 'jitter'] if rng.random() < 0.5 else None
        return c
    c['n'] = n
    c['chunk'] = rng.choice([None, None, 1, 1, 2, 2, 3, 3, 5, max(1, n - 1), max(1, n), n + 1, 10 * max(1, n)])
    c['form'] = rng.choice(H.FORMS)
    c['fkind'] = rng.choice(['echo', 'echo', 'ident', 'payload', 'double', 'none'])
    if b == 'starmap':
        c['arity'] = rng.choice([1, 2, 2, 3])
    if n and rng.random() < 0.3:
        k = rng.choice([1, 1, 2, 3, n])
        c['bad'] = sorted(set(rng.sample(range(n), min(k, n)) if k < n else range(n)))
        if rng.random() < 0.25:
            c['bad'] = sorted(set(c['bad']) | {rng.choice([0, n - 1])})
        c['exck'] = rng.choice(H.EXC_KINDS + ['stop'] if rng.random() < 0.25 else H.EXC_KINDS)
    c['lat'] = [rng.randrange(10 ** 6), rng.choice(['jitter', 'jitter', 'front', 'alt', 'tail'])] \
        if rng.random() < 0.85 else None
    c['style'] = rng.choice(['for', 'timeout'])
    return c


def gen_scenario(seed, idx, tier):
    rng = rng_for(seed, 'c02real')
    sizes = [1, 2, 3, 4] if tier == 'quick' else [1, 2, 3, 4, 5, 6, 8]
    nproc = sizes[idx % len(sizes)] if idx < 2 * len(sizes) else rng.choice(sizes)
    p = {'nproc': nproc, 'seed': seed, 'stopcont': nproc > 1 and rng.random() < 0.6, 'batches': []}
    if tier != 'quick' and idx % 9 == 7:
        p['ctx'] = rng.choice(['spawn', 'forkserver'])
    ncalls = 24 if tier == 'quick' else 20
    cid = 0
    # every API at least once per scenario, in seeded order
    todo = list(APIS) + [rng.choice(APIS[:6]) for _ in range(ncalls - len(APIS))]
    rng.shuffle(todo)
    while todo:
        if rng.random() < 0.5:
            k = min(len(todo), rng.choice([1, 2, 3]))
            calls = [gen_call(rng, 'c%d' % (cid + j), nproc, tier, todo.pop()) for j in range(k)]
            p['batches'].append({'mode': 'seq', 'calls': calls})
        else:
            k = min(len(todo), rng.choice([2, 3, 4, 5]))
            calls = []
            for j in range(k):
                a = todo.pop()
                # blocking forms cannot be outstanding together: use their async twins
                a = {'map': 'map_async', 'starmap': 'starmap_async', 'apply': 'apply_async'}.get(a, a)
                calls.append(gen_call(rng, 'c%d' % (cid + j), nproc, tier, a))
            order = list(range(k))
            rng.shuffle(order)
            p['batches'].append({'mode': 'conc', 'calls': calls, 'collect': order})
        cid += k
    # regression guard: a function raising StopIteration must fail the call, not shorten a chunk
    api = ['map', 'starmap_async', 'imap', 'starmap', 'map_async', 'imap_unordered'][idx % 6]
    n = rng.choice([5, 7, 9])
    c = {'cid': 'c%d' % cid, 'api': api, 'nproc': nproc, 'iseed': rng.randrange(10 ** 6), 'types': 'int',
         'callable_obj': False, 'n': n, 'chunk': rng.choice([2, 3]), 'form': 'list', 'fkind': 'echo',
         'bad': [rng.randrange(n)], 'exck': 'stop', 'lat': None, 'style': 'timeout'}
    if base_api(api) == 'starmap':
        c['arity'] = 2
    p['batches'].insert(rng.randrange(len(p['batches']) + 1), {'mode': 'seq', 'calls': [c]})
    return p


def _n_class(n):
    return '0' if n == 0 else '1' if n == 1 else '2-8' if n <= 8 else '9-40' if n <= 40 else '>40'


def _chunk_class(c):
    cs, n = c.get('chunk'), c['n']
    if cs is None:
        return 'default'
    if cs == 1:
        return '1'
    if cs > n:
        return '>n'
    if cs == n:
        return 'n'
    return 'divides' if n % cs == 0 else 'partial_last'


def replay_hang(c, pos, nproc):
    """a call hung on a real pool: drive the same call in process (real parent-side code, scripted
    worker) with the completion order the worker log showed and every position of the length
    announcement; a logical 'never completes' there is a clock-free witness of the same defect"""
    from vmon.core import Rec
    api = base_api(c['api'])
    if api == 'apply':
        return None
    cs = eff_chunk(c)
    m = expected_parts(c)
    order = []
    for p_ in reversed(pos):                  # a part is complete when its last item was logged
        part = p_ // cs if cs > 0 else 0
        if part not in order and part < m:
            order.append(part)
    order.reverse()
    order += [i for i in range(m) if i not in order]
    c2 = dict(c, api=api, lat=None)
    try:
        bench = Bench(nproc)
        for L in range(m + 1):
            scratch = Rec()
            run_perm_case(bench, scratch, c2, order, L, 'lazy')
            bad = [v for v in scratch.violations if v['kind'] in LOGICAL_STUCK]
            if bad:
                return {'completion_order': order, 'length_announced_after': L,
                        'kind_in_process': bad[0]['kind'], 'detail': bad[0]['detail']}
    except Exception:                            # noqa
        return None
    return None


def run_real(spec, rec):
    from vmon import real
    H.REFERENCE = True
    tier = spec.get('tier', 'quick')
    p = gen_scenario(spec['seed'], spec.get('idx', 0), tier)
    ncalls = sum(len(b['calls']) for b in p['batches'])
    r = real.run_scenario('vmon.c02_helpers', 'sc_calls', p, timeout=320, tag='c02')
    obs, ev = r['obs'], r['events']
    if r['status'] == 'scenario_error':
        raise RuntimeError('scenario error: ' + obs.get('scenario_exception', r['stderr'][-2000:]))
    rec.count('real:scenarios')
    if p['stopcont']:
        rec.count('real:stopcont_scenarios')
        rec.count('real:sigstops_sent', int(obs.get('stops') or 0))
    results = obs.get('results') or {}
    calls = [(b['mode'], c) for b in p['batches'] for c in b['calls']]
    inprog = obs.get('in_progress') or []
    if r['status'] in ('hang', 'died'):
        apis = sorted({base_api(c['api']) for _m, c in calls if c['cid'] in inprog})
        attrs = {'lane': 'real', 'apis_in_progress': apis}
        if r['status'] == 'hang':
            rec.violation('call_never_returned', attrs, params=p, in_progress=inprog,
                          stacks=r['stderr'][-5000:], events_tail=ev[-12:],
                          calls=[c for _m, c in calls if c['cid'] in inprog])
        else:
            rec.violation('host_process_died', attrs, params=p, rc=r['rc'], in_progress=inprog,
                          stderr=r['stderr'][-3000:])
    # completion order per call, from the worker-side log
    done = {}
    for e in ev:
        if e['k'] in ('done', 'raise'):
            done.setdefault(e['c'], []).append((e['p'], e['pid']))
    orders = set()
    for mode, c in calls:
        cid = c['cid']
        if cid not in results:
            continue
        rec.case()
        rec.count('real:calls')
        api = base_api(c['api'])
        rec.count('real:api:' + api)
        if mode == 'conc':
            rec.count('real:concurrent_calls')
        seq = done.get(cid, [])
        pos = [x[0] for x in seq]
        inv = sum(1 for i in range(len(pos) - 1) if pos[i] > pos[i + 1])
        workers = len({x[1] for x in seq})
        if inv:
            rec.count('real:calls_out_of_order')
        if workers > 1:
            rec.count('real:multiworker_calls')
        if c.get('bad'):
            rec.count('real:raising_calls')
            if c.get('exck') == 'stop':
                rec.count('real:stopiteration_calls')
        if api != 'apply':
            cs = eff_chunk(c)
            if c['n'] == 0:
                rec.count('real:empty_input')
            if cs and c['n'] % cs and c['n'] > cs:
                rec.count('real:partial_last_chunk')
            if c.get('form') in ('gen', 'iter', 'nolen'):
                rec.count('real:nolen_iterable')
            if c.get('chunk') is None:
                rec.count('real:default_chunk')
            orders.add((api, tuple(pos)))
        if results[cid] and results[cid][0] == 'hung':
            w = replay_hang(c, pos, p['nproc'])
            rec.count('real:hung_calls')
            if w is not None:
                # reproduced logically: no clock-based verdict needed for this one
                rec.violation('call_hangs_and_replays_in_process',
                              {'lane': 'real', 'api': api, 'chunked': eff_chunk(c) > 1},
                              call=c, waited_s=results[cid][1:], completion_order_seen=pos[:60],
                              in_process_replay=w, nproc=p['nproc'])
                continue
        ok = judge(rec, c, results[cid], 'real', extra={'completion_order': pos[:60], 'nproc': p['nproc']})
        if api != 'apply' and c['n'] >= 2:
            rec.sig([api, _chunk_class(c), _n_class(c['n']), 'nolen' if c.get('form') in ('gen', 'iter', 'nolen') else 'len',
                     bool(c.get('bad')), 'p1' if p['nproc'] == 1 else 'p2-4' if p['nproc'] <= 4 else 'p5+', mode,
                     'ooo' if inv else 'inorder', min(workers, 3)])
        if ok and inv:
            rec.sample({'call': {k: c.get(k) for k in ('api', 'n', 'chunk', 'form', 'bad', 'exck', 'nproc')},
                        'completion_order_seen': pos[:40], 'workers': workers, 'verdict': 'equal to sequential reference'})
    rec.count('real:distinct_completion_orders', len(orders))
    if obs.get('teardown_ok') is False:
        rec.anomaly('teardown_slow', nproc=p['nproc'])
    if r['status'] == 'ok' and not obs.get('aborted_at') and \
            len([1 for _m, c in calls if c['cid'] in results]) != ncalls:
        raise RuntimeError('host finished but %d of %d calls have no outcome' % (
            ncalls - len(results), ncalls))
    return r['status'] == 'ok' and not obs.get('aborted_at')


# --------------------------------------------------------------------------
# PERM lane: real parent-side code, scripted worker
# --------------------------------------------------------------------------

class _RS:
    R = 0


STUCK_S = 15.0     # an in-memory consumer that does not come back within this is stuck


class _WouldBlock(BaseException):
    """raised through a chunked-imap generator when its result handle has nothing to give"""


def make_nonblocking(under):
    """harness wrapper on ONE result handle (instance-level class swap): the generator returned by a
    chunked imap pulls from it with next() and would block for ever on a lost part; this turns 'would
    block' into an exception, so that 'every part delivered and announced, yet nothing to yield' is
    decided logically instead of by a clock"""
    cls = under.__class__
    if not hasattr(cls, 'next'):
        return False

    def nb_next(self):
        try:
            return cls.next(self, 0)
        except Exception as e:                  # noqa
            if type(e).__name__ == 'TimeoutError' and not getattr(e, 'args', None):
                raise _WouldBlock()
            raise
    try:
        under.__class__ = type('NB' + cls.__name__, (cls,), {'__next__': nb_next})
    except TypeError:
        return False
    return True


LOGICAL_STUCK = ('iterator_never_completes', 'job_never_resolves', 'task_stream_never_ends',
                 'iterator_stopped_early')


class AbortSpec(Exception):
    """enough clock-based stuck verdicts in this spec: stop, the rest would only burn the budget"""


class Guard:
    """runs a closure in a helper thread with a bound; a closure that never
    returns (a consumer blocked on a lost item) is abandoned with its thread"""

    def __init__(self):
        self._mk()

    def _mk(self):
        self.inq, self.outq = queue.Queue(), queue.Queue()
        t = threading.Thread(target=self._loop, args=(self.inq, self.outq), daemon=True)
        t.start()

    @staticmethod
    def _loop(inq, outq):
        while True:
            fn = inq.get()
            try:
                outq.put(('ok', fn()))
            except BaseException:               # noqa
                outq.put(('err', traceback.format_exc()))

    def run(self, fn, timeout=60.0):
        self.inq.put(fn)
        try:
            return self.outq.get(timeout=timeout)
        except queue.Empty:
            self._mk()
            return ('stuck', None)


class Bench:
    """a billiard Pool object without processes or threads: its submission
    methods, task handler and result-handler callbacks are the real ones"""

    def __init__(self, nproc):
        from billiard import pool as bp
        self.bp = bp
        self.nproc = nproc
        P = bp.Pool
        pool = P.__new__(P)
        pool._state = bp.RUN
        pool._cache = {}
        pool._taskqueue = queue.Queue()
        pool._pool = [None] * nproc
        pool._processes = nproc
        pool.lost_worker_timeout = 10.0
        pool.timeout = pool.soft_timeout = None
        pool.putlocks = False
        pool._putlock = None
        pool.threads = True
        pool.synack = False
        pool.on_timeout_set = pool.on_timeout_cancel = None
        self.pool = pool
        self.sent = []
        self.limit = 10 ** 9
        self.overrun = False
        self.confused = None
        self.on_put = None
        self.outq = queue.Queue()
        self.th = bp.TaskHandler(pool._taskqueue, self._put, self.outq, [], pool._cache)
        self.rh = bp.ResultHandler(self.outq, None, pool._cache, None, None, None, _RS(), None, None,
                                   on_ready_counters=None)
        self.guard = Guard()
        self.stuck = 0            # consumers that never came back (clock-based verdicts)
        from billiard.reduction import ForkingPickler
        self._fp = ForkingPickler

    def dumps(self, obj):
        # the pickler (and default protocol) billiard's queues use
        return bytes(self._fp.dumps(obj))

    def _put(self, task):
        if task is None:
            return
        self.sent.append(task)
        if len(self.sent) > self.limit:
            # a task stream that does not end: stop the real task handler the way a broken pipe would
            self.overrun = True
            raise IOError('harness: task stream overrun')
        if self.on_put is not None:
            self.on_put(task)

    def stream(self):
        """let the real task handler send everything that was submitted"""
        self.pool._taskqueue.put(None)
        self.th.body()
        while not self.outq.empty():
            self.outq.get()

    def execute(self, task):
        """the scripted worker: unpickle the task, run it, pickle the result"""
        t = pickle.loads(self.dumps(task))
        _tag, (job, i, fun, args, kwargs) = t
        try:
            result = (True, fun(*args, **kwargs))
        except BaseException:                   # noqa
            result = (False, self.bp.ExceptionInfo())
        return job, i, self.dumps(result)

    def ack(self, job, i, pid):
        self.rh.on_state_change((self.bp.ACK, (job, i, time.monotonic(), pid, None)))

    def ready(self, job, i, blob):
        self.rh.on_state_change((self.bp.READY, (job, i, pickle.loads(blob), None)))


class PJob:
    """one submitted job of a PERM case"""

    def __init__(self, bench, c, consumer):
        self.b, self.c, self.consumer = bench, c, consumer
        self.api = base_api(c['api'])
        self.tasks = {}           # part index -> task
        self.done_parts = []
        self.yielded = []         # iterator consumers
        self.end = None
        self.ready_snapshot = None
        self.cbs = []
        self.thread = None
        self.lock = threading.Lock()
        self.polled_empty = 0
        self.polled_burst = 0
        fn = H.call_function(c)
        it = H.wrap_iterable(H.call_inputs(c), c.get('form', 'list'))
        kw = {} if c.get('chunk') is None else {'chunksize': c['chunk']}
        pool = bench.pool
        before = set(pool._cache)
        if self.api in ('map', 'starmap'):
            self.h = getattr(pool, self.api + '_async')(
                fn, it, callback=lambda v: self.cbs.append(('cb', v)),
                error_callback=lambda v: self.cbs.append(('eb', v)), **kw)
        else:
            self.h = getattr(pool, self.api)(fn, it, **kw)
        new = set(pool._cache) - before
        self.job = new.pop() if len(new) == 1 else getattr(self.h, '_job', None)
        self.pollable = hasattr(self.h, 'next')
        self.under = None
        if not self.pollable and self.api.startswith('imap') and self.job is not None:
            self.under = pool._cache.get(self.job)      # the handle behind a chunked-imap generator
        if consumer == 'thread':
            self.thread = threading.Thread(target=self._consume_blocking, daemon=True)
            self.thread.start()

    # -- consumers -----------------------------------------------------------
    def _one(self, getter):
        try:
            v = getter()
            self.yielded.append(['ok', H.canon(v)])
            return 'item'
        except StopIteration:
            return 'stop'
        except Exception as e:                  # noqa
            if type(e).__name__ == 'TimeoutError' and not getattr(e, 'args', None):
                return 'empty'
            self.yielded.append(['exc', H.enc_imap_exc(e)])
            return 'item'

    def _consume_blocking(self):
        limit = self.c['n'] + 3
        while len(self.yielded) <= limit:
            if self._one(lambda: next(self.h)) == 'stop':
                self.end = 'stop'
                return
        self.end = 'overrun'

    def poll(self):
        """non-blocking consumer step after an event (IMapIterator objects only)"""
        if self.consumer != 'eager' or not self.pollable or self.end:
            return
        got = 0
        while True:
            r = self._one(lambda: self.h.next(0))
            if r == 'item':
                got += 1
                if len(self.yielded) > self.c['n'] + 3:
                    self.end = 'overrun'
                    break
                continue
            if r == 'stop':
                self.end = 'stop'
            break
        return got

    def finish(self, rec):
        """everything was delivered and announced: what does the consumer get?"""
        if self.api in ('map', 'starmap'):
            out = H._value_outcome(lambda: self.h.get(0), True)
            if out[0] == 'ok':
                out.append(['cb', [[H.canon(x) for x in v] if type(v) is list else H.canon(v)
                                   for k, v in self.cbs if k == 'cb']])
            return out
        if self.consumer == 'thread':
            self.thread.join(STUCK_S)
            if self.thread.is_alive():
                self.b.stuck += 1
                return ['items', list(self.yielded), 'stuck']
            return ['items', self.yielded, self.end]
        if self.end:
            return ['items', self.yielded, self.end]
        if self.pollable:
            limit = self.c['n'] + 3
            while len(self.yielded) <= limit:
                r = self._one(lambda: self.h.next(0))
                if r == 'stop':
                    # a finished iterator stays finished
                    if self._one(lambda: self.h.next(0)) != 'stop':
                        return ['items', self.yielded, 'restarted']
                    return ['items', self.yielded, 'stop']
                if r == 'empty':
                    return ['items', self.yielded, 'incomplete']
            return ['items', self.yielded, 'overrun']
        if self.under is not None and make_nonblocking(self.under):
            limit = self.c['n'] + 3
            try:
                while len(self.yielded) <= limit:
                    if self._one(lambda: next(self.h)) == 'stop':
                        if self._one(lambda: next(self.h)) != 'stop':
                            return ['items', self.yielded, 'restarted']
                        return ['items', self.yielded, 'stop']
                return ['items', self.yielded, 'overrun']
            except _WouldBlock:
                return ['items', self.yielded, 'incomplete']
        rec.missing('non-blocking wrapper on the handle behind a chunked imap (clock-based guard used instead)')
        st, res = self.b.guard.run(lambda: H.drain_iterator(self.h, 'for', self.c['n'] + 3), STUCK_S)
        if st == 'stuck':
            self.b.stuck += 1
            return ['items', [], 'stuck']
        if st == 'err':
            raise RuntimeError('drain failed: ' + res)
        return res


def expected_parts(c):
    api = base_api(c['api'])
    if c['n'] == 0:
        return 0
    cs = eff_chunk(c)
    return int(math.ceil(c['n'] / float(cs))) if cs > 0 else 0


def run_perm_case(bench, rec, c, order, L, consumer, ack_early=False, tag=''):
    """single job; `order` = completion permutation of its parts; the length
    announcement comes after exactly L completions"""
    attrs = {'lane': 'perm', 'api': base_api(c['api']), 'chunked': eff_chunk(c) > 1}
    m = expected_parts(c)
    bench.sent = []
    bench.limit, bench.overrun = c['n'] + 8, False
    events = []
    try:
        pj = PJob(bench, c, consumer)
    except Exception:                            # noqa
        rec.violation('submission_raised', attrs, call=c, tb=traceback.format_exc()[-2500:])
        return
    blobs = {}
    state = {'delivered': 0, 'buffered': 0, 'burst': 0}

    def deliver(i):
        task = pj.tasks.get(i)
        if task is None:
            return False
        if i not in blobs:
            job, _i, blob = bench.execute(task)
            blobs[i] = blob
            if not ack_early:
                bench.ack(job, i, 7000 + i % bench.nproc)
        bench.ready(pj.job, i, blobs[i])
        events.append(i)
        state['delivered'] += 1
        got = pj.poll()
        if got is not None:
            if got == 0:
                state['buffered'] += 1
            elif got > 1:
                state['burst'] += 1
        if pj.api in ('map', 'starmap') and pj.ready_snapshot is None and pj.h.ready():
            pj.ready_snapshot = (state['delivered'], H._value_outcome(lambda: pj.h.get(0), True))
        return True

    def on_put(task):
        _t, (job, i, _f, _a, _k) = task
        if pj.job is None:
            pj.job = job
        elif job != pj.job:
            bench.confused = 'task of another job %r streamed (expected %r)' % (job, pj.job)
            return
        pj.tasks[i] = task
        if ack_early:
            bench.ack(job, i, 7000 + i % bench.nproc)
        if len(pj.tasks) == m:
            for i2 in order[:L]:
                deliver(i2)
            events.append('len')

    bench.on_put = on_put
    try:
        bench.stream()
        if m == 0:
            events.append('len')
        pj.poll()
        for i2 in order[L:]:
            deliver(i2)
        # parts the tree sent beyond the reference chunking (or never delivered)
        for i2 in sorted(pj.tasks):
            if i2 not in blobs:
                deliver(i2)
        if bench.overrun:
            rec.violation('task_stream_never_ends', attrs, call=c, tasks_streamed=len(bench.sent), inputs=c['n'])
            rec.case()
            return
        out = pj.finish(rec)
    except Exception:                            # noqa
        rec.violation('parent_side_code_raised', attrs, call=c, order=order, len_after=L, events=events,
                      tb=traceback.format_exc()[-2500:])
        return
    finally:
        bench.on_put = None
    if bench.confused:
        raise RuntimeError('harness: ' + bench.confused)
    if consumer == 'thread' and out[0] == 'items' and out[2] == 'stuck':
        # a blocked consumer that never came back is a clock-based verdict.  If the same case with a
        # consumer that never blocks is refuted logically, report that instead (no clock, no re-run)
        from vmon.core import Rec
        scratch = Rec()
        run_perm_case(bench, scratch, c, order, L, 'lazy', ack_early=ack_early)
        if scratch.violations:
            for v in scratch.violations[:2]:
                rec.violation(v['kind'], v['attrs'], blocked_consumer_also_stuck=True, **v['detail'])
            rec.case()
            if bench.stuck >= 2:
                raise AbortSpec()
            return False
    if bench.stuck >= 2 and out[0] == 'items' and out[2] == 'stuck':
        judge(rec, c, out, 'perm', extra={'completion_order': order, 'length_announced_after': L,
                                          'consumer': consumer, 'events': events})
        raise AbortSpec()
    extra = {'completion_order': order, 'length_announced_after': L, 'consumer': consumer,
             'events': events, 'parts_sent': len(pj.tasks), 'parts_expected': m}
    ok = judge(rec, c, out, 'perm', extra=extra)
    if pj.api in ('map', 'starmap') and pj.ready_snapshot is not None:
        # resolved: from then on the value is final
        at, snap = pj.ready_snapshot
        if snap[:2] != out[:2] and snap[0] != 'exc':
            rec.violation('map_resolved_before_all_chunks', attrs, call=c, order=order,
                          resolved_after_deliveries=at, snapshot=_short(snap), final=_short(out))
    if len(pj.tasks) != m and ok:
        # same results with another chunking: legal, but worth a note
        rec.count('perm:chunking_differs_from_reference')
    rec.case()
    rec.count('perm:cases')
    rec.count('perm:orders_' + pj.api)
    if m and pj.api.startswith('imap'):
        if L == 0:
            rec.count('perm:len_before_all_results')
        elif L >= m:
            rec.count('perm:len_after_all_results')
        else:
            rec.count('perm:len_in_between')
    rec.count('perm:item_buffered', state['buffered'])
    rec.count('perm:burst_release', state['burst'])
    if c.get('bad'):
        rec.count('perm:failing_part_cases')
    if consumer == 'thread':
        rec.count('perm:thread_consumer_cases')
    if m >= 2 and (order != sorted(order) or L < m):
        rec.sig([pj.api, m, attrs['chunked'], 'first' if L == 0 else 'last' if L >= m else 'mid', consumer,
                 bool(c.get('bad')), _order_class(order)])
    return ok


def _order_class(order):
    if order == sorted(order):
        return 'sorted'
    if order == sorted(order, reverse=True):
        return 'reversed'
    inv = sum(1 for i in range(len(order)) for j in range(i + 1, len(order)) if order[i] > order[j])
    tot = len(order) * (len(order) - 1) // 2
    return 'inv<1/3' if inv * 3 < tot else 'inv<2/3' if inv * 3 < 2 * tot else 'inv>=2/3'


def perm_call(kind, m, variant, bad=None, exck='tag', nproc=2):
    """a call with exactly m parts by the reference chunking"""
    c = {'cid': 'p', 'nproc': nproc, 'iseed': 11 + variant, 'types': 'mixed', 'fkind': 'echo',
         'form': ['list', 'gen', 'tuple', 'nolen'][variant % 4]}
    if kind in ('imap1', 'imapu1'):
        c.update(api='imap' if kind == 'imap1' else 'imap_unordered', n=m, chunk=[1, None][variant % 2])
    elif kind in ('imapc', 'imapuc'):
        cs = [2, 3][variant % 2]
        n = 0 if m == 0 else (m - 1) * cs + [cs, 1, max(1, cs - 1)][variant % 3]
        c.update(api='imap' if kind == 'imapc' else 'imap_unordered', n=n, chunk=cs)
    else:
        cs = [1, 2, 3, None][variant % 4]
        if cs is None:
            # default chunking: n chosen so that ceil(n / ceil(n/(4*nproc))) == m
            n = m if m <= 4 * nproc else m
            c.update(api=kind, n=n, chunk=None)
            if m and expected_parts(dict(c)) != m:
                cs = 2
        if cs is not None:
            n = 0 if m == 0 else (m - 1) * cs + [cs, 1, max(1, cs - 1)][variant % 3]
            c.update(api=kind, n=n, chunk=cs)
        if kind == 'starmap':
            c['arity'] = [2, 3, 1][variant % 3]
    if bad:
        c['bad'] = sorted({b % c['n'] for b in bad}) if c['n'] else []
        c['exck'] = exck
    return c


def run_perm_exh(spec, rec):
    H.REFERENCE = True
    kind = spec['kind']
    bench = Bench(2)
    shard = spec.get('shard')
    idx = 0
    for m in spec['ms']:
        perms = list(itertools.permutations(range(m)))
        for pi, perm in enumerate(perms):
            if shard and pi % shard[1] != shard[0]:
                continue
            order = list(perm)
            for L in range(m + 1):
                idx += 1
                consumers = ['lazy', 'eager'] if kind in ('imap1', 'imapu1') else ['lazy']
                if m <= 4 and kind.startswith('imap'):
                    consumers = consumers + ['thread']
                elif (pi + L) % 97 == 0 and kind.startswith('imap'):
                    consumers = consumers + ['thread']
                if kind in ('map', 'starmap') and L not in (0, m):
                    continue       # no length announcement for map: one pass per permutation (+ early acks)
                for consumer in consumers:
                    c = perm_call(kind, m, pi + L)
                    run_perm_case(bench, rec, c, order, L, consumer, ack_early=(L == 0 and kind in ('map', 'starmap')))
            if m == 6:
                rec.count('perm:exhaustive_orders_m6')
            # one failing variant per permutation: raising positions cycle
            if m:
                L = pi % (m + 1)
                bad = [[0], [pi], [pi, pi + 1], [m - 1 + pi % 2], list(range(12))][pi % 5]
                exck = (H.EXC_KINDS + ['stop'])[pi % (len(H.EXC_KINDS) + 1)]
                c = perm_call(kind, m, pi, bad=bad, exck=exck)
                consumer = 'eager' if kind in ('imap1', 'imapu1') and pi % 2 else 'lazy'
                run_perm_case(bench, rec, c, order, L, consumer)
    if spec['ms'] == [6]:
        rec.sample({'lane': 'perm', 'kind': kind, 'what': 'all 720 completion permutations of 6 parts x 7 announcement positions',
                    'shard': shard})


# ---- random orders beyond 6 parts, several jobs in flight -------------------

def rand_order(rng, m):
    style = rng.choice(['uniform', 'window', 'window', 'reversed', 'rotated', 'sorted', 'lastfirst'])
    o = list(range(m))
    if style == 'uniform':
        rng.shuffle(o)
    elif style == 'window':
        w = rng.choice([2, 3, 5, 8])
        for i in range(0, m, w):
            seg = o[i:i + w]
            rng.shuffle(seg)
            o[i:i + w] = seg
        if rng.random() < 0.5 and m > 2:
            # one straggler: an early part completes last
            s = o.pop(rng.randrange(0, max(1, m // 3)))
            o.append(s)
    elif style == 'reversed':
        o.reverse()
    elif style == 'rotated':
        k = rng.randrange(m) if m else 0
        o = o[k:] + o[:k]
    elif style == 'lastfirst' and m:
        o = [m - 1] + o[:-1]
    return o


def run_perm_rand(spec, rec):
    H.REFERENCE = True
    rng = rng_for(spec['seed'], 'c02perm')
    maxn = spec.get('maxn', 40)
    benches = {p: Bench(p) for p in (1, 2, 3, 4, 8)}
    for k in range(spec['cases']):
        nproc = rng.choice([1, 2, 3, 4, 8])
        bench = benches[nproc]
        if rng.random() < 0.3:
            run_multi_case(bench, rec, rng, nproc, maxn)
            rec.count('perm:random_cases')
            continue
        api = rng.choice(['map', 'starmap', 'imap', 'imap', 'imap_unordered', 'imap_unordered'])
        c = gen_call(rng, 'p', nproc, 'quick', api)
        c['lat'] = None
        if maxn > 40 and rng.random() < 0.3:
            c['n'] = rng.randrange(41, maxn + 1)
            if c.get('bad'):
                c['bad'] = [b for b in c['bad'] if b < c['n']]
        m = expected_parts(c)
        order = rand_order(rng, m)
        L = rng.choice([0, m, max(0, m - 1), rng.randrange(0, m + 1)])
        pollable = base_api(api).startswith('imap') and eff_chunk(c) == 1
        consumer = rng.choice(['lazy', 'eager', 'thread'] if pollable else
                              ['lazy', 'thread'] if api.startswith('imap') else ['lazy'])
        run_perm_case(bench, rec, c, order, L, consumer, ack_early=rng.random() < 0.3)
        rec.count('perm:random_cases')
        if m > 6:
            rec.count('perm:random_orders_beyond_6')


def run_multi_case(bench, rec, rng, nproc, maxn):
    """2-3 jobs submitted together: the task handler streams them one after
    the other while completions of all of them arrive interleaved"""
    njobs = rng.choice([2, 3])
    calls = []
    for j in range(njobs):
        api = rng.choice(['map', 'starmap', 'imap', 'imap_unordered'])
        c = gen_call(rng, 'q%d' % j, nproc, 'quick', api)
        c['lat'] = None
        c['n'] = min(c['n'], 16)
        if c.get('bad'):
            c['bad'] = [b for b in c['bad'] if b < c['n']]
        calls.append(c)
    bench.sent = []
    bench.limit, bench.overrun = sum(c['n'] for c in calls) + 8, False
    pjs = []
    for c in calls:
        pollable = base_api(c['api']).startswith('imap') and eff_chunk(c) == 1
        consumer = rng.choice(['lazy', 'eager'] if pollable else ['lazy'])
        pjs.append(PJob(bench, c, consumer))
    byjob = {pj.job: pj for pj in pjs}
    order_log = []
    pend = []            # (pj, i) put but not yet completed
    eagerness = rng.choice([0.0, 0.3, 0.7, 1.0])

    def complete(pj, i):
        task = pj.tasks[i]
        job, _i, blob = bench.execute(task)
        bench.ack(job, i, 7000 + i % nproc)
        bench.ready(job, i, blob)
        order_log.append((pj.c['cid'], i))
        pj.poll()

    def on_put_mapped(task):
        _t, (job, i, _f, _a, _k) = task
        pj = byjob.get(job)
        if pj is None:
            bench.confused = 'task of an unknown job %r streamed' % (job,)
            return
        pj.tasks[i] = task
        pend.append((pj, i))
        while pend and rng.random() < eagerness:
            complete(*pend.pop(rng.randrange(len(pend))))

    attrs = {'lane': 'perm', 'api': 'multi', 'chunked': None}
    bench.on_put = on_put_mapped
    try:
        bench.stream()
        for pj in pjs:
            pj.poll()
        if bench.overrun:
            rec.violation('task_stream_never_ends', attrs, calls=calls, tasks_streamed=len(bench.sent))
            rec.case()
            return
        while pend:
            complete(*pend.pop(rng.randrange(len(pend))))
        outs = [pj.finish(rec) for pj in pjs]
    except Exception:                            # noqa
        rec.violation('parent_side_code_raised', attrs, calls=calls, completions=order_log[-40:],
                      tb=traceback.format_exc()[-2500:])
        return
    finally:
        bench.on_put = None
    if bench.confused:
        raise RuntimeError('harness: ' + bench.confused)
    for pj, out in zip(pjs, outs):
        judge(rec, pj.c, out, 'perm', extra={'multi_job': True, 'jobs': [c['api'] for c in calls],
                                             'completions': order_log[:80]})
    if bench.stuck >= 2:
        raise AbortSpec()
    rec.case()
    rec.count('perm:cases')
    rec.count('perm:multi_job_cases')
    rec.sig(['multi', sorted(base_api(c['api']) for c in calls), eagerness,
             sorted(bool(c.get('bad')) for c in calls)])


# --------------------------------------------------------------------------

def run_spec(spec, rec):
    import faulthandler
    faulthandler.dump_traceback_later(SPEC_TIMEOUT - 30, exit=False)
    try:
        if spec['lane'] == 'real':
            for seed, idx in zip(spec['seeds'], spec['idxs']):
                if not run_real(dict(spec, seed=seed, idx=idx), rec):
                    rec.note('REAL spec stopped after a hung / dead host')
                    break
                rec.flush()
        elif spec['mode'] == 'exh':
            run_perm_exh(spec, rec)
        else:
            run_perm_rand(spec, rec)
    except AbortSpec:
        rec.note('PERM spec stopped after two stuck consumers')
