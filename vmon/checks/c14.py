"""C14 - the shared-memory heap never hands out overlapping or misplaced
memory.  Lane L0: the real billiard.heap.Heap / BufferWrapper driven by seeded
malloc/free sequences (single thread, many threads, frees arriving while the
heap lock is held: from racing threads and from gc.collect() injected *inside*
malloc with sys.monitoring).  Oracles: a structural walk under the heap's own
lock (tiling, coalescing, index agreement, alignment, bounds, disjointness)
and a content shadow (every live block holds a unique byte pattern)."""
import bisect
import gc
import mmap
import os
import random
import sys
import threading
import time

from vmon.core import rng_for

PROPERTY = 'C14'
LEVEL = 'exploration'
TECHNIQUE = 'runtime monitoring: structural invariant walk under the heap\'s own lock + content shadow, with frees injected inside malloc by a sys.monitoring failpoint (gc.collect) and by racing threads'
RULE = ('seeded malloc/free histories on fresh Heap(size) instances and on the '
        'global BufferWrapper heap; a case is one history; its signature is '
        '(mode, heap size class, free policy, bucketed counts of arena growths, '
        'left/right/both coalesces, deferred frees, exact-fit reuses); a case is '
        'non-trivial when it had at least one coalesce and one reuse of freed space')
ASSUMPTIONS = [
    'CPython mmap/ctypes are trusted; billiard arithmetic (offsets inside a valid mapping) is what is checked',
    'thread interleavings are sampled (switch interval 1e-5 s, 2-8 threads), not enumerated',
]
FLOORS = {
    'quick': {'malloc': 50000, 'free': 30000, 'walks': 500, 'arena_growth': 20,
              'coalesce_left': 100, 'coalesce_right': 100, 'coalesce_both': 50,
              'deferred_free': 20, 'gc_inside_malloc': 20, 'content_checks': 30000,
              'reuse_exact_fit': 50, 'mt_histories': 4},
    'thorough': {'malloc': 500000, 'free': 300000, 'walks': 5000,
                 'arena_growth': 100, 'coalesce_both': 500, 'deferred_free': 200,
                 'gc_inside_malloc': 200, 'mt_histories': 20},
}
JOBS = 14
SPEC_TIMEOUT = 300
PAGE = mmap.PAGESIZE


def plan(tier, seed):
    specs = []
    n_seq = 12 if tier == 'quick' else 60
    n_mt = 6 if tier == 'quick' else 30
    n_gc = 4 if tier == 'quick' else 16
    hist = 12 if tier == 'quick' else 30
    for i in range(n_seq):
        specs.append({'mode': 'seq', 'seed': seed * 1000 + i, 'histories': hist,
                      'ops': 1500 if tier == 'quick' else 4000})
    for i in range(n_mt):
        specs.append({'mode': 'mt', 'seed': seed * 1000 + 100 + i,
                      'threads': 2 + (i % 7), 'histories': 2,
                      'ops': 2500 if tier == 'quick' else 6000})
    for i in range(n_gc):
        specs.append({'mode': 'gc', 'seed': seed * 1000 + 200 + i,
                      'histories': 3, 'ops': 400 if tier == 'quick' else 1200})
    specs.append({'mode': 'global', 'seed': seed * 1000 + 300, 'histories': 4,
                  'ops': 1500 if tier == 'quick' else 6000})
    return specs


# --------------------------------------------------------------------------

class CountingList(list):
    """stands in for Heap._pending_free_blocks to count deferred frees"""
    appended = 0

    def append(self, x):
        self.appended += 1
        list.append(self, x)


class Monitor:
    def __init__(self, heap, rec, attrs, mt=False):
        self.heap, self.rec, self.attrs, self.mt = heap, rec, attrs, mt
        self.lock = threading.Lock()
        self.live = {}            # block -> (size, pattern byte seed)
        self.by_arena = {}        # id(arena) -> sorted list of (start, stop)
        self.counter = 0
        self.stats = dict(growth=0, cl=0, cr=0, cb=0, reuse=0, exact=0)
        try:
            heap._pending_free_blocks = CountingList(heap._pending_free_blocks)
        except AttributeError:
            rec.missing('Heap._pending_free_blocks')
        self._wrap_internal()

    # instrument _malloc/_free on the *instance* (record + re-dispatch; they
    # run under the heap's own lock)
    def _wrap_internal(self):
        heap, st, rec = self.heap, self.stats, self.rec
        try:
            orig_malloc = heap._malloc
            orig_free = heap._free
        except AttributeError:
            rec.missing('Heap._malloc/_free')
            return

        def _malloc(size):
            try:
                biggest = heap._lengths[-1] if heap._lengths else -1
                n_ar = len(heap._arenas)
                exact = size in heap._len_to_seq
            except Exception:
                return orig_malloc(size)
            blk = orig_malloc(size)
            try:
                if len(heap._arenas) > n_ar:
                    st['growth'] += 1
                    if biggest >= size:
                        rec.violation(
                            'arena_mapped_while_free_extent_fits', self.attrs,
                            request=size, biggest_free=biggest,
                            arenas=len(heap._arenas))
                else:
                    st['reuse'] += 1
                    if exact:
                        st['exact'] += 1
                        if blk[2] - blk[1] != size:
                            rec.violation('not_best_fit', self.attrs,
                                          request=size, got=blk[2] - blk[1])
            except Exception:
                pass
            return blk

        def _free(block):
            try:
                (arena, start, stop) = block
                left = (arena, start) in heap._stop_to_block
                right = (arena, stop) in heap._start_to_block
                if left and right:
                    st['cb'] += 1
                elif left:
                    st['cl'] += 1
                elif right:
                    st['cr'] += 1
            except Exception:
                pass
            return orig_free(block)
        heap._malloc = _malloc
        heap._free = _free

    # -- boundary oracle ----------------------------------------------------
    def on_malloc(self, size, block, write=True):
        rec = self.rec
        try:
            arena, start, stop = block
        except Exception:
            rec.violation('malloc_bad_return', self.attrs, size=size, block=repr(block))
            return None
        bad = []
        if stop - start < size:
            bad.append('shorter_than_requested')
        if start % 8:
            bad.append('misaligned')
        if not (0 <= start < stop <= arena.size) or arena.size != len(arena.buffer):
            bad.append('outside_arena')
        with self.lock:
            lst = self.by_arena.setdefault(id(arena), [])
            i = bisect.bisect_left(lst, (start, stop))
            if i > 0 and lst[i - 1][1] > start:
                bad.append('overlaps_live_block')
            if i < len(lst) and lst[i][0] < stop:
                bad.append('overlaps_live_block')
            lst.insert(i, (start, stop))
            self.counter += 1
            pat = self.counter
            self.live[block] = (size, pat)
        for b in bad:
            rec.violation(b, self.attrs, size=size, start=start, stop=stop,
                          arena_size=arena.size)
        if write and 'outside_arena' not in bad:
            # fill the *whole* block the heap said is ours
            arena.buffer[start:stop] = _pattern(pat, stop - start)
        rec.count('malloc')
        return block

    def before_free(self, block):
        """verify content, then forget the block (it stops being live the
        moment the harness hands it back)"""
        arena, start, stop = block
        with self.lock:
            size, pat = self.live.pop(block)
            lst = self.by_arena[id(arena)]
            i = bisect.bisect_left(lst, (start, stop))
            del lst[i]
        self._check_content(block, pat)
        self.rec.count('free')

    def _check_content(self, block, pat):
        arena, start, stop = block
        self.rec.count('content_checks')
        got = bytes(arena.buffer[start:stop])
        if got != _pattern(pat, stop - start):
            want = _pattern(pat, stop - start)
            off = next(i for i in range(len(got)) if got[i] != want[i])
            self.rec.violation('content_clobbered', self.attrs, start=start,
                               stop=stop, first_bad_offset=off)

    def check_all_content(self):
        with self.lock:
            items = list(self.live.items())
        for block, (size, pat) in items:
            with self.lock:
                if block not in self.live:
                    continue
            self._check_content(block, pat)

    # -- structural walk under the heap's own lock ----------------------------
    def walk(self, quiescent):
        heap, rec, A = self.heap, self.rec, self.attrs
        with heap._lock:
            rec.count('walks')
            try:
                free_blocks = [b for seq in heap._len_to_seq.values() for b in seq]
                lengths = list(heap._lengths)
                allocated = set(heap._allocated_blocks)
                pending = list(heap._pending_free_blocks)
                arenas = list(heap._arenas)
                s2b = dict(heap._start_to_block)
                e2b = dict(heap._stop_to_block)
                l2s = {k: list(v) for k, v in heap._len_to_seq.items()}
            except AttributeError as exc:
                rec.missing('heap internals: %s' % exc)
                return
            with self.lock:
                shadow = set(self.live)
            # index agreement
            if lengths != sorted(l2s):
                rec.violation('index_disagreement', A, what='_lengths vs _len_to_seq',
                              lengths=lengths[:20], keys=sorted(l2s)[:20])
            for ln, seq in l2s.items():
                if not seq:
                    rec.violation('index_disagreement', A, what='empty seq kept', length=ln)
                for (a, s, e) in seq:
                    if e - s != ln:
                        rec.violation('index_disagreement', A, what='block under wrong length',
                                      length=ln, block=(s, e))
            if set(s2b.values()) != set(free_blocks) or set(e2b.values()) != set(free_blocks) \
                    or any(k != (b[0], b[1]) for k, b in s2b.items()) \
                    or any(k != (b[0], b[2]) for k, b in e2b.items()) \
                    or len(free_blocks) != len(set(free_blocks)):
                rec.violation('index_disagreement', A, what='start/stop maps vs free list',
                              n_free=len(free_blocks), n_start=len(s2b), n_stop=len(e2b))
            # shadow vs the heap's own idea of what is allocated
            if not shadow <= allocated:
                rec.violation('live_block_not_recorded_allocated', A,
                              missing=[(b[1], b[2]) for b in list(shadow - allocated)[:5]])
            if quiescent and allocated != shadow | set(pending):
                rec.violation('allocated_set_disagrees_with_history', A,
                              extra=[(b[1], b[2]) for b in list(allocated - shadow - set(pending))[:5]])
            # tiling per arena: allocated U free must exactly tile [0, size)
            per = {}
            for b in allocated:
                per.setdefault(id(b[0]), []).append((b[1], b[2], 'L'))
            for b in free_blocks:
                per.setdefault(id(b[0]), []).append((b[1], b[2], 'F'))
            for a in arenas:
                segs = sorted(per.pop(id(a), []))
                pos, prev = 0, None
                for (s, e, kind) in segs:
                    if s != pos:
                        rec.violation('arena_not_tiled', A, at=pos, next_start=s,
                                      kind='gap' if s > pos else 'overlap',
                                      arena_size=a.size)
                        break
                    if e <= s or s % 8 or e % 8:
                        rec.violation('bad_block_geometry', A, block=(s, e, kind))
                    if kind == 'F' and prev == 'F':
                        rec.violation('adjacent_free_blocks', A, at=s, arena_size=a.size)
                    pos, prev = e, kind
                else:
                    if pos != a.size:
                        rec.violation('arena_not_tiled', A, at=pos, next_start=a.size,
                                      kind='tail', arena_size=a.size)
            if per:
                rec.violation('block_in_unknown_arena', A, n=len(per))
        return True


def _pattern(pat, n):
    unit = (pat * 2654435761 % (1 << 64)).to_bytes(8, 'little')
    return (unit * (n // 8 + 1))[:n]


SIZES = [0, 1, 7, 8, 9, 15, 16, 17, 24, 63, 64, 65, 100, 255, 256, 1000,
         PAGE - 8, PAGE - 1, PAGE, PAGE + 1, 2 * PAGE, 3 * PAGE + 5, 4 * PAGE]


def pick_size(rng, cls):
    r = rng.random()
    if cls == 'small':
        return rng.choice(SIZES[:14]) if r < 0.5 else rng.randrange(0, 300)
    if cls == 'mixed':
        if r < 0.45:
            return rng.choice(SIZES)
        if r < 0.9:
            return rng.randrange(0, 600)
        return rng.randrange(0, 4 * PAGE)
    return rng.randrange(0, 4 * PAGE) if r < 0.5 else rng.choice(SIZES)


def one_history(rec, rng, mode, ops, heap=None, tag=''):
    from billiard import heap as bheap
    hs = rng.choice([PAGE, PAGE, 2 * PAGE, 16 * PAGE, 512, 64])
    cls = rng.choice(['small', 'mixed', 'large'])
    policy = rng.choice(['random', 'lifo', 'fifo', 'burst', 'frag'])
    attrs = {'mode': mode, 'policy': policy}
    if heap is None:
        heap = bheap.Heap(hs)
    mon = Monitor(heap, rec, attrs)
    held = []
    walk_every = rng.choice([20, 50, 100])
    try:
        for step in range(ops):
            do_free = False
            if policy == 'burst':
                phase = (step // 60) % 2
                do_free = bool(held) and (phase == 1 or len(held) > 120)
            elif policy == 'frag':
                ph = (step // 100) % 3
                if ph == 1 and held:
                    # free every other block, then ask for large ones
                    do_free = True
                else:
                    do_free = bool(held) and rng.random() < 0.2
            else:
                do_free = bool(held) and (rng.random() < 0.48 or len(held) > 150)
            if do_free:
                if policy == 'lifo':
                    blk = held.pop()
                elif policy == 'fifo':
                    blk = held.pop(0)
                elif policy == 'frag':
                    blk = held.pop(rng.randrange(0, len(held), 2) if len(held) > 2 else 0)
                else:
                    blk = held.pop(rng.randrange(len(held)))
                mon.before_free(blk)
                heap.free(blk)
            else:
                if policy == 'frag' and (step // 100) % 3 == 2:
                    size = rng.choice([PAGE // 2, PAGE, 2 * PAGE, 700])
                else:
                    size = pick_size(rng, cls)
                blk = heap.malloc(size)
                if mon.on_malloc(size, blk) is not None:
                    held.append(blk)
            if step % walk_every == 0:
                mon.walk(quiescent=True)
        mon.check_all_content()
        for blk in held:
            mon.before_free(blk)
            heap.free(blk)
        mon.walk(quiescent=True)
        # everything freed: each arena must be one free block again
        with heap._lock:
            try:
                nfree = sum(len(s) for s in heap._len_to_seq.values())
                if nfree != len(heap._arenas) or heap._allocated_blocks:
                    rec.violation('not_fully_coalesced_after_all_frees', attrs,
                                  free_blocks=nfree, arenas=len(heap._arenas),
                                  allocated=len(heap._allocated_blocks))
            except AttributeError:
                pass
    except Exception as exc:
        import traceback
        rec.violation('heap_operation_raised', attrs, exc=repr(exc),
                      tb=traceback.format_exc()[-1500:])
    finish(rec, mon, mode, hs, policy, cls)


def finish(rec, mon, mode, hs, policy, cls, extra=None):
    st = mon.stats
    rec.case()
    rec.count('arena_growth', st['growth'])
    rec.count('coalesce_left', st['cl'])
    rec.count('coalesce_right', st['cr'])
    rec.count('coalesce_both', st['cb'])
    rec.count('reuse_exact_fit', st['exact'])
    rec.count('reuse', st['reuse'])
    deferred = getattr(getattr(mon.heap, '_pending_free_blocks', None), 'appended', 0)
    rec.count('deferred_free', deferred)

    def b(n):
        return 0 if n == 0 else (1 if n < 10 else (2 if n < 100 else 3))
    if (st['cl'] + st['cr'] + st['cb']) and st['reuse']:
        rec.sig([mode, hs, policy, cls, b(st['growth']), b(st['cl']), b(st['cr']),
                 b(st['cb']), b(deferred), b(st['exact']), extra])
    rec.sample({'mode': mode, 'heap_size': hs, 'policy': policy, 'sizes': cls,
                'stats': dict(st), 'deferred_frees': deferred})


def mt_history(rec, rng, nthreads, ops, seed):
    from billiard import heap as bheap
    hs = rng.choice([PAGE, 2 * PAGE, 512])
    attrs = {'mode': 'mt', 'threads': nthreads}
    heap = bheap.Heap(hs)
    mon = Monitor(heap, rec, attrs, mt=True)
    stop = threading.Event()
    errors = []

    def worker(k):
        r = rng_for(seed, 'w', k)
        held = []
        try:
            for step in range(ops):
                if held and (r.random() < 0.5 or len(held) > 40):
                    blk = held.pop(r.randrange(len(held)))
                    mon.before_free(blk)
                    heap.free(blk)
                else:
                    size = pick_size(r, 'mixed')
                    blk = heap.malloc(size)
                    if mon.on_malloc(size, blk) is not None:
                        held.append(blk)
            for blk in held:
                mon.before_free(blk)
                heap.free(blk)
        except Exception as exc:
            import traceback
            errors.append((repr(exc), traceback.format_exc()[-1200:]))

    def freer():
        # a thread that only frees, in a tight loop, blocks it allocated in
        # bursts: maximises frees that find the lock taken
        r = rng_for(seed, 'freer')
        try:
            while not stop.is_set():
                blks = []
                for _ in range(20):
                    size = r.randrange(0, 200)
                    b = heap.malloc(size)
                    if mon.on_malloc(size, b) is not None:
                        blks.append(b)
                for b in blks:
                    mon.before_free(b)
                    heap.free(b)
        except Exception as exc:
            import traceback
            errors.append((repr(exc), traceback.format_exc()[-1200:]))

    def walker():
        while not stop.is_set():
            mon.walk(quiescent=False)
            time.sleep(0.002)

    old = sys.getswitchinterval()
    sys.setswitchinterval(1e-5)
    try:
        ths = [threading.Thread(target=worker, args=(k,)) for k in range(nthreads)]
        aux = [threading.Thread(target=freer), threading.Thread(target=walker)]
        for t in ths + aux:
            t.start()
        for t in ths:
            t.join()
        stop.set()
        for t in aux:
            t.join()
    finally:
        sys.setswitchinterval(old)
    for e, tb in errors:
        rec.violation('heap_operation_raised', attrs, exc=e, tb=tb)
    # flush pending frees, then quiescent walk
    try:
        b = heap.malloc(1)
        mon.on_malloc(1, b)
        mon.before_free(b)
        heap.free(b)
        if len(heap._pending_free_blocks):
            rec.violation('pending_free_never_applied', attrs,
                          n=len(heap._pending_free_blocks))
        mon.walk(quiescent=True)
        with heap._lock:
            nfree = sum(len(s) for s in heap._len_to_seq.values())
            if nfree != len(heap._arenas) or heap._allocated_blocks:
                rec.violation('not_fully_coalesced_after_all_frees', attrs,
                              free_blocks=nfree, arenas=len(heap._arenas),
                              allocated=len(heap._allocated_blocks))
    except Exception as exc:
        import traceback
        rec.violation('heap_operation_raised', attrs, exc=repr(exc),
                      tb=traceback.format_exc()[-1200:])
    rec.count('mt_histories')
    finish(rec, mon, 'mt', hs, 'random', 'mixed', extra=nthreads)


class Owner:
    """cyclic garbage owning a heap block; its finaliser frees the block, as
    BufferWrapper's Finalize does"""
    def __init__(self, heap, mon, block):
        self.me = self
        self.heap, self.mon, self.block = heap, mon, block

    def __del__(self):
        try:
            self.mon.before_free(self.block)
            self.heap.free(self.block)
        except Exception as exc:     # surfaced by the harness
            self.mon.rec.violation('heap_operation_raised', self.mon.attrs,
                                   exc=repr(exc), where='gc free')


def gc_history(rec, rng, ops):
    """gc.collect() on cyclic garbage owning blocks, *inside* Heap.malloc while
    it holds the lock (sys.monitoring LINE failpoint scoped to malloc)."""
    from billiard import heap as bheap
    hs = rng.choice([PAGE, 512])
    attrs = {'mode': 'gc'}
    heap = bheap.Heap(hs)
    mon = Monitor(heap, rec, attrs)
    M = sys.monitoring
    TOOL = 3
    # every function that runs with the heap's lock held
    codes = [getattr(bheap.Heap, n).__code__
             for n in ('malloc', 'free', '_malloc', '_free', '_free_pending_blocks')
             if hasattr(getattr(bheap.Heap, n, None), '__code__')]
    fired = [0]
    busy = [False]
    garbage = [0]
    where = {}
    rng2 = random.Random(rng.random())

    def on_line(c, line):
        if busy[0] or not garbage[0] or rng2.random() > 0.3:
            return
        fr = sys._getframe(1)
        h = fr.f_locals.get('self')
        if h is heap and h._lock.locked():
            busy[0] = True
            try:
                garbage[0] = 0
                n = gc.collect()
                if n:
                    fired[0] += 1
                    where[c.co_name] = where.get(c.co_name, 0) + 1
            finally:
                busy[0] = False
    gc.disable()
    M.use_tool_id(TOOL, 'vmon-c14')
    M.register_callback(TOOL, M.events.LINE, on_line)
    def arm(on):
        for c in codes:
            M.set_local_events(TOOL, c, M.events.LINE if on else 0)
    arm(True)
    held = []
    try:
        for step in range(ops):
            r = rng.random()
            if r < 0.45:
                size = pick_size(rng, 'mixed')
                # garbage: a block owned by an unreachable cycle
                b = heap.malloc(size)
                if mon.on_malloc(size, b) is not None:
                    Owner(heap, mon, b)
                    garbage[0] += 1
            elif r < 0.8 or not held:
                size = pick_size(rng, 'mixed')
                b = heap.malloc(size)
                if mon.on_malloc(size, b) is not None:
                    held.append(b)
            else:
                b = held.pop(rng.randrange(len(held)))
                mon.before_free(b)
                heap.free(b)
            if step % 25 == 0:
                arm(False)
                mon.walk(quiescent=False)
                arm(True)
    except Exception as exc:
        import traceback
        rec.violation('heap_operation_raised', attrs, exc=repr(exc),
                      tb=traceback.format_exc()[-1500:])
    finally:
        arm(False)
        M.register_callback(TOOL, M.events.LINE, None)
        M.free_tool_id(TOOL)
        gc.enable()
    try:
        gc.collect()
        for b in held:
            mon.before_free(b)
            heap.free(b)
        b = heap.malloc(1)
        mon.on_malloc(1, b)
        mon.before_free(b)
        heap.free(b)
        if len(heap._pending_free_blocks):
            rec.violation('pending_free_never_applied', attrs,
                          n=len(heap._pending_free_blocks))
        mon.walk(quiescent=True)
        with heap._lock:
            nfree = sum(len(s) for s in heap._len_to_seq.values())
            if nfree != len(heap._arenas) or heap._allocated_blocks:
                rec.violation('not_fully_coalesced_after_all_frees', attrs,
                              free_blocks=nfree, arenas=len(heap._arenas),
                              allocated=len(heap._allocated_blocks))
    except Exception as exc:
        import traceback
        rec.violation('heap_operation_raised', attrs, exc=repr(exc),
                      tb=traceback.format_exc()[-1500:])
    rec.count('gc_inside_malloc', fired[0])
    for name, n in where.items():
        rec.count('gc_inside:' + name, n)
    finish(rec, mon, 'gc', hs, 'gc', 'mixed')


def global_history(rec, rng, ops):
    """BufferWrapper on the process-global heap: views handed to users must be
    disjoint and keep their content."""
    from billiard import heap as bheap
    attrs = {'mode': 'global'}
    heap = bheap.BufferWrapper._heap
    mon = Monitor(heap, rec, attrs)
    held = []
    n = [0]
    try:
        for step in range(ops):
            if held and (rng.random() < 0.5 or len(held) > 100):
                w, size, pat = held.pop(rng.randrange(len(held)))
                mv = w.create_memoryview()
                rec.count('content_checks')
                if bytes(mv) != _pattern(pat, size):
                    rec.violation('content_clobbered', attrs, size=size, via='BufferWrapper')
                del mv, w          # Finalize -> heap.free
                rec.count('free')
            else:
                size = pick_size(rng, 'mixed')
                w = bheap.BufferWrapper(size)
                n[0] += 1
                mv = w.create_memoryview()
                if len(mv) != size or w.get_size() != size:
                    rec.violation('wrapper_size_mismatch', attrs, size=size, got=len(mv))
                (arena, start, stop), _sz = w._state
                if start % 8 or stop - start < size or not (0 <= start <= stop <= arena.size):
                    rec.violation('misplaced_block', attrs, start=start, stop=stop, size=size)
                mv[:] = _pattern(n[0], size)
                held.append((w, size, n[0]))
                rec.count('malloc')
            if step % 50 == 0:
                # overlap among wrappers currently held, by address
                spans = sorted((w._state[0][0].buffer and id(w._state[0][0]), w._state[0][1],
                                w._state[0][1] + s) for w, s, _p in held)
                for a, b in zip(spans, spans[1:]):
                    if a[0] == b[0] and a[2] > b[1]:
                        rec.violation('overlaps_live_block', attrs, a=a[1:], b=b[1:])
                mon.walk(quiescent=False)
        for w, size, pat in held:
            rec.count('content_checks')
            if bytes(w.create_memoryview()) != _pattern(pat, size):
                rec.violation('content_clobbered', attrs, size=size, via='BufferWrapper')
        held.clear()
        gc.collect()
        mon.walk(quiescent=False)
    except Exception as exc:
        import traceback
        rec.violation('heap_operation_raised', attrs, exc=repr(exc),
                      tb=traceback.format_exc()[-1500:])
    finish(rec, mon, 'global', 0, 'random', 'mixed')


def run_spec(spec, rec):
    rng = rng_for(spec['seed'], spec['mode'])
    for h in range(spec['histories']):
        if spec['mode'] == 'seq':
            one_history(rec, rng, 'seq', spec['ops'])
        elif spec['mode'] == 'mt':
            mt_history(rec, rng, spec['threads'], spec['ops'], spec['seed'] * 10 + h)
        elif spec['mode'] == 'gc':
            gc_history(rec, rng, spec['ops'])
        elif spec['mode'] == 'global':
            global_history(rec, rng, spec['ops'])
