"""C09 - pool keeps its size; workers are recycled on schedule without harm.
Lane SIM: after every supervision pass the number of live workers equals the
target (as adjusted by grow/shrink), no worker is created at or above it,
slot indices distinct; the consumed-result counter each worker waits on before
a recycle exit is credited for exactly its own results; no job lost/failed
because a worker recycled.  Lanes REAL / L3 (vmon.real_c09): per-pid execution
counts under a quota, exit statuses, latency, memory-limit exits.  Long chunked map / imap jobs on a recycling pool still running long after the workers that answered their first chunks left on schedule."""
from vmon import simcheck

PROPERTY = 'C09'
LEVEL = 'exploration'
TECHNIQUE = 'runtime monitoring: invariants at the supervision hook (size, creation-below-target, distinct indices, consumed counters) over seeded exit/grow/shrink histories + per-pid execution accounting on real pools'
RULE = ('SIM: one case = one seeded history with exits of every status, grow/shrink, quotas; non-trivial = at least one supervision pass '
        'reaped a worker AND (a recycle exit or grow/shrink happened). REAL: one case = one (quota, pool size, job mix) scenario')
ASSUMPTIONS = ['shrink() is not issued while an earlier shrink victim is still exiting (it would pick the same process again; see DESIGN)']
JOBS = 14
SPEC_TIMEOUT = 900
CONFIRM_ALONE = ('jobs_held_up_by_recycling', 'pool_hung_while_recycling', 'pool_size_not_restored',
                 'job_failed_after_idle_worker_died')
FLOORS = {
    'quick': {'real:grow_shrink_scenarios': 2, 'sim:size_checks': 5000, 'sim:supervise_with_exits': 1000, 'sim:exit:recycle': 150,
              'sim:grow': 60, 'sim:shrink': 30, 'sim:counter_credit_checked': 2000},
    'thorough': {'sim:size_checks': 50000, 'sim:exit:recycle': 1500, 'sim:grow': 600},
}


def nontrivial(sim):
    st = sim.stats
    return bool(st.get('supervise_with_exits')) and \
        bool(st.get('exit:recycle') or st.get('grow') or st.get('shrink'))


def plan(tier, seed):
    per, hist = (3, 70) if tier == 'quick' else (10, 220)
    specs = simcheck.sim_specs(['c09', 'c09', 'c04', 'c01'], seed, per, hist, base=90000)
    # a few worker-in-isolation lifetimes (quota, late crediting of consumed results)
    specs += [{'lane': 'iso', 'method': 'fork', 'seed': seed * 777 + k, 'lifetimes': 6,
               'timeout': 200} for k in range(4 if tier == 'quick' else 16)]
    try:
        from vmon import real_c09
        specs += real_c09.plan(tier, seed)
    except ImportError:
        pass
    return specs


ISO_KINDS = ('exit_before_results_consumed', 'quota_exit_wrong_count', 'recycle_status_wrong',
             'quota_exceeded', 'job_taken_after_quota', 'worker_exit_status_mismatch')


def run_spec(spec, rec):
    if spec.get('lane') == 'sim':
        return simcheck.run_sim_spec(spec, rec, PROPERTY, nontrivial)
    if spec.get('lane') == 'iso':
        # lane L3 (worker in isolation, the harness is the parent): shared with
        # C03; here only the quota / recycle-status / "exit waits until the
        # parent consumed the results" oracles count
        from vmon.checks import c03
        n0 = len(rec.violations)
        c03.run_iso_spec(spec, rec)
        kept = [v for v in rec.violations[n0:] if v['kind'] in ISO_KINDS]
        rec.count('iso:violations_of_other_properties', len(rec.violations) - n0 - len(kept))
        rec.violations[n0:] = kept
        return
    from vmon import real_c09
    return real_c09.run_spec(spec, rec)
