"""C18 - connection authentication is mutual and exact.

Lane L0 (threads; AF_UNIX and AF_INET loopback).  Four kinds of spec:

pairs            real Listener.accept() against real Client() for generated key
                 pairs (equal, every single-bit difference of short keys,
                 proper prefixes, zero-padded / MD5-equivalent keys, very long
                 keys), every connection relayed through a byte-recording
                 proxy of the harness, so the six handshake messages are seen.
hostile_client   a scripted raw-socket client against a real Listener: at each
                 protocol step it sends a wrong / truncated / over-long /
                 one-bit-off digest, a digest under another key, a digest
                 replayed from an earlier connection, WELCOME/FAILURE out of
                 turn, the challenge echoed back, an empty or > 256 byte frame,
                 a torn frame, an early close; or behaves as a *reference* peer
                 with unusual challenge values.
hostile_listener the mirror image against a real Client().
silent           a peer that says nothing at the digest step for longer than
                 CONNECTION_TIMEOUT (raw client against a real Listener, raw
                 key-less listener against a real Client): never welcomed.
                 (pairs also re-use a Listener after it turned a peer away.)
types/authstring non-bytes keys must give TypeError and never be used;
                 AuthenticationString must refuse pickling outside process
                 spawning (also while another thread is spawning) and arrive
                 intact in real spawn/fork/forkserver children, which then
                 authenticate to the parent with the inherited key.

Oracles: the harness computes HMAC-MD5 itself (reference model); "the real
side returned a connection  =>  on *this* connection the peer presented the
correct digest for the real side's challenge and the real side was sent
WELCOME for its own digest"; equal keys (after HMAC's own key normalisation)
<=> both sides return a usable connection, otherwise both raise
AuthenticationError; the set of challenges produced by the real code has no
repeats and looks random."""
import hashlib
import hmac as _hmac
import os
import pickle
import queue
import select
import socket
import struct
import threading
import time
import traceback

from vmon.core import rng_for

PROPERTY = 'C18'
LEVEL = 'exploration'
TECHNIQUE = ('runtime monitoring: real Listener/Client handshakes against each other through a '
             'recording proxy and against scripted hostile/reference peers; HMAC-MD5 reference '
             'model, return-implies-proof oracle, challenge-set cardinality')
RULE = ('a case is one connection attempt (one handshake history); key pairs and hostile scripts '
        'are generated from the seed; the signature of a case is (mode, family, key relation or '
        'script step names, key-length bucket, what the real side did, verdict bytes seen on the '
        'wire); a case is non-trivial when the real side reached a decision (returned or raised) '
        'after at least one handshake message of the real code was observed on the wire')
ASSUMPTIONS = [
    "Python's hmac/hashlib are trusted as the reference for HMAC-MD5",
    'keys are compared after HMAC key normalisation (zero padding to 64 B, MD5 of keys > 64 B): '
    'such pairs are the same MAC key by RFC 2104 and their success is not counted against billiard',
    'a hostile peer that obtains the correct digest through another live connection of the victim '
    '(reflection/relay) presents the correct digest and is outside the property as worded',
    'challenge randomness is only screened (no repeats, bit balance, per-byte spread), not proven',
    'AF_PIPE (Windows) is not exercised',
]
FLOORS = {
    'quick': {
        'handshakes': 800, 'silent_peer_cases': 2, 'pairs_on_listener_that_rejected_a_peer': 60,
        'pairs_same_both_returned': 30, 'pairs_equivalent_both_returned': 8,
        'pairs_diff_both_autherror': 250, 'onebit_short_pairs': 120, 'prefix_pairs': 20,
        'long_key_pairs': 20, 'wire_verified_handshakes': 300, 'usable_roundtrips': 150,
        'hostile_client_cases': 200, 'hostile_listener_cases': 200,
        'hostile_refused': 300, 'reference_peer_accepted': 60,
        'challenges_observed': 800, 'replay_attempts': 8, 'bitflip_attempts': 20,
        'failure_seen_for_bad_response': 150,
        'nonbytes_key_typeerror': 12, 'authstring_pickle_refused': 100,
        'authstring_child_authenticated': 4, 'pickle_attempts_inside_spawn_window': 3,
        'spawn_windows_entered': 3,
    },
    'thorough': {
        'handshakes': 10000, 'pairs_same_both_returned': 400,
        'pairs_equivalent_both_returned': 400, 'pairs_diff_both_autherror': 1900,
        'onebit_short_pairs': 600, 'prefix_pairs': 400, 'long_key_pairs': 1300,
        'wire_verified_handshakes': 2700, 'usable_roundtrips': 2000,
        'hostile_client_cases': 3700, 'hostile_listener_cases': 3700,
        'hostile_refused': 6000, 'reference_peer_accepted': 1200,
        'challenges_observed': 9000, 'replay_attempts': 200, 'bitflip_attempts': 200,
        'failure_seen_for_bad_response': 2800,
        'nonbytes_key_typeerror': 12, 'authstring_pickle_refused': 400,
        'authstring_child_authenticated': 8, 'pickle_attempts_inside_spawn_window': 6,
        'spawn_windows_entered': 6,
    },
}
JOBS = 12
SPEC_TIMEOUT = 400
CONFIRM_ALONE = ('handshake_hung',)

# wire constants of the protocol (the harness' own copy: it is a reference peer)
CH = b'#CHALLENGE#'
WELCOME = b'#WELCOME#'
FAILURE = b'#FAILURE#'

T_IO = 40.0        # harness-side wait for the real code (very generous)
T_FIRST = 20.0     # wait for the real side's first message
T_GRACE = 3.0      # hostile scripts: wait before half-closing
MAX_HANGS = 2      # after that many hangs a spec stops (violation already recorded)


# --------------------------------------------------------------------------
# plan
# --------------------------------------------------------------------------

def plan(tier, seed):
    specs = []
    q = tier == 'quick'
    i = 0
    for fam in ('AF_UNIX', 'AF_INET'):
        for part in range(4 if q else 16):
            specs.append({'mode': 'pairs', 'family': fam, 'part': part,
                          'seed': seed * 1000 + i, 'extra': 45 if q else 200})
            i += 1
        for role in ('client', 'listener'):
            for part in range(2 if q else 8):
                specs.append({'mode': 'hostile', 'role': role, 'family': fam,
                              'part': part, 'seed': seed * 1000 + i,
                              'nkeys': 3 if q else 10})
                i += 1
    specs.append({'mode': 'types', 'seed': seed * 1000 + i})
    i += 1
    for fam in (('AF_UNIX',) if q else ('AF_UNIX', 'AF_INET')):
        specs.insert(0, {'mode': 'silent', 'family': fam, 'seed': seed * 1000 + i})
        i += 1
    for part in range(2 if q else 6):
        specs.append({'mode': 'authstring', 'seed': seed * 1000 + i, 'part': part,
                      'nkeys': 10 if q else 20})
        i += 1
    return specs


# --------------------------------------------------------------------------
# reference model
# --------------------------------------------------------------------------

def ref_digest(key, message):
    return _hmac.new(bytes(key), bytes(message), 'md5').digest()


def norm_key(k):
    """HMAC's own key normalisation (block size of MD5 = 64)."""
    k = bytes(k)
    if len(k) > 64:
        k = hashlib.md5(k).digest()
    return k.ljust(64, b'\0')


def same_key(a, b):
    return norm_key(a) == norm_key(b)


def flip_bit(k, bit):
    b = bytearray(k)
    b[bit // 8] ^= 1 << (bit % 8)
    return bytes(b)


def lbucket(n):
    for lim, name in ((1, '1'), (4, '2-4'), (16, '5-16'), (63, '17-63'), (64, '64'),
                      (65, '65'), (256, '66-256'), (4096, '257-4K')):
        if n <= lim:
            return name
    return '>4K'


# --------------------------------------------------------------------------
# plumbing
# --------------------------------------------------------------------------

class Call(threading.Thread):
    """Runs one call of the real code in a thread and keeps only what it
    did (no reference to the exception or its frames survives, so a
    connection the real code dropped is really closed)."""

    def __init__(self, fn):
        threading.Thread.__init__(self, daemon=True)
        self.fn = fn
        self.done = threading.Event()
        self.conn = None
        self.exc = None
        self.is_auth = False
        self.msg = ''
        self.tb = ''

    def run(self):
        from billiard import AuthenticationError
        try:
            self.conn = self.fn()
        except BaseException as e:      # the code under test may raise anything
            self.exc = type(e).__name__
            self.is_auth = isinstance(e, AuthenticationError)
            self.msg = str(e)[:200]
            self.tb = traceback.format_exc()[-1500:]
        finally:
            self.fn = None
            self.done.set()

    def outcome(self):
        if not self.done.is_set():
            return 'hung'
        return 'returned' if self.conn is not None else 'raised:%s' % self.exc


class FrameReader:
    """Reads length-prefixed frames from a raw socket; gives up early when the
    real side's call has finished and nothing more is in flight."""

    def __init__(self, sock, stop=None):
        self.s = sock
        self.stop = stop
        self.buf = b''
        self.eof = False
        self.reset = False

    def _parse(self):
        if len(self.buf) < 4:
            return None
        n, = struct.unpack('!i', self.buf[:4])
        if n < 0 or n > (1 << 24):
            return None
        if len(self.buf) < 4 + n:
            return None
        fr = self.buf[4:4 + n]
        self.buf = self.buf[4 + n:]
        return fr

    def read(self, timeout=T_IO):
        deadline = time.monotonic() + timeout
        final_pass = False
        while True:
            fr = self._parse()
            if fr is not None:
                return 'frame', fr
            if self.eof:
                return 'eof', self.buf
            if self.reset:
                return 'reset', b''
            if final_pass:
                return 'stopped', b''
            if self.stop is not None and self.stop.is_set():
                final_pass = True
                wait = 0
            else:
                wait = min(0.05, deadline - time.monotonic())
                if wait <= 0:
                    return 'timeout', b''
            try:
                r, _w, _x = select.select([self.s], [], [], wait)
            except (OSError, ValueError):
                self.reset = True
                continue
            if r:
                try:
                    d = self.s.recv(65536)
                except OSError:
                    self.reset = True
                    continue
                if not d:
                    self.eof = True
                else:
                    self.buf += d
                    final_pass = False


def frame(payload):
    return struct.pack('!i', len(payload)) + payload


def send_ops(s, ops, log):
    """ops: ('frame', payload) | ('raw', bytes) | ('shut_wr',)"""
    for op in ops:
        try:
            if op[0] == 'frame':
                s.sendall(frame(op[1]))
            elif op[0] == 'raw':
                s.sendall(op[1])
            elif op[0] == 'shut_wr':
                s.shutdown(socket.SHUT_WR)
        except OSError as e:
            log.append('send_error:%s' % type(e).__name__)
            return False
    return True


def parse_frames(b):
    b = bytes(b)
    out, i = [], 0
    while i + 4 <= len(b):
        n, = struct.unpack('!i', b[i:i + 4])
        if n < 0 or i + 4 + n > len(b):
            break
        out.append(b[i + 4:i + 4 + n])
        i += 4 + n
    return out


class Env:
    def __init__(self, rec, spec):
        self.rec = rec
        self.spec = spec
        self.family = spec.get('family', 'AF_UNIX')
        self.wd = os.environ.get('VERIF_WORKDIR') or '/tmp'
        self.n = 0
        self.challenges = {}
        self.chal_msgs = []
        self.hangs = 0
        self.pending_hang = None
        self.sampled = 0

    def new_addr(self):
        self.n += 1
        if self.family == 'AF_UNIX':
            return os.path.join(self.wd, 'c18-%d-%d' % (os.getpid(), self.n))
        return ('127.0.0.1', 0)

    def raw_socket(self):
        fam = socket.AF_UNIX if self.family == 'AF_UNIX' else socket.AF_INET
        return socket.socket(fam, socket.SOCK_STREAM)

    def raw_listener(self):
        ls = self.raw_socket()
        ls.bind(self.new_addr())
        ls.listen(8)
        return ls, ls.getsockname()

    def observe_challenge(self, m, source, where):
        """a challenge produced by the REAL code was seen on the wire"""
        rec = self.rec
        rec.count('challenges_observed')
        rec.count('challenges_from_' + source)
        m = bytes(m)
        if m in self.challenges:
            rec.violation('challenge_repeated',
                          {'source': source, 'family': self.family},
                          challenge=m, first_seen=self.challenges[m], again=where)
        else:
            self.challenges[m] = where
            self.chal_msgs.append(m)

    def finish_challenges(self):
        """crude randomness screen over the challenges of the real code"""
        rec = self.rec
        msgs = self.chal_msgs
        rec.count('challenges_distinct', len(self.challenges))
        n = len(msgs)
        if n < 100:
            return
        lens = {len(m) for m in msgs}
        if len(lens) != 1 or not msgs[0]:
            rec.anomaly('challenge_length_varies', lengths=sorted(lens)[:10])
            return
        ln = lens.pop()
        ones = sum(bin(int.from_bytes(m, 'big')).count('1') for m in msgs)
        bits = n * ln * 8
        sd = (bits ** 0.5) / 2
        rec.count('challenge_bits_screened', bits)
        if abs(ones - bits / 2) > 7 * sd:
            rec.violation('challenge_not_random', {'test': 'bit_balance', 'family': self.family},
                          ones=ones, bits=bits, samples=[m for m in msgs[:4]])
        need = min(n, 256) // 5
        for pos in range(ln):
            d = len({m[pos] for m in msgs})
            if d < need:
                rec.violation('challenge_not_random',
                              {'test': 'byte_spread', 'family': self.family},
                              position=pos, distinct_values=d, challenges=n,
                              samples=[m for m in msgs[:4]])
                break

    def hang(self, attrs, **detail):
        """the real code did not finish within T_IO although its peer had
        nothing more to say; reported by settle_hang() once the other oracles
        of the case have run"""
        self.hangs += 1
        self.rec.count('hangs_seen')
        self.pending_hang = (attrs, detail)

    def settle_hang(self):
        if self.pending_hang is None:
            return
        attrs, detail = self.pending_hang
        self.pending_hang = None
        if self.rec.violations:
            # a decisive (timing-free) violation exists already: keep the hang
            # as context instead of asking for a confirm-alone re-run
            self.rec.anomaly('handshake_hung_beside_other_violation', attrs=attrs,
                             waited_s=T_IO, **detail)
        else:
            self.rec.violation('handshake_hung', attrs, waited_s=T_IO, **detail)
        self.rec.flush()


def close_quietly(*objs):
    for o in objs:
        try:
            if o is not None:
                o.close()
        except Exception:
            pass


def new_listener(env, key):
    from billiard.connection import Listener
    return Listener(env.new_addr(), family=env.family, authkey=key)


# --------------------------------------------------------------------------
# mode "pairs": real against real through a recording proxy
# --------------------------------------------------------------------------

class Wire:
    def __init__(self):
        self.c2l = bytearray()
        self.l2c = bytearray()
        self.done = threading.Event()
        self.socks = []
        self.err = None

    def kill(self):
        for s in self.socks:
            try:
                s.shutdown(socket.SHUT_RDWR)
            except OSError:
                pass


class Proxy(threading.Thread):
    def __init__(self, env):
        threading.Thread.__init__(self, daemon=True)
        self.env = env
        self.ls, self.address = env.raw_listener()
        self.upstream = None
        self.wires = queue.Queue()
        self.stop = False

    def run(self):
        while not self.stop:
            try:
                r, _w, _x = select.select([self.ls], [], [], 0.1)
            except (OSError, ValueError):
                return
            if not r:
                continue
            try:
                cs, _a = self.ls.accept()
            except OSError:
                return
            w = Wire()
            us = self.env.raw_socket()
            try:
                us.connect(self.upstream)
            except OSError as e:
                w.err = repr(e)
                close_quietly(cs, us)
                w.done.set()
                self.wires.put(w)
                continue
            w.socks = [cs, us]
            self.wires.put(w)
            self.relay(cs, us, w)

    @staticmethod
    def relay(cs, us, w):
        other = {cs: us, us: cs}
        bufs = {cs: w.c2l, us: w.l2c}
        live = [cs, us]
        while live:
            try:
                r, _w, _x = select.select(live, [], [], 0.5)
            except (OSError, ValueError):
                break
            for s in r:
                try:
                    d = s.recv(65536)
                except OSError:
                    d = b''
                if d:
                    bufs[s] += d
                    try:
                        other[s].sendall(d)
                    except OSError:
                        pass
                else:
                    live.remove(s)
                    try:
                        other[s].shutdown(socket.SHUT_WR)
                    except OSError:
                        pass
        close_quietly(cs, us)
        w.done.set()


def gen_pairs(rng, part, extra, tier):
    """-> [(relation, listener_key, client_key)]"""
    rb = rng.randbytes
    out = []
    short_sets = [[1, 4], [2, 3], [3, 1], [4, 2], [5], [6], [8], [7, 1]]
    for n in short_sets[part % (4 if tier == 'quick' else 8)]:
        base = rb(n)
        out.append(('equal', base, base))
        for bit in range(8 * n):
            out.append(('onebit_short', base, flip_bit(base, bit)))
        for bit in rng.sample(range(8 * n), min(8 * n, 6)):
            v = flip_bit(base, bit)
            out.append(('onebit_short', v, base))
    lens = [1, 2, 7, 16, 32, 63, 64, 65, 100, 128, 255, 256, 257, 1000, 4096]
    if tier != 'quick':
        lens += [16384, 65536]
    from billiard.process import AuthenticationString
    kinds = ['equal', 'equal', 'equal_authstring', 'prefix', 'prefix', 'prefix_zero_tail',
             'pad_equiv', 'pad_long', 'md5_equiv', 'long_onebit', 'long_onebit',
             'long_tail', 'random_diff', 'ascii_near', 'reversed', 'onebit_any']
    for j in range(extra):
        kind = kinds[j % len(kinds)]
        n = rng.choice(lens) if rng.random() < 0.6 else rng.randrange(1, 300)
        k = rb(n)
        if kind == 'equal':
            pair = (k, bytes(k))
        elif kind == 'equal_authstring':
            pair = (AuthenticationString(k), k) if j % 2 else (k, AuthenticationString(k))
        elif kind == 'prefix':
            if n < 2:
                k = rb(rng.randrange(2, 80))
            cut = rng.choice([1, len(k) - 1, rng.randrange(1, len(k))])
            pair = (k[:cut], k) if rng.random() < 0.5 else (k, k[:cut])
        elif kind == 'prefix_zero_tail':
            head = rb(rng.randrange(1, 40))
            k = head + b'\0' * rng.randrange(1, 30)
            pair = (head, k) if rng.random() < 0.5 else (k, head)
        elif kind == 'pad_equiv':
            head = rb(rng.randrange(1, 60))
            k = head + b'\0' * rng.randrange(1, 65 - len(head))
            pair = (head, k) if rng.random() < 0.5 else (k, head)
        elif kind == 'pad_long':
            head = rb(rng.randrange(40, 64))
            k = head + b'\0' * (65 - len(head) + rng.randrange(0, 10))
            pair = (head, k) if rng.random() < 0.5 else (k, head)
        elif kind == 'md5_equiv':
            k = rb(rng.choice([65, 66, 128, 1000, 4096]))
            d = hashlib.md5(k).digest()
            pair = (k, d) if rng.random() < 0.5 else (d, k)
        elif kind == 'long_onebit':
            k = rb(rng.choice([65, 200, 1024, 4096]))
            bit = rng.choice([0, 8 * len(k) - 1, 8 * 64, rng.randrange(8 * len(k))])
            pair = (k, flip_bit(k, bit))
        elif kind == 'long_tail':
            common = rb(rng.choice([32, 64, 128, 512]))
            pair = (common + rb(8), common + rb(8))
        elif kind == 'random_diff':
            pair = (k, rb(rng.choice([1, n, n + 1, 64, 300])))
        elif kind == 'ascii_near':
            word = rng.choice([b'secret', b'authkey', b'celery', b'password123'])
            other = rng.choice([word.upper(), word.capitalize(), word + b' ', word + b'\n',
                                b' ' + word, word[:-1], word + word])
            pair = (word, other) if rng.random() < 0.5 else (other, word)
        elif kind == 'reversed':
            k = rb(rng.randrange(2, 100))
            pair = (k, k[::-1])
        else:  # onebit_any
            pair = (k, flip_bit(k, rng.randrange(8 * len(k))))
        out.append((kind, pair[0], pair[1]))
    # group by listener key so one Listener serves several connections
    return out


def roundtrip(rec, attrs, a, b, tag):
    """both ends are real connections: the handshake must leave them usable"""
    try:
        a.send_bytes(tag)
        if not b.poll(T_IO):
            rec.violation('connection_not_usable', attrs, step='first message never arrived')
            return False
        got = b.recv_bytes()
        b.send(('reply', tag))
        if not a.poll(T_IO):
            rec.violation('connection_not_usable', attrs, step='reply never arrived')
            return False
        back = a.recv()
        if got != tag or back != ('reply', tag):
            rec.violation('connection_not_usable', attrs, sent=tag, got=got, back=repr(back))
            return False
    except Exception as e:
        rec.violation('connection_not_usable', attrs, exc=repr(e),
                      tb=traceback.format_exc()[-1200:])
        return False
    rec.count('usable_roundtrips')
    return True


def run_pairs(env, rng):
    from billiard.connection import Client
    rec, spec = env.rec, env.spec
    pairs = gen_pairs(rng, spec['part'], spec['extra'], spec['tier'])
    proxy = Proxy(env)
    proxy.start()
    listener, lkey = None, None
    try:
        for idx, (rel, kL, kC) in enumerate(pairs):
            if env.hangs >= MAX_HANGS:
                rec.note('pairs spec stopped early after %d hangs' % env.hangs)
                break
            if listener is None or lkey is not kL:
                close_quietly(listener)
                listener = new_listener(env, kL)
                lkey = kL
            proxy.upstream = listener.address
            ok = one_pair(env, proxy, listener, Client, idx, rel, kL, kC)
            if ok and not same_key(kL, kC) and rng.random() < 0.5:
                # the same listener after it has turned a peer away: a client
                # with the right key must still get its connection
                rec.count('pairs_on_listener_that_rejected_a_peer')
                env.after_reject = True
                try:
                    ok = one_pair(env, proxy, listener, Client, 100000 + idx,
                                  'equal_after_reject', kL, bytes(kL))
                finally:
                    env.after_reject = False
            if not ok:
                close_quietly(listener)
                listener = None
    finally:
        proxy.stop = True
        close_quietly(listener)
        close_quietly(proxy.ls)
    env.finish_challenges()


def one_pair(env, proxy, listener, Client, idx, rel, kL, kC):
    rec, fam = env.rec, env.family
    same = same_key(kL, kC)
    exact = bytes(kL) == bytes(kC)
    attrs = {'mode': 'pairs', 'family': fam, 'relation': rel}
    rec.case()
    rec.count('handshakes')
    while True:
        try:
            proxy.wires.get_nowait()
        except queue.Empty:
            break
    a = Call(listener.accept)
    c = Call(lambda: Client(proxy.address, family=fam, authkey=kC))
    a.start()
    c.start()
    a.done.wait(T_IO)
    c.done.wait(T_IO if a.done.is_set() else 1.0)
    try:
        w = proxy.wires.get(timeout=5)
    except queue.Empty:
        w = None
    healthy = True
    if not (a.done.is_set() and c.done.is_set()):
        healthy = False
        env.hang(dict(attrs, same_key=same), listener=a.outcome(), client=c.outcome(),
                 wire_l2c=parse_frames(w.l2c)[:4] if w else None,
                 wire_c2l=parse_frames(w.c2l)[:4] if w else None)
        if w:
            w.kill()
        a.done.wait(5)
        c.done.wait(5)
    oa, oc = a.outcome(), c.outcome()
    rec.count('listener_' + oa)
    rec.count('client_' + oc)
    if rel == 'onebit_short':
        rec.count('onebit_short_pairs')
    if rel.startswith('prefix'):
        rec.count('prefix_pairs')
    if max(len(kL), len(kC)) > 64:
        rec.count('long_key_pairs')
    detail = dict(listener_key=bytes(kL), client_key=bytes(kC), listener=oa, client=oc,
                  listener_msg=a.msg, client_msg=c.msg)
    if healthy:
        if same:
            for side, call in (('listener', a), ('client', c)):
                if call.conn is None:
                    rec.violation('matching_keys_failed',
                                  dict(attrs, side=side, exact_equal=exact), tb=call.tb, **detail)
            if a.conn is not None and c.conn is not None:
                rec.count('pairs_same_both_returned' if exact
                          else 'pairs_equivalent_both_returned')
                tag = b'c18:%d:%d' % (env.spec['seed'], idx)
                if idx % 2:
                    roundtrip(rec, attrs, a.conn, c.conn, tag)
                else:
                    roundtrip(rec, attrs, c.conn, a.conn, tag)
        else:
            both = True
            for side, call in (('listener', a), ('client', c)):
                if call.conn is not None:
                    both = False
                    rec.violation('connection_handed_out_with_different_keys',
                                  dict(attrs, side=side), **detail)
                elif not call.is_auth:
                    both = False
                    rec.violation('different_keys_not_authentication_error',
                                  dict(attrs, side=side, exc=call.exc), tb=call.tb, **detail)
            if both:
                rec.count('pairs_diff_both_autherror')
    close_quietly(a.conn, c.conn)
    # ---- the wire ----------------------------------------------------------
    verdicts = ['-', '-']
    if w is not None:
        if not w.done.wait(10):
            w.kill()
            w.done.wait(5)
        if w.err and getattr(env, 'after_reject', False):
            rec.violation('listener_unusable_after_rejecting_a_peer', attrs, error=str(w.err),
                          **detail)
            return False
        if w.err:
            raise RuntimeError('proxy could not reach the listener: %s' % w.err)
        l2c, c2l = parse_frames(w.l2c), parse_frames(w.c2l)
        rec.count('wire_frames', min(len(l2c), 3) + min(len(c2l), 3))
        proofL = proofC = False       # listener verified client / client verified listener
        v1 = v2 = None
        if l2c and l2c[0].startswith(CH):
            mL = l2c[0][len(CH):]
            env.observe_challenge(mL, 'listener', 'pairs#%d' % idx)
            if c2l:
                good = c2l[0] == ref_digest(kL, mL)
                if len(l2c) > 1:
                    v1 = l2c[1]
                    wire_verdict(rec, attrs, 'listener', v1, good, c2l[0], mL, detail)
                    proofL = good and v1 == WELCOME
                    if v1 == WELCOME and len(c2l) > 1 and c2l[1].startswith(CH):
                        mC = c2l[1][len(CH):]
                        env.observe_challenge(mC, 'client', 'pairs#%d' % idx)
                        if len(l2c) > 2:
                            good2 = l2c[2] == ref_digest(kC, mC)
                            if len(c2l) > 2:
                                v2 = c2l[2]
                                wire_verdict(rec, attrs, 'client', v2, good2, l2c[2], mC, detail)
                                proofC = good2 and v2 == WELCOME
        elif l2c:
            rec.anomaly('first_listener_message_not_a_challenge', first=l2c[0][:40])
        verdicts = [vname(v1), vname(v2)]
        for side, call, proof, welcome in (('listener', a, proofL, v2), ('client', c, proofC, v1)):
            if call.conn is None:
                continue
            if not proof:
                # it returned although its peer never presented the correct
                # digest for this connection's challenge
                rec.violation('returned_without_peer_proof', dict(attrs, side=side),
                              wire_l2c=l2c[:3], wire_c2l=c2l[:3], **detail)
            elif welcome != WELCOME:
                # it returned although it was never told WELCOME for a digest of its own
                rec.violation('returned_without_welcome', dict(attrs, side=side),
                              wire_l2c=l2c[:3], wire_c2l=c2l[:3], **detail)
        if healthy and len(l2c) >= 2:
            rec.count('wire_verified_handshakes')
        if healthy and (l2c or c2l):
            rec.sig(['pairs', fam, rel, 'same' if same else 'diff', lbucket(len(kL)),
                     lbucket(len(kC)), oa, oc] + verdicts)
        want_sample = (env.spec['part'] == 0 and fam == 'AF_UNIX' and healthy and
                       ((env.sampled == 0 and same and rel != 'equal') or
                        (env.sampled == 1 and not same and rel != 'onebit_short')))
        if want_sample:
            env.sampled += 1
            rec.sample({'mode': 'pairs', 'family': fam, 'relation': rel, 'same_key': same,
                        'listener_key_len': len(kL), 'client_key_len': len(kC),
                        'listener': oa, 'client': oc,
                        'wire_listener_to_client': l2c[:3], 'wire_client_to_listener': c2l[:3]})
    env.settle_hang()
    return healthy


def vname(v):
    if v is None:
        return '-'
    return {WELCOME: 'WELCOME', FAILURE: 'FAILURE'}.get(bytes(v), 'other')


def wire_verdict(rec, attrs, verifier, verdict, good, digest, challenge, detail):
    if verdict == WELCOME and not good:
        rec.violation('welcome_for_wrong_digest', dict(attrs, verifier=verifier),
                      digest_presented=digest, challenge=challenge, **detail)
    elif verdict != WELCOME and good:
        rec.violation('correct_digest_refused', dict(attrs, verifier=verifier),
                      verdict=verdict, challenge=challenge, **detail)
    elif verdict not in (WELCOME, FAILURE):
        rec.anomaly('verdict_neither_welcome_nor_failure', verdict=verdict[:40])


# --------------------------------------------------------------------------
# mode "hostile": scripted peer against one real side
# --------------------------------------------------------------------------

BAD_ANSWERS = [
    'random_digest', 'bitflip_digest', 'bitflip_digest', 'truncated_digest', 'truncated_15',
    'truncated_1', 'empty', 'overlong_digest', 'overlong_nul', 'other_key_digest',
    'other_key_digest', 'replayed_digest', 'replayed_own_answer', 'welcome_out_of_turn',
    'failure_out_of_turn', 'echo_challenge', 'echo_message', 'echo_message16', 'oversize_257',
    'oversize_4k', 'huge_header', 'neg_header', 'partial_header', 'partial_body',
    'close_before', 'close_after', 'sha1_digest', 'sha256_digest', 'hexdigest',
    'digest_over_frame', 'plain_md5', 'two_frames', 'split_digest', 'zero_digest',
]
GOOD_CHALS = ['rand20', 'empty_msg', 'one_byte', 'max245', 'zeros20', 'ff20', 'welcome_text',
              'failure_text', 'prefix_text', 'rand_len', 'const']
BAD_CHALS = ['no_prefix', 'empty_frame', 'lower_prefix', 'short_prefix', 'oversize_257',
             'oversize_4k', 'welcome_as_challenge', 'failure_as_challenge', 'close',
             'partial_header', 'partial_body', 'huge_header', 'neg_header']
BAD_VERDICTS = ['failure', 'empty', 'welcome_nl', 'welcome_lower', 'welcome_twice', 'nul',
                'random', 'digest_back', 'welcome_trunc', 'close', 'challenge_again']
# a well-formed wrong answer is what a peer holding a different key sends:
# the statement promises AuthenticationError for those
AUTH_ERROR_ANSWERS = {'random_digest', 'bitflip_digest', 'other_key_digest', 'zero_digest'}


def other_key(rng, K):
    for _ in range(20):
        how = rng.randrange(5)
        if how == 0:
            k2 = flip_bit(K, rng.randrange(8 * len(K)))
        elif how == 1 and len(K) > 1:
            k2 = K[:rng.randrange(1, len(K))]
        elif how == 2:
            k2 = K + rng.randbytes(1)
        elif how == 3:
            k2 = rng.randbytes(len(K))
        else:
            k2 = K[::-1]
        if k2 and not same_key(K, k2):
            return k2
    return hashlib.sha256(K).digest()


def build_answer(kind, K, m, rng, mem, own_answer):
    """-> (ops, first_frame) ; first_frame is what the verifier will judge
    (None when no complete frame is sent)"""
    good = ref_digest(K, m)
    F = lambda p: ([('frame', p)], p)           # noqa: E731
    if kind == 'correct':
        return F(good)
    if kind == 'random_digest':
        return F(rng.randbytes(16))
    if kind == 'zero_digest':
        return F(b'\0' * 16)
    if kind == 'bitflip_digest':
        return F(flip_bit(good, rng.randrange(128)))
    if kind == 'truncated_digest':
        return F(good[:rng.randrange(2, 15)])
    if kind == 'truncated_15':
        return F(good[:15])
    if kind == 'truncated_1':
        return F(good[:1])
    if kind == 'empty':
        return F(b'')
    if kind == 'overlong_digest':
        return F(good + rng.randbytes(rng.choice([1, 4, 16, 100, 240])))
    if kind == 'overlong_nul':
        return F(good + b'\0')
    if kind == 'other_key_digest':
        return F(ref_digest(other_key(rng, K), m))
    if kind == 'replayed_digest':
        return F(mem[-1][1] if mem else rng.randbytes(16))
    if kind == 'replayed_own_answer':
        return F(own_answer if own_answer else (mem[0][1] if mem else rng.randbytes(16)))
    if kind == 'welcome_out_of_turn':
        return F(WELCOME)
    if kind == 'failure_out_of_turn':
        return F(FAILURE)
    if kind == 'echo_challenge':
        return F(CH + m)
    if kind == 'echo_message':
        return F(m)
    if kind == 'echo_message16':
        return F(m[:16].ljust(16, b'\0'))
    if kind == 'oversize_257':
        return F(good + b'\0' * (257 - 16))
    if kind == 'oversize_4k':
        return F(good * 256)
    if kind == 'huge_header':
        return [('raw', struct.pack('!i', 0x7fffffff) + good), ('shut_wr',)], None
    if kind == 'neg_header':
        return [('raw', struct.pack('!i', -1)), ('shut_wr',)], b''
    if kind == 'partial_header':
        return [('raw', b'\0\0'), ('shut_wr',)], None
    if kind == 'partial_body':
        return [('raw', struct.pack('!i', 16) + good[:8]), ('shut_wr',)], None
    if kind == 'close_after':
        return [('shut_wr',)], None
    if kind == 'sha1_digest':
        return F(_hmac.new(K, m, 'sha1').digest())
    if kind == 'sha256_digest':
        return F(_hmac.new(K, m, 'sha256').digest())
    if kind == 'hexdigest':
        return F(good.hex().encode())
    if kind == 'digest_over_frame':
        return F(ref_digest(K, CH + m))
    if kind == 'plain_md5':
        return F(hashlib.md5(K + m).digest())
    if kind == 'two_frames':
        bad = flip_bit(good, rng.randrange(128))
        return [('frame', bad), ('frame', good)], bad
    if kind == 'split_digest':
        return [('frame', good[:8]), ('frame', good[8:])], good[:8]
    raise ValueError(kind)


def build_challenge(kind, rng):
    """-> (ops, message or None when malformed)"""
    rb = rng.randbytes
    good = {
        'rand20': lambda: rb(20), 'empty_msg': lambda: b'', 'one_byte': lambda: rb(1),
        'max245': lambda: rb(245), 'zeros20': lambda: b'\0' * 20, 'ff20': lambda: b'\xff' * 20,
        'welcome_text': lambda: WELCOME, 'failure_text': lambda: FAILURE,
        'prefix_text': lambda: CH, 'rand_len': lambda: rb(rng.randrange(1, 245)),
        'const': lambda: b'A' * 20,
    }
    if kind in good:
        m = good[kind]()
        return [('frame', CH + m)], m
    if kind == 'no_prefix':
        return [('frame', rb(31))], None
    if kind == 'empty_frame':
        return [('frame', b'')], None
    if kind == 'lower_prefix':
        return [('frame', CH.lower() + rb(20))], None
    if kind == 'short_prefix':
        return [('frame', CH[:-1] + rb(20))], None
    if kind == 'oversize_257':
        return [('frame', CH + rb(257 - len(CH)))], None
    if kind == 'oversize_4k':
        return [('frame', CH + rb(4096))], None
    if kind == 'welcome_as_challenge':
        return [('frame', WELCOME)], None
    if kind == 'failure_as_challenge':
        return [('frame', FAILURE)], None
    if kind == 'close':
        return [('shut_wr',)], None
    if kind == 'partial_header':
        return [('raw', b'\0\0\0'), ('shut_wr',)], None
    if kind == 'partial_body':
        return [('raw', struct.pack('!i', 31) + CH), ('shut_wr',)], None
    if kind == 'huge_header':
        return [('raw', struct.pack('!i', 0x7fffffff) + CH), ('shut_wr',)], None
    if kind == 'neg_header':
        return [('raw', struct.pack('!i', -1)), ('shut_wr',)], None
    raise ValueError(kind)


def build_verdict(kind, rng, digest_ok, digest, m):
    if kind == 'judge':
        return [('frame', WELCOME if digest_ok else FAILURE)], (WELCOME if digest_ok else FAILURE)
    table = {
        'welcome': WELCOME, 'failure': FAILURE, 'empty': b'', 'welcome_nl': WELCOME + b'\n',
        'welcome_lower': WELCOME.lower(), 'welcome_twice': WELCOME + WELCOME, 'nul': b'\0',
        'random': rng.randbytes(9), 'digest_back': digest or b'x', 'welcome_trunc': WELCOME[:-1],
        'challenge_again': CH + (m or b''),
    }
    if kind == 'close':
        return [('shut_wr',)], None
    p = table[kind]
    return [('frame', p)], p


def scripts_for(role, rng):
    """the script list of one key; role = which side is scripted"""
    out = []
    for a in BAD_ANSWERS:
        out.append({'answer': a, 'chal': 'rand20',
                    'verdict': 'judge' if role == 'client' else 'welcome'})
    for c in GOOD_CHALS:
        out.append({'answer': 'correct', 'chal': c, 'verdict': 'judge'})
    for c in BAD_CHALS:
        out.append({'answer': 'correct', 'chal': c, 'verdict': 'judge'})
    for v in BAD_VERDICTS:
        out.append({'answer': 'correct', 'chal': rng.choice(['rand20', 'rand_len']),
                    'verdict': v})
    rng.shuffle(out)
    # a reference handshake first so that a replayable digest exists
    out.insert(0, {'answer': 'correct', 'chal': 'rand20', 'verdict': 'judge'})
    return out


class Obs:
    """what the scripted peer saw and did on one connection"""

    def __init__(self):
        self.log = []                 # readable trace
        self.real_challenge = None    # message the real side challenged us with
        self.no_challenge = None      # status when no challenge came
        self.judged = None            # the frame the real side will judge
        self.proven = False           # we sent the correct digest for real_challenge
        self.verdict_seen = None      # real side's verdict on our answer
        self.welcomed = False
        self.our_challenge = None     # well-formed message we challenged with
        self.chal_malformed = False
        self.real_digest = None
        self.real_digest_ok = None
        self.sent_verdict = None
        self.sent_welcome = False
        self.answer_phase_ran = False
        self.challenge_phase_ran = False


def answer_phase(env, fr, s, K, sc, rng, obs, mem, first):
    """the scripted peer answers the real side's challenge"""
    obs.answer_phase_ran = True
    kind = sc['answer']
    if kind == 'close_before':
        obs.log.append('close_before_reading')
        send_ops(s, [('shut_wr',)], obs.log)
        st, fr0 = fr.read(T_FIRST)
        if st == 'frame' and fr0.startswith(CH):
            env.observe_challenge(fr0[len(CH):], obs.real_source, obs.where)
        return False
    st, chal = fr.read(T_FIRST)
    if st != 'frame' or not chal.startswith(CH):
        obs.no_challenge = st if st != 'frame' else 'not_a_challenge'
        obs.log.append('no_challenge:%s' % obs.no_challenge)
        if st == 'frame':
            obs.log.append(('got', chal[:40]))
        # a real side that does not challenge us has not verified us: carry on
        # so that the outcome oracle sees whether it hands out a connection
        if st == 'timeout':
            env.hangs += 1
        return st in ('timeout', 'stopped') and obs.real_source == 'listener'
    m = chal[len(CH):]
    obs.real_challenge = m
    env.observe_challenge(m, obs.real_source, obs.where)
    ops, judged = build_answer(kind, K, m, rng, mem, obs.own_answer)
    obs.judged = judged
    obs.proven = judged is not None and judged == ref_digest(K, m)
    obs.log.append(('answer', kind, judged[:24] if judged else judged))
    send_ops(s, ops, obs.log)
    st, v = fr.read()
    obs.verdict_seen = v if st == 'frame' else st
    obs.log.append(('verdict', obs.verdict_seen if st == 'frame' else st))
    obs.welcomed = st == 'frame' and v == WELCOME
    return obs.welcomed


def challenge_phase(env, fr, s, K, sc, rng, obs, blind):
    """the scripted peer challenges the real side"""
    obs.challenge_phase_ran = True
    ops, m = build_challenge(sc['chal'], rng)
    obs.log.append(('challenge', sc['chal']))
    send_ops(s, ops, obs.log)
    if m is None:
        obs.chal_malformed = True
        st, x = fr.read()
        obs.log.append(('after_malformed_challenge', st, x[:24] if st == 'frame' else ''))
        if st == 'frame':
            # the real side answered a malformed challenge: keep going, blind
            obs.real_digest = x
            vops, sent = build_verdict('welcome', rng, False, x, b'')
            obs.sent_verdict = sent
            obs.sent_welcome = True
            send_ops(s, vops, obs.log)
        return False
    obs.our_challenge = m
    st, d = fr.read()
    if st != 'frame':
        obs.log.append('no_digest:%s' % st)
        return False
    obs.real_digest = d
    obs.real_digest_ok = d == ref_digest(K, m)
    vkind = sc['verdict']
    if blind and vkind == 'judge':
        vkind = 'welcome'
    vops, sent = build_verdict(vkind, rng, obs.real_digest_ok, d, m)
    obs.sent_verdict = sent
    obs.sent_welcome = sent == WELCOME
    obs.log.append(('sent_verdict', sc['verdict'], sent))
    send_ops(s, vops, obs.log)
    return obs.sent_welcome


def accept_raw(ls, done, timeout=T_IO):
    deadline = time.monotonic() + timeout
    while time.monotonic() < deadline:
        r, _w, _x = select.select([ls], [], [], 0.05)
        if r:
            s, _a = ls.accept()
            return s
        if done.is_set():
            r, _w, _x = select.select([ls], [], [], 0)
            if r:
                s, _a = ls.accept()
                return s
            return None
    return None


def run_hostile(env, rng):
    from billiard.connection import Client
    rec, spec = env.rec, env.spec
    role = spec['role']                     # the scripted side
    real_side = 'listener' if role == 'client' else 'client'
    lens = [1, 2, 5, 16, 20, 32, 63, 64, 65, 100, 300, 4096]
    ls = ls_addr = None
    if role == 'listener':
        ls, ls_addr = env.raw_listener()
    try:
        for ki in range(spec['nkeys']):
            K = rng.randbytes(lens[(spec['part'] * 5 + ki * 7 + rng.randrange(2)) % len(lens)])
            listener = new_listener(env, K) if role == 'client' else None
            mem = []                         # (challenge, correct digest) seen with this key
            first = True
            try:
                for si, sc in enumerate(scripts_for(role, rng)):
                    if env.hangs >= MAX_HANGS:
                        rec.note('hostile spec stopped early after %d hangs' % env.hangs)
                        return
                    ok = hostile_case(env, rng, role, real_side, K, sc, listener, ls, ls_addr,
                                      Client, mem, first, '%s#k%d.%d' % (role, ki, si))
                    first = False
                    if not ok and listener is not None:
                        close_quietly(listener)
                        listener = new_listener(env, K)
            finally:
                close_quietly(listener)
    finally:
        close_quietly(ls)
    env.finish_challenges()


def hostile_case(env, rng, role, real_side, K, sc, listener, ls, ls_addr, Client, mem, first,
                 where):
    rec, fam = env.rec, env.family
    rec.case()
    rec.count('handshakes')
    rec.count('hostile_%s_cases' % role)
    legit_script = (sc['answer'] == 'correct' and sc['chal'] in GOOD_CHALS and
                    sc['verdict'] in ('judge', 'welcome'))
    if legit_script:
        step = 'reference:' + sc['chal']
    elif sc['answer'] != 'correct':
        step = 'answer:' + sc['answer']
    elif sc['chal'] not in GOOD_CHALS:
        step = 'challenge:' + sc['chal']
    else:
        step = 'verdict:' + sc['verdict']
    attrs = {'mode': 'hostile_' + role, 'real_side': real_side, 'family': fam, 'step': step}
    if sc['answer'] == 'bitflip_digest':
        rec.count('bitflip_attempts')
    if sc['answer'] in ('replayed_digest', 'replayed_own_answer') and mem:
        rec.count('replay_attempts')
    obs = Obs()
    obs.real_source = real_side
    obs.where = where
    obs.own_answer = None
    s = None
    if role == 'client':
        call = Call(listener.accept)
        call.start()
        s = env.raw_socket()
        s.connect(listener.address)
    else:
        call = Call(lambda: Client(ls_addr, family=fam, authkey=K))
        call.start()
        s = accept_raw(ls, call.done)
        if s is None:
            call.done.wait(5)
            rec.violation('real_client_never_connected', attrs, client=call.outcome(),
                          tb=call.tb)
            return True
    fr = FrameReader(s, call.done)
    blind = role == 'listener' and sc['answer'] != 'correct'
    if role == 'client':
        go = answer_phase(env, fr, s, K, sc, rng, obs, mem, first)
        if go:
            # wrongly welcomed, or never challenged: finish like a peer that
            # does not know the key would (accept whatever digest comes)
            challenge_phase(env, fr, s, K, sc, rng, obs,
                            blind=not (obs.proven and obs.no_challenge is None))
    else:
        go = challenge_phase(env, fr, s, K, sc, rng, obs, blind)
        if go:
            # the digest the real client just gave us is the only "own answer"
            # a listener without the key could replay inside this connection
            obs.own_answer = obs.real_digest
            answer_phase(env, fr, s, K, sc, rng, obs, mem, False)
    # the script is over.  A reference peer keeps the connection open; a
    # hostile one gives the real side a moment and then half-closes, so a real
    # side that (wrongly) waits for more input is not mistaken for a hang
    if obs.proven and obs.sent_welcome:
        finished = call.done.wait(T_IO)
    else:
        finished = call.done.wait(T_GRACE)
        if not finished:
            obs.log.append('real side still busy %.0f s after the script; half-closing' % T_GRACE)
            rec.count('half_closed_to_unblock')
            send_ops(s, [('shut_wr',)], obs.log)
            finished = call.done.wait(T_IO)
    healthy = True
    if not finished:
        healthy = False
        env.hang(dict(attrs), real=call.outcome(), trace=obs.log)
        try:
            s.shutdown(socket.SHUT_RDWR)
        except OSError:
            pass
        call.done.wait(5)
    out = call.outcome()
    rec.count('%s_%s' % (real_side, out))
    if call.exc:
        rec.count('exc:' + call.exc)
    detail = dict(key=K, real=out, real_msg=call.msg, trace=obs.log, script=sc)

    # ---- oracles -----------------------------------------------------------
    bad_answer = obs.judged is not None and not obs.proven
    if obs.answer_phase_ran and obs.real_challenge is not None:
        if obs.welcomed and not obs.proven:
            rec.violation('welcome_for_wrong_response', attrs, response=obs.judged,
                          challenge=obs.real_challenge, **detail)
        if obs.proven and isinstance(obs.verdict_seen, bytes) and not obs.welcomed:
            rec.violation('correct_digest_refused', attrs, verdict=obs.verdict_seen,
                          challenge=obs.real_challenge, **detail)
        if bad_answer and obs.verdict_seen == FAILURE:
            rec.count('failure_seen_for_bad_response')
    if obs.no_challenge in ('timeout', 'stopped', 'not_a_challenge') and healthy:
        rec.anomaly('real_side_sent_no_challenge', step=step, status=obs.no_challenge,
                    real=out)
    if obs.our_challenge is not None and obs.real_digest is not None and not obs.real_digest_ok:
        rec.violation('real_side_sent_wrong_digest', attrs, challenge=obs.our_challenge,
                      digest=obs.real_digest, expected=ref_digest(K, obs.our_challenge),
                      **detail)
    may_return = obs.proven and obs.sent_welcome
    must_return = (legit_script and obs.proven and obs.sent_welcome and obs.real_digest_ok and
                   obs.welcomed)
    if call.conn is not None:
        if not obs.proven:
            rec.violation('returned_to_unproven_peer', attrs,
                          real_challenge=obs.real_challenge, judged=obs.judged, **detail)
        elif not obs.sent_welcome:
            rec.violation('returned_without_welcome', attrs, sent_verdict=obs.sent_verdict,
                          **detail)
        elif obs.chal_malformed:
            rec.anomaly('returned_after_malformed_challenge', step=step)
    elif healthy:
        if must_return:
            rec.violation('reference_peer_refused', attrs, tb=call.tb, **detail)
        else:
            rec.count('hostile_refused')
            want_auth = ((sc['answer'] in AUTH_ERROR_ANSWERS and bad_answer) or
                         (sc['answer'] == 'correct' and sc['chal'] in GOOD_CHALS and
                          sc['verdict'] == 'failure' and obs.sent_verdict == FAILURE))
            if want_auth and not call.is_auth:
                rec.violation('refusal_not_authentication_error', dict(attrs, exc=call.exc),
                              tb=call.tb, **detail)
            if call.exc not in ('AuthenticationError', 'EOFError', 'OSError', 'AssertionError',
                                'ConnectionResetError', 'BrokenPipeError',
                                'ConnectionAbortedError'):
                rec.anomaly('unusual_exception_on_refusal', step=step, exc=call.exc,
                            tb=call.tb[-600:])
    if call.conn is not None and may_return and not obs.chal_malformed:
        rec.count('reference_peer_accepted')
        # usable? raw frame in, raw frame out
        tag = ('c18:%s' % where).encode()
        try:
            s.sendall(frame(tag))
            if not call.conn.poll(T_IO):
                rec.violation('connection_not_usable', attrs, step='frame never arrived')
            else:
                got = call.conn.recv_bytes()
                call.conn.send_bytes(got[::-1])
                fr.stop = None
                st, back = fr.read()
                if got != tag or st != 'frame' or back != tag[::-1]:
                    rec.violation('connection_not_usable', attrs, sent=tag, got=got,
                                  back=back, status=st)
                else:
                    rec.count('usable_roundtrips')
        except Exception as e:
            rec.violation('connection_not_usable', attrs, exc=repr(e),
                          tb=traceback.format_exc()[-1200:])
    if obs.proven and obs.real_challenge is not None:
        mem.append((obs.real_challenge, ref_digest(K, obs.real_challenge)))
    if healthy and (obs.real_challenge is not None or obs.real_digest is not None):
        rec.sig(['hostile_' + role, fam, step, lbucket(len(K)), out,
                 vname(obs.verdict_seen) if isinstance(obs.verdict_seen, bytes)
                 else str(obs.verdict_seen),
                 vname(obs.sent_verdict) if obs.sent_verdict is not None else '-'])
    if env.sampled < 1 and env.spec['part'] == 0 and fam == 'AF_UNIX' and not legit_script \
            and obs.real_challenge is not None and obs.judged and rng.random() < 0.1:
        env.sampled += 1
        rec.sample({'mode': 'hostile_' + role, 'family': fam, 'step': step, 'key_len': len(K),
                    'real_side': out, 'real_msg': call.msg, 'trace': obs.log})
    close_quietly(call.conn, s)
    env.settle_hang()
    return healthy


# --------------------------------------------------------------------------
# mode "types": a key that is not a byte string
# --------------------------------------------------------------------------

def run_types(env, rng):
    from billiard.connection import Client, Listener
    rec = env.rec
    word = 'k' + ''.join(rng.choice('abcdefghijklmnop') for _ in range(8))
    strict = [('str', word), ('str_nonascii', 'clé'), ('int', 1234), ('float', 1.5),
              ('tuple', (1, 2)), ('list_of_ints', [107, 101, 121]), ('object', object()),
              ('bool', True), ('dict', {'k': 1})]
    lax = [('bytearray', bytearray(word.encode())), ('memoryview', memoryview(word.encode()))]
    strict_names = {t for t, _k in strict}
    for fam in ('AF_UNIX', 'AF_INET'):
        env.family = fam
        for tname, key in strict + lax:
            is_strict = tname in strict_names
            # ---- Listener --------------------------------------------------
            rec.case()
            attrs = {'mode': 'types', 'api': 'Listener', 'family': fam, 'key_type': tname}
            lst, out = None, None
            try:
                lst = Listener(env.new_addr(), family=fam, authkey=key)
                out = 'constructed'
            except TypeError:
                out = 'TypeError'
            except Exception as e:
                out = type(e).__name__
            used = None
            if lst is not None:
                # does it go on and use the key?  connect as a raw client
                call = Call(lst.accept)
                call.start()
                s = env.raw_socket()
                try:
                    s.connect(lst.address)
                    st, fr0 = FrameReader(s, call.done).read(T_FIRST)
                    used = 'sent:%s' % st
                    send_ops(s, [('shut_wr',)], [])
                    call.done.wait(T_IO)
                    out = 'constructed;accept_' + call.outcome()
                    if call.exc == 'TypeError':
                        out = 'TypeError_at_accept'
                finally:
                    close_quietly(s, call.conn, lst)
            rec.count('listener_%s:%s' % (tname, out))
            if is_strict:
                if out in ('TypeError', 'TypeError_at_accept') and used in (None, 'sent:eof',
                                                                          'sent:stopped',
                                                                          'sent:reset'):
                    rec.count('nonbytes_key_typeerror')
                    rec.sig(['types', 'Listener', fam, tname, out])
                else:
                    rec.violation('non_bytes_key_not_rejected_with_typeerror', attrs,
                                  outcome=out, wire=used)
            # ---- Client ----------------------------------------------------
            rec.case()
            attrs = {'mode': 'types', 'api': 'Client', 'family': fam, 'key_type': tname}
            ls, addr = env.raw_listener()
            call = Call(lambda: Client(addr, family=fam, authkey=key))
            call.start()
            s = accept_raw(ls, call.done)
            sent = None
            if s is not None:
                # offer a well-formed challenge: a client that *uses* the key answers it
                send_ops(s, [('frame', CH + rng.randbytes(20))], [])
                st, fr0 = FrameReader(s, call.done).read()
                sent = st if st != 'frame' else 'frame:%d bytes' % len(fr0)
                send_ops(s, [('shut_wr',)], [])
            call.done.wait(T_IO)
            out = call.outcome()
            rec.count('client_%s:%s' % (tname, out))
            if is_strict:
                if call.exc == 'TypeError' and (sent is None or not sent.startswith('frame')):
                    rec.count('nonbytes_key_typeerror')
                    rec.sig(['types', 'Client', fam, tname, out])
                else:
                    rec.violation('non_bytes_key_not_rejected_with_typeerror', attrs,
                                  outcome=out, wire=sent, tb=call.tb)
            close_quietly(s, call.conn, ls)
    rec.sample({'mode': 'types', 'strict_types': [t for t, _k in strict],
                'recorded_only': [t for t, _k in lax]})


# --------------------------------------------------------------------------
# mode "authstring": keys do not leave the process except by spawning
# --------------------------------------------------------------------------

def run_authstring(env, rng):
    import billiard
    from billiard import current_process
    from billiard.connection import Listener, Pipe
    from billiard.process import AuthenticationString
    from billiard.reduction import ForkingPickler
    from vmon import c18_helpers
    rec, spec = env.rec, env.spec

    def try_pickle(obj, via, attrs_extra=None):
        """True when refused with TypeError"""
        attrs = dict({'mode': 'authstring', 'via': via}, **(attrs_extra or {}))
        try:
            if via.startswith('pickle'):
                data = pickle.dumps(obj, int(via.split(':')[1]))
            elif via == 'ForkingPickler':
                data = bytes(ForkingPickler.dumps(obj))
            else:
                a, b = Pipe()
                try:
                    a.send(obj)
                    data = b.recv_bytes() if b.poll(1) else b'?'
                finally:
                    close_quietly(a, b)
        except TypeError:
            rec.count('authstring_pickle_refused')
            return True
        except Exception as e:
            # refused, though not in the documented way
            rec.count('authstring_pickle_refused')
            rec.anomaly('authkey_pickling_refused_with_other_exception', via=via, exc=repr(e))
            return True
        rec.violation('authkey_pickled_outside_spawning', attrs, pickled_bytes=len(data))
        return False

    vias = ['pickle:%d' % p for p in range(pickle.HIGHEST_PROTOCOL + 1)] + \
        ['ForkingPickler', 'Connection.send']
    keys = [rng.randbytes(rng.choice([1, 16, 32, 64, 65, 1000])) for _ in range(spec['nkeys'])]
    for i, k in enumerate(keys):
        rec.case()
        a = AuthenticationString(k)
        if not (isinstance(a, bytes) and a == k and bytes(a) == k and len(a) == len(k)):
            rec.violation('authstring_not_equal_to_its_bytes', {'mode': 'authstring'}, key=k)
        for via in vias:
            try_pickle(a, via)
        try_pickle([a], 'pickle:2', {'container': 'list'})
        try_pickle({'authkey': a}, 'ForkingPickler', {'container': 'dict'})
    try_pickle(current_process().authkey, 'pickle:4', {'object': 'current_process().authkey'})
    rec.sig(['authstring', 'pickle_refused', len(vias)])

    # ---- through real process start: must arrive intact ---------------------
    methods = ['forkserver', 'spawn'] if spec['part'] % 2 else ['spawn', 'fork']
    for n, method in enumerate(methods):
        for custom in (None, rng.randbytes(rng.choice([1, 7, 32, 64, 200])) + b'\0\xff'):
            rec.case()
            attrs = {'mode': 'authstring', 'start_method': method,
                     'authkey': 'custom' if custom else 'inherited_default'}
            ctx = billiard.get_context(method)
            expected = custom if custom else bytes(current_process().authkey)
            fam = 'AF_UNIX' if n % 2 == 0 else 'AF_INET'
            env.family = fam
            lst = Listener(env.new_addr(), family=fam, authkey=expected)
            tag = b'child%d:' % n
            # another thread tries to pickle a key at the very moment this
            # thread is inside the spawning window (failpoint carried by the
            # pickled args, see c18_helpers.Gate)
            inside = threading.Event()
            attempted = threading.Event()
            result = {}

            def hook():
                from billiard.context import get_spawning_popen
                result['window_open'] = get_spawning_popen() is not None
                inside.set()
                attempted.wait(20)

            def intruder():
                inside.wait()
                if result.get('skip'):
                    return
                try:
                    pickle.dumps(AuthenticationString(expected), 2)
                    result['leak'] = 'pickled'
                except TypeError:
                    result['refused'] = True
                except Exception as e:      # noqa
                    result['refused'] = repr(e)
                finally:
                    attempted.set()
            p = ctx.Process(target=c18_helpers.child_connect_with_inherited_key,
                            args=(lst.address, fam, tag, c18_helpers.Gate()))
            if custom:
                p.authkey = custom
            if not isinstance(p.authkey, AuthenticationString):
                rec.violation('process_authkey_not_authentication_string', attrs,
                              type=type(p.authkey).__name__)
            call = Call(lst.accept)
            call.start()
            th = threading.Thread(target=intruder, daemon=True)
            th.start()
            c18_helpers.GATE_HOOK = hook
            start_exc = None
            try:
                p.start()
            except Exception as e:
                start_exc = repr(e) + traceback.format_exc()[-800:]
            finally:
                c18_helpers.GATE_HOOK = None
                if not inside.is_set():
                    result['skip'] = True       # start method pickles nothing (fork)
                    inside.set()
                th.join(30)
            if result.get('window_open'):
                rec.count('spawn_windows_entered')
            if 'refused' in result:
                rec.count('pickle_attempts_inside_spawn_window')
            if 'leak' in result:
                rec.violation('authkey_pickled_outside_spawning',
                              dict(attrs, via='other_thread_during_spawn'),
                              window_open=result.get('window_open'))
            if start_exc is not None:
                rec.violation('authkey_not_intact_in_child', attrs, start_raised=start_exc)
                k = env.raw_socket()
                try:
                    k.connect(lst.address)
                except OSError:
                    pass
                close_quietly(k)
                call.done.wait(5)
                close_quietly(call.conn, lst)
                continue
            # right after start() this thread is outside spawning again
            try_pickle(AuthenticationString(expected), 'pickle:2', {'when': 'right_after_start'})
            # wait for the child to authenticate; only facts decide (what accept()
            # did, what arrived); running out of time is inconclusive, not a verdict
            deadline = time.monotonic() + 200
            while not call.done.wait(0.1):
                if p.exitcode is not None and not call.done.wait(3):
                    # the child is gone and never reached us: unblock accept
                    k = env.raw_socket()
                    try:
                        k.connect(lst.address)
                    except OSError:
                        pass
                    close_quietly(k)
                    call.done.wait(T_IO)
                    break
                if time.monotonic() > deadline:
                    raise RuntimeError('child did not reach the listener within 200 s')
            msg = None
            if call.conn is not None:
                try:
                    if call.conn.poll(60):
                        msg = call.conn.recv_bytes()
                    elif p.exitcode is None:
                        raise RuntimeError('authenticated child sent nothing within 60 s')
                except (EOFError, OSError) as e:
                    msg = repr(e).encode()
            p.join(60)
            if p.exitcode is None:
                p.terminate()
                p.join(10)
            want = tag + hashlib.sha256(expected).digest() + b'AuthenticationString'
            if call.conn is not None and msg == want:
                rec.count('authstring_child_authenticated')
                rec.count('handshakes')
                rec.sig(['authstring', method, attrs['authkey'], fam, 'child_authenticated'])
            else:
                rec.violation('authkey_not_intact_in_child', attrs, accept=call.outcome(),
                              accept_msg=call.msg, child_exitcode=p.exitcode,
                              message=msg, expected=want)
            close_quietly(call.conn, lst)
    rec.sample({'mode': 'authstring', 'start_methods': methods,
                'pickle_routes': vias, 'keys': len(keys)})


# --------------------------------------------------------------------------
# mode "silent": a peer that says nothing at the digest step
# --------------------------------------------------------------------------

def run_silent(env, rng):
    """A peer that never answers the challenge must never be welcomed, however
    long it waits (longer than any time-out the handshake code may use):
    (a) a raw client reads the real Listener's challenge and then stays silent;
    (b) a raw listener without the key challenges the real Client, welcomes its
    digest, and then stays silent when the client challenges it in turn."""
    from billiard import connection as bc
    from billiard.connection import Client
    rec = env.rec
    quiet = float(getattr(bc, 'CONNECTION_TIMEOUT', 20.0)) + 4.0
    K = rng.randbytes(16)
    attrs = {'mode': 'silent', 'family': env.family}
    # (a)
    listener = new_listener(env, K)
    a = Call(listener.accept)
    a.start()
    cs = env.raw_socket()
    cs.settimeout(T_IO)
    cs.connect(listener.address)
    fa = FrameReader(cs)
    first_a = fa.read(T_FIRST)[1]
    # (b)
    ls, ls_addr = env.raw_listener()
    c = Call(lambda: Client(ls_addr, family=env.family, authkey=K))
    c.start()
    ps = accept_raw(ls, c.done)
    got_b = []
    if ps is not None:
        ps.settimeout(T_IO)
        ps.sendall(frame(CH + rng.randbytes(20)))
        fb = FrameReader(ps)
        got_b.append(fb.read(T_FIRST)[1])        # the client's digest
        ps.sendall(frame(WELCOME))
        got_b.append(fb.read(T_FIRST)[1])        # the client's own challenge
    t0 = time.monotonic()
    late_a = late_b = None
    while time.monotonic() - t0 < quiet:
        time.sleep(0.5)
        if a.done.is_set() and c.done.is_set():
            break
    # anything the real sides sent to the silent peers meanwhile?
    late_a = fa.read(1.0)[1]
    if ps is not None:
        late_b = fb.read(1.0)[1]
    rec.case()
    rec.count('silent_peer_cases', 2)
    rec.count('handshakes', 2)
    for side, call, late, first in (('listener', a, late_a, first_a),
                                    ('client', c, late_b, got_b[1:] and got_b[1])):
        at = dict(attrs, real_side=side)
        if not (first or b'').startswith(CH):
            rec.anomaly('silent_case_without_challenge', side=side, first=repr(first)[:60])
            continue
        rec.count('silent_peer_waited_s', int(time.monotonic() - t0))
        if late == WELCOME:
            rec.violation('silent_peer_was_welcomed', at, waited=time.monotonic() - t0)
        if call.conn is not None:
            rec.violation('connection_handed_out_to_silent_peer', at,
                          waited=time.monotonic() - t0)
        rec.sig(['silent', env.family, side, call.outcome(), repr(late)[:20]])
    close_quietly(cs, ps, ls, a.conn, c.conn, listener)


def run_spec(spec, rec):
    env = Env(rec, spec)
    rng = rng_for(spec['seed'], spec['mode'])
    if spec['mode'] == 'pairs':
        run_pairs(env, rng)
    elif spec['mode'] == 'hostile':
        run_hostile(env, rng)
    elif spec['mode'] == 'silent':
        run_silent(env, rng)
    elif spec['mode'] == 'types':
        run_types(env, rng)
    elif spec['mode'] == 'authstring':
        run_authstring(env, rng)
    else:
        raise ValueError(spec['mode'])
