import argparse
import importlib
import os
import sys

from vmon import core


def main(argv=None):
    ap = argparse.ArgumentParser(prog='check')
    ap.add_argument('property')
    ap.add_argument('--tier', default=os.environ.get('VERIF_TIER') or 'quick',
                    choices=['quick', 'thorough'])
    ap.add_argument('--seed', type=int,
                    default=int(os.environ.get('VERIF_SEED') or 1))
    ap.add_argument('--replay')
    ap.add_argument('--jobs', type=int, default=None)
    a = ap.parse_args(argv)
    mod = importlib.import_module('vmon.checks.%s' % a.property.lower())
    rc = core.run_check(mod, a.tier, a.seed, replay=a.replay, jobs=a.jobs)
    sys.stdout.flush()
    sys.exit(rc)


if __name__ == '__main__':
    main()
