"""Core of the runtime-monitoring framework.

A *check* (vmon/checks/cXX.py) exposes

    PROPERTY   = "C14"
    LEVEL      = "exploration" | "fault_enumeration"
    RULE       = "how cases are generated; what makes one distinct/non-trivial"
    ASSUMPTIONS = [...]
    def plan(tier, seed)  -> [spec, ...]        JSON-serialisable dicts
    def run_spec(spec, rec)                     executed in a fresh process
    FLOORS = {"quick": {counter: minimum}, "thorough": {...}}   reach floors

`run_spec` drives the real billiard code and reports through `rec` (a Rec):
violations (kind + attrs + detail), counters, distinct signatures, samples.
Every spec runs in its own session (setsid) with a watchdog; whatever is left
of the session is killed when the spec ends, so no worker process survives.

Verdicts: exit 0 held on what was observed / exit 1 VIOLATION / exit 2
inconclusive (watchdog, crashed spec, reach floor missed).
"""
import hashlib
import json
import os
import random
import shutil
import signal
import subprocess
import sys
import tempfile
import time
import traceback

VERIF = os.path.dirname(os.path.dirname(os.path.abspath(__file__)))
REPO = os.environ.get('VERIF_REPO', '/repo')
PY = sys.executable
MAX_SAMPLES = 6


# --------------------------------------------------------------------------
# recorder used inside a spec run
# --------------------------------------------------------------------------

class Rec:
    def __init__(self, spec=None):
        self.spec = spec or {}
        self.violations = []
        self.counters = {}
        self.sigs = {}
        self.samples = []
        self.evaluations = 0
        self.unmonitored = []
        self.notes = []
        self.anomalies = []

    # -- reporting ---------------------------------------------------------
    def violation(self, kind, attrs=None, **detail):
        """A concrete execution refuting the property.

        kind  : mechanism-level symptom name (used by the known-findings
                classifier together with attrs)
        attrs : scenario attributes that select the failing call site
        detail: free-form witness (history, values, stacks)
        """
        v = {'kind': kind, 'attrs': dict(attrs or {}), 'detail': _jsonable(detail)}
        if len(self.violations) < 200:
            self.violations.append(v)
        self.count('violations_seen')
        return v

    def anomaly(self, kind, **detail):
        """Something odd that is *not* a violation (e.g. an unconfirmed
        timing anomaly).  Reported in evidence only."""
        if len(self.anomalies) < 50:
            self.anomalies.append({'kind': kind, 'detail': _jsonable(detail)})
        self.count('anomaly:' + kind)

    def count(self, key, n=1):
        self.counters[key] = self.counters.get(key, 0) + n

    def maxi(self, key, v):
        if v > self.counters.get(key, -10**18):
            self.counters[key] = v

    def sig(self, s, n=1):
        """Register the abstract signature of one non-trivial case."""
        if not isinstance(s, str):
            s = json.dumps(_jsonable(s), sort_keys=True, separators=(',', ':'))
        if len(s) > 160:
            s = s[:100] + '#' + hashlib.sha1(s.encode()).hexdigest()[:16]
        self.sigs[s] = self.sigs.get(s, 0) + n

    def sample(self, obj, force=False):
        if force or len(self.samples) < MAX_SAMPLES:
            self.samples.append(_jsonable(obj))

    def case(self, n=1):
        self.evaluations += n

    def missing(self, what):
        if what not in self.unmonitored:
            self.unmonitored.append(what)

    def note(self, text):
        if len(self.notes) < 20:
            self.notes.append(text)

    def to_json(self):
        return {
            'violations': self.violations, 'counters': self.counters,
            'sigs': self.sigs, 'samples': self.samples,
            'evaluations': self.evaluations, 'unmonitored': self.unmonitored,
            'notes': self.notes, 'anomalies': self.anomalies,
        }


def _jsonable(o, depth=0):
    if depth > 8:
        return repr(o)[:200]
    if isinstance(o, (str, int, float, bool)) or o is None:
        if isinstance(o, str) and len(o) > 4000:
            return o[:4000] + '...'
        return o
    if isinstance(o, bytes):
        return 'b:' + o[:64].hex() + ('...' if len(o) > 64 else '')
    if isinstance(o, dict):
        return {str(k): _jsonable(v, depth + 1) for k, v in list(o.items())[:200]}
    if isinstance(o, (list, tuple, set, frozenset)):
        return [_jsonable(v, depth + 1) for v in list(o)[:400]]
    return repr(o)[:400]


# --------------------------------------------------------------------------
# running specs in sessions
# --------------------------------------------------------------------------

def _child_env(workdir):
    env = dict(os.environ)
    env['PYTHONDONTWRITEBYTECODE'] = '1'
    env['PYTHONHASHSEED'] = '0'
    env['BILLIARD_VERIF'] = '1'
    env['PYTHONFAULTHANDLER'] = '1'
    env['PYTHONMALLOC'] = 'debug'
    pp = [VERIF, REPO] + [p for p in env.get('PYTHONPATH', '').split(':')
                          if p and p not in (VERIF, REPO)]
    env['PYTHONPATH'] = ':'.join(pp)
    env['TMPDIR'] = workdir
    env['VERIF_WORKDIR'] = workdir
    return env


def _kill_session(pgid):
    try:
        os.killpg(pgid, signal.SIGKILL)
    except (ProcessLookupError, PermissionError):
        pass


def _leftover_session_members(sid):
    out = []
    for d in os.listdir('/proc'):
        if not d.isdigit():
            continue
        try:
            with open('/proc/%s/stat' % d) as f:
                st = f.read()
            rest = st[st.rindex(')') + 2:].split()
            if int(rest[3]) == sid:      # session id
                out.append(int(d))
        except (OSError, ValueError, IndexError):
            pass
    return out


def kill_session_members(sid):
    for pid in _leftover_session_members(sid):
        try:
            os.kill(pid, signal.SIGKILL)
        except (ProcessLookupError, PermissionError):
            pass


def run_specs(modname, specs, jobs=12, default_timeout=120, progress=None):
    """Run every spec in its own process + session; returns list of
    (spec, result_dict | None, status) with status in ok/watchdog/crash."""
    base = tempfile.mkdtemp(prefix='vmon-')
    pending = list(enumerate(specs))
    running = {}
    out = [None] * len(specs)
    try:
        while pending or running:
            while pending and len(running) < jobs:
                idx, spec = pending.pop(0)
                wd = os.path.join(base, 's%05d' % idx)
                os.makedirs(wd)
                sf = os.path.join(wd, 'spec.json')
                rf = os.path.join(wd, 'result.json')
                with open(sf, 'w') as f:
                    json.dump(spec, f)
                log = open(os.path.join(wd, 'log.txt'), 'wb')
                p = subprocess.Popen(
                    [PY, '-X', 'faulthandler', '-m', 'vmon.runspec',
                     modname, sf, rf],
                    stdin=subprocess.DEVNULL, stdout=log, stderr=log,
                    env=_child_env(wd), cwd=wd, start_new_session=True)
                log.close()
                running[idx] = (p, spec, wd, rf, time.monotonic(),
                                spec.get('timeout', default_timeout))
            time.sleep(0.02)
            for idx in list(running):
                p, spec, wd, rf, t0, to = running[idx]
                rc = p.poll()
                status = None
                if rc is not None:
                    status = 'ok' if rc == 0 else 'crash'
                elif time.monotonic() - t0 > to:
                    status = 'watchdog'
                if status is None:
                    continue
                # kill whatever is left in the session (orphaned workers)
                _kill_session(p.pid)
                kill_session_members(p.pid)
                if rc is None:
                    try:
                        p.wait(5)
                    except subprocess.TimeoutExpired:
                        pass
                res = None
                if os.path.exists(rf):
                    try:
                        with open(rf) as f:
                            res = json.load(f)
                    except ValueError:
                        res = None
                if res is None and status == 'ok':
                    status = 'crash'
                logtail = ''
                if status != 'ok':
                    try:
                        with open(os.path.join(wd, 'log.txt'), 'rb') as f:
                            logtail = f.read()[-6000:].decode('utf8', 'replace')
                    except OSError:
                        pass
                # a partial result may have been checkpointed by the spec
                out[idx] = (spec, res, status, logtail, rc)
                del running[idx]
                shutil.rmtree(wd, ignore_errors=True)
                if progress:
                    progress(idx, status)
    finally:
        for idx, (p, *_rest) in running.items():
            _kill_session(p.pid)
            kill_session_members(p.pid)
        shutil.rmtree(base, ignore_errors=True)
    return out


# --------------------------------------------------------------------------
# known findings
# --------------------------------------------------------------------------

def load_known():
    path = os.path.join(VERIF, 'known_findings.json')
    try:
        with open(path) as f:
            d = json.load(f)
    except OSError:
        return []
    return d.get('findings', [])


def classify(prop, v, known):
    """Return the known-finding entry a violation belongs to, or None.
    Keys are mechanisms: property + kind + selecting attributes."""
    for k in known:
        if k.get('property') != prop or k.get('kind') != v['kind']:
            continue
        m = k.get('match', {})
        ok = True
        for key, want in m.items():
            have = v['attrs'].get(key)
            if isinstance(want, list):
                if have not in want:
                    ok = False
            elif have != want:
                ok = False
        if ok:
            return k
    return None


# --------------------------------------------------------------------------
# the check driver
# --------------------------------------------------------------------------

def _merge(results, agg):
    for (spec, res, status, logtail, rc) in results:
        agg['specs'] += 1
        if status != 'ok':
            agg['bad_specs'].append({'spec': spec, 'status': status,
                                     'rc': rc, 'log': logtail[-3000:]})
        if not res:
            continue
        agg['evaluations'] += res.get('evaluations', 0)
        for k, n in res.get('counters', {}).items():
            if k.startswith('max:'):
                agg['counters'][k] = max(agg['counters'].get(k, n), n)
            else:
                agg['counters'][k] = agg['counters'].get(k, 0) + n
        for s, n in res.get('sigs', {}).items():
            agg['sigs'][s] = agg['sigs'].get(s, 0) + n
        for s in res.get('samples', []):
            if len(agg['samples']) < MAX_SAMPLES:
                agg['samples'].append(s)
        for u in res.get('unmonitored', []):
            if u not in agg['unmonitored']:
                agg['unmonitored'].append(u)
        for n in res.get('notes', []):
            if n not in agg['notes'] and len(agg['notes']) < 20:
                agg['notes'].append(n)
        for a in res.get('anomalies', []):
            if len(agg['anomalies']) < 30:
                agg['anomalies'].append(a)
        for v in res.get('violations', []):
            agg['violations'].append((spec, v))


def run_check(mod, tier, seed, replay=None, jobs=None):
    prop = mod.PROPERTY
    t0 = time.monotonic()
    if replay:
        with open(replay) as f:
            rp = json.load(f)
        specs = [rp['spec']]
    else:
        specs = mod.plan(tier, seed)
        only = os.environ.get('VERIF_ONLY_LANE')     # development aid (floors are skipped)
        if only:
            specs = [s for s in specs if s.get('lane') == only]
    for s in specs:
        s.setdefault('tier', tier)
    jobs = jobs or getattr(mod, 'JOBS', 14)
    agg = {'specs': 0, 'bad_specs': [], 'evaluations': 0, 'counters': {},
           'sigs': {}, 'samples': [], 'unmonitored': [], 'notes': [],
           'anomalies': [], 'violations': []}
    results = run_specs(mod.__name__, specs, jobs=jobs,
                        default_timeout=getattr(mod, 'SPEC_TIMEOUT', 180))
    _merge(results, agg)

    # optional confirm-alone pass for timing-sensitive violations
    confirm_kinds = getattr(mod, 'CONFIRM_ALONE', ())
    if confirm_kinds and not replay:
        keep, redo = [], []
        known0 = load_known()
        for spec, v in agg['violations']:
            # (known findings are not worth a second run)
            (redo if v['kind'] in confirm_kinds and
             classify(prop, v, known0) is None else keep).append((spec, v))
        confirmed = []
        seen_specs = {}
        for spec, v in redo:
            key = json.dumps(spec, sort_keys=True)
            if key not in seen_specs:
                r = run_specs(mod.__name__, [spec], jobs=1,
                              default_timeout=getattr(mod, 'SPEC_TIMEOUT', 180))
                seen_specs[key] = r[0]
            (_s, res, status, _l, _rc) = seen_specs[key]
            again = [x for x in (res or {}).get('violations', [])
                     if x['kind'] == v['kind'] and x['attrs'] == v['attrs']]
            if again:
                v['detail']['confirmed_alone'] = again[0]['detail']
                confirmed.append((spec, v))
            else:
                agg['counters']['unconfirmed_timing_anomaly'] = \
                    agg['counters'].get('unconfirmed_timing_anomaly', 0) + 1
                agg['anomalies'].append({'kind': 'unconfirmed:' + v['kind'],
                                         'detail': v['detail']})
        agg['violations'] = keep + confirmed

    known = load_known()
    new, kf = [], {}
    for spec, v in agg['violations']:
        k = classify(prop, v, known)
        if k is None:
            new.append((spec, v))
        else:
            ent = kf.setdefault(k['id'], {'entry': k, 'n': 0, 'example': v})
            ent['n'] += 1

    # reach floors
    floors = dict(getattr(mod, 'FLOORS', {}).get(tier, {}))
    missed = {k: (agg['counters'].get(k, 0), m) for k, m in floors.items()
              if agg['counters'].get(k, 0) < m}
    inconclusive = []
    if replay or os.environ.get('VERIF_ONLY_LANE'):
        missed = {}
    if agg['bad_specs']:
        inconclusive.append('%d spec(s) ended by watchdog/crash'
                            % len(agg['bad_specs']))
    if missed:
        inconclusive.append('reach floor missed: %r' % missed)
    if agg['evaluations'] == 0:
        inconclusive.append('no case was evaluated')

    # replay files + report lines
    lines = []
    written = set()
    for spec, v in new:
        h = hashlib.sha1(json.dumps([spec, v['kind'], v['attrs']],
                                    sort_keys=True).encode()).hexdigest()[:12]
        path = os.path.join(VERIF, 'replays', '%s-%s-%s.json' % (prop, v['kind'], h))
        if path not in written and len(written) < 25:
            written.add(path)
            os.makedirs(os.path.dirname(path), exist_ok=True)
            with open(path, 'w') as f:
                json.dump({'property': prop, 'module': mod.__name__,
                           'spec': spec, 'violation': v}, f, indent=1)
            if len(lines) < 25:
                lines.append('VIOLATION property=%s replay=%s kind=%s attrs=%s'
                             % (prop, path, v['kind'],
                                json.dumps(v['attrs'], sort_keys=True)))
    for kid, ent in sorted(kf.items()):
        lines.append('KNOWN-FINDING: property=%s %s [%s] (%d occurrence(s) this run)'
                     % (prop, ent['entry']['what'], kid, ent['n']))

    wall = time.monotonic() - t0
    distinct = len(agg['sigs'])
    cov = {
        'evaluations': agg['evaluations'],
        'distinct_nontrivial': distinct,
        'rule': mod.RULE,
        'samples': agg['samples'] or [{'note': 'no sample recorded'}],
        'specs_run': agg['specs'],
        'counters': dict(sorted(agg['counters'].items())),
        'reach_floors': floors,
        'reach_floors_missed': {k: list(v) for k, v in missed.items()},
        'unmonitored': agg['unmonitored'],
        'notes': agg['notes'],
        'anomalies': agg['anomalies'][:10],
        'signature_histogram_top': sorted(
            agg['sigs'].items(), key=lambda kv: -kv[1])[:12],
        'known_findings_seen': {k: e['n'] for k, e in kf.items()},
        'new_violation_kinds': sorted({v['kind'] for _s, v in new}),
        'inconclusive': inconclusive,
        'exhaustive': bool(getattr(mod, 'EXHAUSTIVE', False)),
    }
    ev = {
        'property_id': prop, 'tier': tier, 'seed': seed,
        'level': mod.LEVEL, 'coverage': cov,
        'assumptions': list(getattr(mod, 'ASSUMPTIONS', [])),
        'wall_s': round(wall, 2), 'violations': len(new),
    }
    if not replay and not os.environ.get('VERIF_NO_EVIDENCE'):
        os.makedirs(os.path.join(VERIF, 'evidence'), exist_ok=True)
        tmp = os.path.join(VERIF, 'evidence', '.%s.json.tmp' % prop)
        with open(tmp, 'w') as f:
            json.dump(ev, f, indent=1, sort_keys=True)
        os.replace(tmp, os.path.join(VERIF, 'evidence', '%s.json' % prop))

    for ln in lines:
        print(ln)
    for b in agg['bad_specs'][:5]:
        print('INCONCLUSIVE-SPEC status=%s rc=%s spec=%s' % (
            b['status'], b['rc'], json.dumps(b['spec'])[:300]))
        print(b['log'][-1500:])
    print('%s tier=%s seed=%d specs=%d evaluations=%d distinct=%d '
          'violations=%d known=%d wall=%.1fs' % (
              prop, tier, seed, agg['specs'], agg['evaluations'], distinct,
              len(new), sum(e['n'] for e in kf.values()), wall))
    if new:
        return 1
    if inconclusive:
        print('INCONCLUSIVE property=%s %s' % (prop, '; '.join(inconclusive)))
        return 2
    return 0


# --------------------------------------------------------------------------
# small helpers shared by checks
# --------------------------------------------------------------------------

def rng_for(seed, *parts):
    h = hashlib.sha256(repr((seed,) + parts).encode()).digest()
    return random.Random(int.from_bytes(h[:8], 'big'))


def spec_main(modname, specfile, resultfile):
    import importlib
    import faulthandler
    faulthandler.enable()
    with open(specfile) as f:
        spec = json.load(f)
    mod = importlib.import_module(modname)
    rec = Rec(spec)
    import billiard
    if not os.path.abspath(billiard.__file__).startswith(os.path.abspath(REPO) + os.sep):
        print('billiard imported from %s, expected under %s' % (billiard.__file__, REPO))
        os._exit(4)

    def flush():
        tmp = resultfile + '.tmp'
        with open(tmp, 'w') as f:
            json.dump(rec.to_json(), f)
        os.replace(tmp, resultfile)
    rec.flush = flush
    try:
        from vmon import real as _real
        _real._rec = rec
    except Exception:
        pass
    try:
        mod.run_spec(spec, rec)
    except BaseException:
        # a crashing harness is inconclusive, never a fabricated violation
        rec.note('spec crashed: ' + traceback.format_exc()[-1500:])
        flush()
        traceback.print_exc()
        os._exit(3)
    flush()
    sys.stdout.flush()
    sys.stderr.flush()
    os._exit(0)
