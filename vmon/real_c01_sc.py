"""scenario for the REAL lane of C01 (runs in the host process)"""
import time

from vmon import tasks
from vmon.evlog import log
from vmon.real_pool import _mkpool, _outcome, _collect, _wait_for, _star_value


def sc_mixed(params, obs, save):
    up = []
    pool = _mkpool(params, up)
    recs = []
    for j in params['jobs']:
        k, tag = j['k'], j['tag']
        cb = {'ok': 0, 'err': 0}

        def mk(which, cb=cb):
            def f(*a):
                cb[which] += 1
            return f
        kw = dict(callback=mk('ok'), error_callback=mk('err'), lost_worker_timeout=1.0)
        if k == 'ok':
            h = pool.apply_async(tasks.t_value, (tag, j['dur']), **kw)
        elif k == 'raise':
            h = pool.apply_async(tasks.t_raise, (tag, 'TaskError', j['dur']), **kw)
        elif k == 'unpicklable_arg':
            h = pool.apply_async(tasks.t_value, (tag, 0, lambda: 0), **kw)
        elif k == 'selfkill':
            h = pool.apply_async(tasks.t_selfkill, (tag, j['how'], 'mid', 0.1), **kw)
        elif k == 'overlimit':
            h = pool.apply_async(tasks.t_value, (tag, 20), **kw)
        elif k == 'termjob':
            h = pool.apply_async(tasks.t_value, (tag, 20), **kw)
            issued = False
            if _wait_for(lambda: (h.accepted() and h.worker_pids()) or h.ready(), 15) \
                    and not h.ready():
                pool.terminate_job(h.worker_pids()[0])
                issued = True
        else:
            items = [['%s.%d' % (tag, i), j['dur'] / 3] for i in range(j['n'])]
            if k == 'map':
                h = pool.starmap_async(tasks.t_value, items, 1, callback=mk('ok'),
                                       error_callback=mk('err'))
            elif k == 'imap':
                h = pool.imap(_star_value, items, 1, lost_worker_timeout=1.0)
            else:
                h = pool.imap_unordered(_star_value, items, 1, lost_worker_timeout=1.0)
        recs.append({'k': k, 'tag': tag, 'n': j['n'], 'h': h, 'cb': cb,
                     'term_issued': issued if k == 'termjob' else None,
                     'jid': getattr(h, '_job', None)})
    deadline = time.monotonic() + 60
    for rj in recs:
        h = rj['h']
        # (per-job floor of 25 s: on a loaded machine the shared budget can be
        # used up by the first jobs)
        if rj['k'] in ('imap', 'imap_u'):
            rj['outcome'] = _collect({'kind': rj['k']}, h, max(25.0, deadline - time.monotonic()))
            rj['stable'] = None
        else:
            _wait_for(lambda: h.ready(), max(25.0, deadline - time.monotonic()))
            rj['outcome'] = _outcome(lambda: h.get(0)) if h.ready() else ['unresolved']
    time.sleep(1.5)
    for rj in recs:
        if rj['k'] not in ('imap', 'imap_u'):
            again = _outcome(lambda: rj['h'].get(0)) if rj['h'].ready() else ['unresolved']
            rj['stable'] = again == rj['outcome']
    obs['cache_left'] = len(pool._cache)
    obs['jobs'] = [{k: v for k, v in rj.items() if k != 'h'} for rj in recs]
    save()
    pool.terminate()
