"""the harness's own rendering of an exit status ("naming the exit status"),
independent of billiard.common.human_status: 'exitcode N' for N >= 0,
'signal N' for a death by signal N (a symbolic name in parentheses may follow;
real-time signals have none)"""
import re


def human_status(status):
    status = status or 0
    if status < 0:
        return 'signal %d' % -status
    return 'exitcode %d' % status


def names_status(msg, status):
    """does `msg` name exactly this status (not a longer number)?"""
    return re.search(re.escape(human_status(status)) + r'(?!\d)', msg) is not None
