"""child entry of a REAL scenario: python -m vmon.realchild mod func params out"""
import faulthandler
import importlib
import json
import os
import sys
import threading
import time
import traceback


def main():
    modname, func, pfile, ofile = sys.argv[1:5]
    timeout = float(os.environ.get('VERIF_SCENARIO_TIMEOUT', '60'))
    faulthandler.enable()
    # the watchdog dumps every thread's stack (the hang witness) and exits 97
    def watchdog():
        time.sleep(timeout)
        sys.stderr.write('Timeout (scenario watchdog %.0fs)!\n' % timeout)
        faulthandler.dump_traceback(all_threads=True)
        # kernel-side view of our children (pool workers): part of the witness
        try:
            me = os.getpid()
            for d in os.listdir('/proc'):
                if not d.isdigit():
                    continue
                try:
                    st = open('/proc/%s/stat' % d).read()
                    rest = st[st.rindex(')') + 2:].split()
                    if int(rest[1]) != me:
                        continue
                    status = open('/proc/%s/status' % d).read()
                    sig = ' '.join(ln.replace('\t', '') for ln in status.splitlines()
                                   if ln.startswith(('SigBlk', 'SigIgn', 'SigCgt', 'SigPnd', 'ShdPnd')))
                    sys.stderr.write('child pid=%s state=%s wchan=%s %s\n' % (
                        d, rest[0], open('/proc/%s/wchan' % d).read(), sig))
                except Exception:
                    pass
        except Exception:
            pass
        sys.stderr.flush()
        os._exit(97)
    threading.Thread(target=watchdog, daemon=True).start()
    with open(pfile) as f:
        params = json.load(f)
    mod = importlib.import_module(modname)
    obs = {}
    chaos = None
    if os.environ.get('VERIF_CHAOS_SEED'):
        # schedule perturbation in the host's pool threads (vmon/chaos.py)
        from vmon import chaos
        if not chaos.install(int(os.environ['VERIF_CHAOS_SEED'])):
            chaos = None

    def save(completed):
        obs['completed'] = completed
        if chaos is not None:
            obs['_chaos'] = chaos.summary()
        tmp = ofile + '.tmp'
        with open(tmp, 'w') as f:
            json.dump(obs, f, default=repr)
        os.replace(tmp, ofile)
    obs['_save'] = None
    del obs['_save']
    try:
        getattr(mod, func)(params, obs, lambda: save(False))
    except BaseException:
        obs['scenario_exception'] = traceback.format_exc()[-3000:]
        save(False)
        traceback.print_exc()
        sys.stderr.flush()
        os._exit(98)
    save(True)
    sys.stderr.flush()
    os._exit(0)


if __name__ == '__main__':
    main()
