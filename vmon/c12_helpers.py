"""Importable task functions, exception classes and result builders for the
C12 check (they must be importable by pool workers of every start method, so
they live here and not in the check module or __main__).

Nothing in this file looks at billiard: it only *produces* exceptions with a
known type / args / call path, and results that cannot be pickled at a known
nesting depth.  The description of what to raise / return is a plain picklable
dict built by the check (`vmon.checks.c12`); unpicklable leaves are described
by `Bad(kind)` placeholders and materialised here, inside the worker.
"""
import functools
import os
import re
import sys
import threading

THIS_FILE = None        # set at the bottom (co_filename of the functions here)
DYN_FILE = '<c12-dyn>'


# --------------------------------------------------------------------------
# exception classes
# --------------------------------------------------------------------------

class UserErr(Exception):
    pass


class UserErrInit(Exception):
    def __init__(self, a=0, b=None):
        super().__init__(a, b)


class UserErrState(Exception):
    def __init__(self, *args):
        super().__init__(*args)
        self.extra = {'n': len(args)}


class UserErrReduce(Exception):
    def __init__(self, a=1, b=2):
        super().__init__(a, b)
        self.a, self.b = a, b

    def __reduce__(self):
        return (UserErrReduce, (self.a, self.b))


class UserErrStr(Exception):
    def __str__(self):
        return 'custom<%d>' % len(self.args)


class UserErrBadStr(Exception):
    def __str__(self):
        raise RuntimeError('c12: str() of this exception fails')


class _Mixin:
    def describe(self):
        return 'mixin'


class UserKeyErr(KeyError, _Mixin):
    pass


class UserOSErr(OSError):
    pass


class UserBase(BaseException):
    pass


class UserExit(SystemExit):
    pass


class UserInterrupt(KeyboardInterrupt):
    pass


USER_CLASSES = {c.__name__: c for c in (
    UserErr, UserErrInit, UserErrState, UserErrReduce, UserErrStr, UserErrBadStr,
    UserKeyErr,
    UserOSErr, UserBase, UserExit, UserInterrupt)}


def resolve_class(name):
    if name in USER_CLASSES:
        return USER_CLASSES[name]
    import builtins
    return getattr(builtins, name)


# --------------------------------------------------------------------------
# unpicklable things
# --------------------------------------------------------------------------

class Bad:
    """picklable placeholder for a value that cannot be pickled; replaced by
    the real thing with materialise() in the process that needs it"""

    def __init__(self, kind, arg=None):
        self.kind, self.arg = kind, arg

    def __repr__(self):
        return 'Bad(%r, %r)' % (self.kind, self.arg)

    def __eq__(self, other):
        return isinstance(other, Bad) and (self.kind, self.arg) == (other.kind, other.arg)

    def __hash__(self):
        return hash((self.kind, self.arg))


class Box:
    """picklable container with attributes"""

    def __init__(self, **kw):
        self.__dict__.update(kw)

    def __eq__(self, other):
        return isinstance(other, Box) and self.__dict__ == other.__dict__

    def __repr__(self):
        return 'Box(%r)' % (self.__dict__,)


REDUCE_ERRORS = ('ValueError', 'TypeError', 'RuntimeError', 'ZeroDivisionError',
                 'PicklingError', 'UserErr', 'AttributeError', 'KeyError',
                 'OSError', 'NotImplementedError')


class ReduceRaises:
    def __init__(self, errname):
        self.errname = errname

    def __reduce__(self):
        if self.errname == 'PicklingError':
            import pickle
            raise pickle.PicklingError('c12: refuses to be pickled')
        raise resolve_class(self.errname)('c12: refuses to be pickled')

    def __repr__(self):
        return '<ReduceRaises %s>' % self.errname


class GetstateRaises:
    def __getstate__(self):
        raise RuntimeError('c12: no state for you')

    def __repr__(self):
        return '<GetstateRaises>'


class ReprRaises(ReduceRaises):
    """cannot be pickled AND cannot be repr()ed"""

    def __repr__(self):
        raise RuntimeError('c12: no repr either')


def _local_instance():
    class Local:
        pass
    return Local()


def _nested_list(depth, leaf):
    x = [leaf]
    for _ in range(depth):
        x = [x]
    return x


def make_bad(kind, arg=None):
    if kind == 'lambda':
        return lambda: 0
    if kind == 'gen':
        return (i for i in ())
    if kind == 'lock':
        return threading.Lock()
    if kind == 'reduce_raises':
        return ReduceRaises(arg or 'ValueError')
    if kind == 'getstate_raises':
        return GetstateRaises()
    if kind == 'file':
        return open(os.devnull)
    if kind == 'local_instance':
        return _local_instance()
    if kind == 'module':
        return sys
    if kind == 'memoryview':
        return memoryview(b'abc')
    if kind == 'frame':
        return sys._getframe()
    # hostile representations (scenario class "hostile")
    if kind == 'repr_raises':
        return ReprRaises(arg or 'ValueError')
    if kind == 'nested_beyond_recursion_limit':
        # every leaf is picklable; the nesting alone makes pickle fail
        return _nested_list(sys.getrecursionlimit() * 3, 0)
    if kind == 'unpicklable_nested_beyond_recursion_limit':
        return _nested_list(sys.getrecursionlimit() * 3, lambda: 0)
    raise ValueError('unknown bad kind %r' % (kind,))


def materialise(obj):
    """replace Bad placeholders inside lists/tuples/dicts/Boxes/partials"""
    if isinstance(obj, Bad):
        return make_bad(obj.kind, obj.arg)
    if isinstance(obj, list):
        return [materialise(x) for x in obj]
    if isinstance(obj, tuple):
        return tuple(materialise(x) for x in obj)
    if isinstance(obj, dict):
        return {k: materialise(v) for k, v in obj.items()}
    if isinstance(obj, Box):
        return Box(**{k: materialise(v) for k, v in obj.__dict__.items()})
    if isinstance(obj, functools.partial):
        return functools.partial(obj.func, *materialise(obj.args),
                                 **materialise(obj.keywords))
    return obj


def has_bad(obj):
    if isinstance(obj, Bad):
        return True
    if isinstance(obj, (list, tuple)):
        return any(has_bad(x) for x in obj)
    if isinstance(obj, dict):
        return any(has_bad(v) for v in obj.values())
    if isinstance(obj, Box):
        return any(has_bad(v) for v in obj.__dict__.values())
    if isinstance(obj, functools.partial):
        return has_bad(obj.args) or has_bad(obj.keywords)
    return False


def build_exc(leaf):
    cls = resolve_class(leaf['cls'])
    return cls(*materialise(tuple(leaf['args'])))


# --------------------------------------------------------------------------
# call paths.  Every step function has the signature (path, i, leaf) and calls
# the function for path[i] (or the leaf raiser) *directly*, so that the frames
# of the resulting traceback are exactly the ones listed in STEP_NAMES.
# --------------------------------------------------------------------------

def nxt(path, i, leaf):
    if i < len(path):
        return STEPS[path[i]]
    return LEAVES[leaf['how']]


def _f(path, i, leaf):
    return nxt(path, i, leaf)(path, i + 1, leaf)


def _g(path, i, leaf):
    x = nxt(path, i, leaf)
    return x(path, i + 1, leaf)


class _K:
    def meth(self, path, i, leaf):
        return nxt(path, i, leaf)(path, i + 1, leaf)

    @property
    def prop(self):
        path, i, leaf = self.state
        return nxt(path, i, leaf)(path, i + 1, leaf)

    def __init__(self, *state):
        self.state = state
        if state and state[-1] == 'init':
            path, i, leaf = state[:3]
            nxt(path, i, leaf)(path, i + 1, leaf)


def _m(path, i, leaf):
    # bound method: the frame is K.meth; this trampoline is NOT wanted in the
    # traceback, so STEPS['m'] points at a bound method directly (see below)
    raise AssertionError('unused')


def _gen(path, i, leaf):
    yield 1
    yield nxt(path, i, leaf)(path, i + 1, leaf)


def _via_gen(path, i, leaf):
    for _x in _gen(path, i, leaf):
        pass


def _clo(path, i, leaf):
    captured = (path, i, leaf)

    def inner():
        p, j, lf = captured
        return nxt(p, j, lf)(p, j + 1, lf)
    return inner()


def _via_sort(path, i, leaf):
    return sorted([1], key=lambda _x: nxt(path, i, leaf)(path, i + 1, leaf))


def _noop():
    return None


def _fin(path, i, leaf):
    # the frame's current line (f_lineno) ends up in the finally block, the
    # traceback entry (tb_lineno) stays on the call
    try:
        return nxt(path, i, leaf)(path, i + 1, leaf)
    finally:
        _noop()
        _noop()


def _reraise(path, i, leaf):
    try:
        return nxt(path, i, leaf)(path, i + 1, leaf)
    except BaseException:
        _noop()
        raise


def _hide(path, i, leaf):
    __traceback_hide__ = True      # noqa: copied by billiard's _Frame
    return nxt(path, i, leaf)(path, i + 1, leaf)


class _CM:
    def __enter__(self):
        return self

    def __exit__(self, *exc):
        _noop()
        return False


def _via_cm(path, i, leaf):
    with _CM():
        return nxt(path, i, leaf)(path, i + 1, leaf)


def _deco(fn):
    @functools.wraps(fn)
    def wrapper(*a, **kw):
        return fn(*a, **kw)
    return wrapper


@_deco
def _wrapped(path, i, leaf):
    return nxt(path, i, leaf)(path, i + 1, leaf)


def _via_prop(path, i, leaf):
    return _K(path, i, leaf).prop


def _via_init(path, i, leaf):
    return _K(path, i, leaf, 'init')


_lam = lambda path, i, leaf: nxt(path, i, leaf)(path, i + 1, leaf)     # noqa

_ns = {'nxt': nxt}
exec(compile('def _dyn(path, i, leaf):\n'
             '    return nxt(path, i, leaf)(path, i + 1, leaf)\n',
             DYN_FILE, 'exec'), _ns)
_dyn = _ns['_dyn']

STEPS = {
    'f': _f, 'g': _g, 'm': _K().meth, 'gen': _via_gen, 'clo': _clo,
    'sort': _via_sort, 'fin': _fin, 'rer': _reraise, 'hide': _hide,
    'cm': _via_cm, 'deco': _wrapped, 'prop': _via_prop, 'init': _via_init,
    'lam': _lam, 'dyn': _dyn,
}
from vmon import c12_twin_a, c12_twin_b      # noqa: E402  (they import this module)
STEPS['ta'] = c12_twin_a._twin
STEPS['tb'] = c12_twin_b._twin
# names of the frames each step leaves in the traceback
STEP_NAMES = {
    'ta': ['_twin'], 'tb': ['_twin'],
    'f': ['_f'], 'g': ['_g'], 'm': ['meth'], 'gen': ['_via_gen', '_gen'],
    'clo': ['_clo', 'inner'], 'sort': ['_via_sort', '<lambda>'],
    'fin': ['_fin'], 'rer': ['_reraise'], 'hide': ['_hide'],
    'cm': ['_via_cm'], 'deco': ['wrapper', '_wrapped'],
    'prop': ['_via_prop', 'prop'], 'init': ['_via_init', '__init__'],
    'lam': ['<lambda>'], 'dyn': ['_dyn'],
}


# -- leaves: the raising frames ------------------------------------------------

def _raise_plain(path, i, leaf):
    exc = build_exc(leaf)
    raise exc  # RAISE:_raise_plain


def _raise_from(path, i, leaf):
    exc = build_exc(leaf)
    raise exc from KeyError('c12-inner-cause')  # RAISE:_raise_from


def _raise_in_handler(path, i, leaf):
    exc = build_exc(leaf)
    try:
        {}['c12-context']
    except KeyError:
        raise exc  # RAISE:_raise_in_handler


def _raise_class(path, i, leaf):
    # `raise Cls` (no instance): the interpreter instantiates it, args == ()
    cls = resolve_class(leaf['cls'])
    raise cls  # RAISE:_raise_class


def _native_int(path, i, leaf):
    return int('c12-not-a-number')  # RAISE:_native_int


def _native_key(path, i, leaf):
    return {}[('c12', 7)]  # RAISE:_native_key


def _native_div(path, i, leaf):
    return 1 / 0  # RAISE:_native_div


def _native_attr(path, i, leaf):
    return None.c12_missing  # RAISE:_native_attr


def _native_unicode(path, i, leaf):
    return b'\xff\xfe c12'.decode('utf-8')  # RAISE:_native_unicode


def _recurse(path, i, leaf):
    return _recurse(path, i, leaf)  # RAISE:_recurse


LEAVES = {
    'plain': _raise_plain, 'from': _raise_from, 'handler': _raise_in_handler,
    'class': _raise_class,
    'native_int': _native_int, 'native_key': _native_key,
    'native_div': _native_div, 'native_attr': _native_attr,
    'native_unicode': _native_unicode, 'recursion': _recurse,
}
LEAF_NAMES = {k: v.__name__ for k, v in LEAVES.items()}
NATIVE_LEAVES = ('native_int', 'native_key', 'native_div', 'native_attr',
                 'native_unicode')


def expected_names(path, leaf):
    out = []
    for s in path:
        out.extend(STEP_NAMES[s])
    out.append(LEAF_NAMES[leaf['how']])
    return out


def _scan_raise_lines():
    out = {}
    with open(THIS_FILE) as f:
        for no, line in enumerate(f, 1):
            m = re.search(r'# RAISE:(\w+)\s*$', line)
            if m:
                out[m.group(1)] = no
    return out


def run_path(path, leaf):
    """entry point used by every lane: the frame of this function is the first
    helper frame of the traceback"""
    return nxt(path, 0, leaf)(path, 1, leaf)


def native_exception(how):
    """the exception a native leaf raises, produced locally (reference)"""
    try:
        LEAVES[how]([], 0, {'how': how})
    except BaseException as exc:
        return exc
    raise AssertionError('native leaf did not raise')


# --------------------------------------------------------------------------
# pool task
# --------------------------------------------------------------------------

def task(desc):
    """the one task function given to pools / the isolated Worker"""
    op = desc['op']
    if op == 'pid':
        return ('pid', desc['tag'], os.getpid())
    if op == 'raise':
        return run_path(desc['path'], desc['leaf'])
    if op == 'ret':
        return materialise(desc['val'])
    if op == 'echo':
        return ('echo', desc['tag'], desc['val'])
    if op == 'barrier':
        # returns once `n` different worker processes sit in this barrier at
        # the same time: every one of them has then finished all earlier jobs
        import time
        d, tok, n = desc['dir'], desc['token'], desc['n']
        open(os.path.join(d, '%s.%d' % (tok, os.getpid())), 'w').close()
        t_end = time.monotonic() + desc.get('timeout', 60)
        while time.monotonic() < t_end:
            if len([f for f in os.listdir(d) if f.startswith(tok + '.')]) >= n:
                return ('barrier', 'met', os.getpid())
            time.sleep(0.01)
        return ('barrier', 'timeout', os.getpid())
    raise ValueError('unknown op %r' % (op,))


def star_task(*descs):
    return task(descs[0])


THIS_FILE = _f.__code__.co_filename
RAISE_LINES = _scan_raise_lines()
