"""Lane L2 "REAL": run one scenario function in its own child process with a
real billiard Pool (real threads, real forked workers, real signals).  The
spec process is the monitor: it survives a dying / hanging host, collects the
event log written by the host and its workers, and applies the oracles."""
import json
import os
import signal
import subprocess
import sys
import time

from vmon import evlog


_rec = None           # set by core.spec_main: the spec's recorder (chaos counters)


def chaos_seed_for(mod, func, params):
    """every third scenario (decided by its parameters, so that a replay makes
    the same choice) runs with schedule perturbation in the host's pool threads"""
    if os.environ.get('VERIF_CHAOS') == '0' or params.get('no_chaos'):
        return None
    if os.environ.get('VERIF_CHAOS') == '1':
        return 1
    import zlib
    h = zlib.crc32(json.dumps([mod, func, params], sort_keys=True, default=repr).encode())
    return (h >> 4) + 1 if h % 3 == 0 else None


def run_scenario(mod, func, params, timeout=60, tag='sc'):
    wd = os.environ.get('VERIF_WORKDIR') or '/tmp'
    base = os.path.join(wd, '%s-%d-%d' % (tag, os.getpid(), int(time.monotonic() * 1000) % 10**9))
    pfile, ofile, lfile, efile = (base + x for x in ('.params', '.out', '.evlog', '.stderr'))
    with open(pfile, 'w') as f:
        json.dump(params, f)
    env = dict(os.environ)
    env['VERIF_EVLOG'] = lfile
    env['VERIF_SCENARIO_TIMEOUT'] = str(timeout)
    env.pop('VERIF_CHAOS_SEED', None)
    cseed = chaos_seed_for(mod, func, params)
    if cseed is not None:
        env['VERIF_CHAOS_SEED'] = str(cseed)
    t0 = time.monotonic()
    with open(efile, 'wb') as err:
        p = subprocess.Popen([sys.executable, '-X', 'faulthandler', '-m', 'vmon.realchild',
                              mod, func, pfile, ofile],
                             stdin=subprocess.DEVNULL, stdout=err, stderr=err, env=env)
        status = 'ok'
        try:
            rc = p.wait(timeout + 8)
        except subprocess.TimeoutExpired:
            status = 'hang'
            p.kill()
            rc = p.wait()
    wall = time.monotonic() - t0
    obs = None
    try:
        with open(ofile) as f:
            obs = json.load(f)
    except (OSError, ValueError):
        pass
    with open(efile, 'rb') as f:
        stderr = f.read()[-8000:].decode('utf8', 'replace')
    if status == 'ok':
        if rc == 0 and obs is not None and obs.get('completed'):
            status = 'ok'
        elif rc == 98:
            status = 'scenario_error'
        elif rc == 97:
            status = 'hang'          # the child's own faulthandler watchdog
        elif 'Timeout (' in stderr and rc != 0:
            status = 'hang'
        else:
            status = 'died'
    events = evlog.read(lfile)
    ch = (obs or {}).get('_chaos')
    if _rec is not None:
        _rec.count('real:scenarios_plain' if cseed is None else 'real:scenarios_perturbed')
        if ch:
            _rec.count('chaos:naps', ch['naps'])
            _rec.count('chaos:long_naps', ch['long_naps'])
            _rec.count('chaos:lines_seen', ch['lines'])
            _rec.maxi('max:chaos_nap_sites_in_one_scenario', ch['sites'])
            _rec.maxi('max:chaos_thread_function_pairs', ch['thread_function_pairs'])
    for x in (pfile, ofile, lfile, efile):
        try:
            os.unlink(x)
        except OSError:
            pass
    return {'status': status, 'rc': rc, 'obs': obs or {}, 'events': events,
            'stderr': stderr, 'wall': wall, 'chaos': cseed}


def pid_exists(pid):
    try:
        with open('/proc/%d/stat' % pid) as f:
            st = f.read()
        state = st[st.rindex(')') + 2]
        return state           # R S D Z T ...
    except (OSError, ValueError, IndexError):
        return None


def children_of(pid):
    out = []
    for d in os.listdir('/proc'):
        if not d.isdigit():
            continue
        try:
            with open('/proc/%s/stat' % d) as f:
                st = f.read()
            rest = st[st.rindex(')') + 2:].split()
            if int(rest[1]) == pid:
                out.append((int(d), rest[0]))
        except (OSError, ValueError, IndexError):
            pass
    return out


def exc_name(e):
    """(type name, args) of the real exception behind a pool failure"""
    if type(e).__name__ == 'ExceptionWithTraceback':
        e = getattr(e, 'exc', e)
    return type(e).__name__, getattr(e, 'args', ())


class Heartbeat:
    """20 ms heartbeat thread recording the worst scheduling stall"""

    def __init__(self):
        import threading
        self.worst = 0.0
        self._stop = threading.Event()
        self._t = threading.Thread(target=self._run, daemon=True)
        self._t.start()

    def _run(self):
        last = time.monotonic()
        while not self._stop.wait(0.02):
            now = time.monotonic()
            self.worst = max(self.worst, now - last - 0.02)
            last = now

    def stop(self):
        self._stop.set()
        return self.worst
