"""Child-side code for check C19 (must be importable by spawn/forkserver
children).  The child announces itself on a FIFO, blocks on a second FIFO that
only the harness can write to (so the harness *knows* it is alive), then leaves
through the exit path it was given."""
import os
import signal
import sys
import time
import traceback


class CustomError(Exception):
    pass


class BadStrError(Exception):
    """an exception whose str()/repr() themselves fail"""
    def __str__(self):
        raise RuntimeError('str failed')
    __repr__ = __str__


class QuietBase(BaseException):
    pass


def _no_core():
    try:
        import resource
        resource.setrlimit(resource.RLIMIT_CORE, (0, 0))
    except Exception:
        pass


def _default_disposition(signum):
    if signum not in (signal.SIGKILL, signal.SIGSTOP):
        signal.signal(signum, signal.SIG_DFL)
    try:
        signal.pthread_sigmask(signal.SIG_UNBLOCK, [signum])
    except (AttributeError, ValueError, OSError):
        pass


def _recurse(n):
    return _recurse(n + 1) + 1


def _nested_exit(n):
    try:
        try:
            sys.exit(n)
        except Exception:           # SystemExit is not an Exception
            os._exit(97)
    finally:
        pass


def _raise(name):
    if name == 'ValueError':
        raise ValueError('vmon c19')
    if name == 'KeyError':
        {}['vmon-c19']
    if name == 'ZeroDivisionError':
        1 // 0
    if name == 'CustomError':
        raise CustomError('vmon c19', 3)
    if name == 'BadStrError':
        raise BadStrError()
    if name == 'BaseException':
        raise BaseException('vmon c19')
    if name == 'QuietBase':
        raise QuietBase()
    if name == 'KeyboardInterrupt':
        raise KeyboardInterrupt()
    if name == 'GeneratorExit':
        raise GeneratorExit()
    if name == 'AssertionError':
        assert False, 'vmon c19'
    if name == 'OSError':
        os.close(10 ** 6)
    if name == 'MemoryError':
        raise MemoryError()
    if name == 'StopIteration':
        next(iter(()))
    if name == 'RecursionError':
        _recurse(0)
    if name == 'ExceptionGroup':
        raise ExceptionGroup('vmon c19', [ValueError(1), KeyError(2)])
    if name == 'chained':
        try:
            1 // 0
        except ZeroDivisionError as exc:
            raise CustomError('chained') from exc
    raise RuntimeError('unknown exception name %r' % (name,))


def leave(kind, arg):
    """take the exit path (kind, arg)"""
    if kind == 'return':
        return arg                   # the return value must not matter
    if kind == 'raise':
        _raise(arg)
    if kind == 'sysexit':
        flavour, n = arg
        if flavour == 'call':
            sys.exit(n)
        if flavour == 'raise':
            raise SystemExit(n)
        if flavour == 'nested':
            _nested_exit(n)
        # exit statuses that are integers without being plain ints
        if flavour == 'intenum':
            import enum
            sys.exit(enum.IntEnum('ExitCode', {'CODE': n}).CODE)
        if flavour == 'intsub':
            sys.exit(type('Status', (int,), {})(n))
        if flavour == 'bool':
            sys.exit(bool(n))
        raise RuntimeError('unknown sysexit flavour')
    if kind == 'selfsig':
        _no_core()
        _default_disposition(arg)
        os.kill(os.getpid(), arg)
        time.sleep(120)
        os._exit(99)                 # not reached when the signal kills
    if kind == 'abort':
        _no_core()
        os.abort()
    raise RuntimeError('unknown exit path %r' % (kind,))


def _break_stdout():
    """fault at the very end of the child's life: its stdout is a
    block-buffered stream with unflushed data whose flush fails (EPIPE)"""
    r, w = os.pipe()
    os.close(r)
    sys.stdout = os.fdopen(w, 'w', buffering=65536)
    sys.stdout.write('unflushed output of the child\n' * 4)


def child(kind, arg, ready_path, release_path, delay):
    if kind == 'extsig':
        # the harness will send the signal: make sure it kills
        _no_core()
        _default_disposition(arg)
    fd = os.open(ready_path, os.O_WRONLY)
    os.write(fd, b'R')
    rfd = os.open(release_path, os.O_RDONLY)
    while True:
        b = os.read(rfd, 1)          # only the harness can make this return
        if b:
            break
        time.sleep(0.01)             # (no writer yet: cannot happen, harness holds O_RDWR)
    if kind == 'extsig':
        time.sleep(300)              # a released extsig child is a harness bug
        os._exit(98)
    if delay:
        time.sleep(delay)
    if release_path.endswith('F'):
        _break_stdout()
    return leave(kind, arg)


def trivial():
    return None


def foreign_start(proc, out_path):
    """runs in a billiard child: try to start a process object that was
    created by the parent"""
    try:
        proc.start()
    except AssertionError as exc:
        res = 'AssertionError:%s' % (exc,)
    except BaseException as exc:     # any refusal is a refusal
        res = '%s:%s' % (type(exc).__name__, exc)
    else:
        res = 'STARTED'
        try:
            proc.join(30)
        except BaseException:
            pass
    with open(out_path, 'w') as f:
        f.write(res)


# Process subclasses overriding run() (instead of target=); importable so that
# spawn/forkserver can unpickle them
def _make_runners():
    from billiard import context
    out = {}
    for meth, base in (('fork', context.ForkProcess),
                       ('spawn', context.SpawnProcess),
                       ('forkserver', context.ForkServerProcess)):
        def run(self):
            return child(*self._args, **self._kwargs)
        cls = type(base)('Run' + base.__name__, (base,), {'run': run,
                                                          '__module__': __name__})
        globals()[cls.__name__] = cls
        out[meth] = cls
    return out


RUNNERS = _make_runners()


# -- nested start methods: a billiard child that is a parent itself -------------

def _nested_leaf(kind):
    if kind == 'exit7':
        sys.exit(7)
    if kind in ('kill', 'term'):
        _no_core()
        time.sleep(120)
        os._exit(99)
    return None


def nested_parent(inner, conn):
    """runs in a billiard child: starts children of its own with start method
    `inner` and reports what it is told about their end"""
    import billiard
    import signal as _signal
    out = []
    try:
        ctx = billiard.get_context(inner)
        for kind in ('return', 'exit7', 'kill', 'term'):
            g = ctx.Process(target=_nested_leaf, args=(kind,))
            g.start()
            if kind in ('kill', 'term'):
                time.sleep(0.3)
                os.kill(g.pid, _signal.SIGKILL if kind == 'kill' else _signal.SIGTERM)
            t0 = time.monotonic()
            g.join(30)
            el = time.monotonic() - t0
            code = g.exitcode
            alive = g.is_alive()
            listed = g in billiard.active_children()
            out.append([kind, code, alive, listed, round(el, 2)])
            if code is None:
                try:
                    os.kill(g.pid, _signal.SIGKILL)
                except OSError:
                    pass
        conn.send(('ok', out))
    except BaseException:
        conn.send(('raised', traceback.format_exc()[-1800:], out))


def sleeper(ready_path):
    """an ordinary child with the signal dispositions billiard gave it"""
    fd = os.open(ready_path, os.O_WRONLY | os.O_CREAT, 0o600)
    os.write(fd, b'R')
    os.close(fd)
    for _ in range(600):
        time.sleep(0.1)
    os._exit(98)
