"""Importable side of the C20 check: classes registered with the manager
under test, and the functions that run inside client processes (fork, spawn
and forkserver children must be able to import them)."""
import copy
import json
import os
import pickle
import threading
import time
import traceback

from billiard import managers

# proxies held by *this* process in the reference-count histories, by name.
# Fork children inherit it (that is the point: every proxy alive in the parent
# at fork time is re-referenced by the child's after-fork hook).
HOLDER = {}


# ---------------------------------------------------------------------------
# types registered in addition to SyncManager's own
# ---------------------------------------------------------------------------

class HelperError(Exception):
    """custom exception type raised by a referent"""


class Sub:
    def __init__(self):
        self._items = []

    def add(self, x):
        self._items.append(x)
        return len(self._items)

    def items(self):
        return list(self._items)


class Counter:
    def __init__(self, start=0):
        self.n = start

    def incr(self, k=1):
        self.n += k
        return self.n

    def get(self):
        return self.n

    def boom(self, kind):
        if kind == 'helper':
            raise HelperError('boom', self.n)
        if kind == 'zero':
            return 1 // 0
        if kind == 'key':
            raise KeyError(('k', self.n))
        if kind == 'stop':
            raise StopIteration(self.n)
        raise ValueError(kind)

    def make_sub(self):
        return Sub()

    def _private(self):
        self.n = -999
        return 'private ran'


class Odd:
    """a referent whose methods hand back things that cannot be sent"""

    def __init__(self):
        self.calls = 0

    def ret(self, what):
        self.calls += 1
        if what == 'lock':
            import threading
            return threading.Lock()
        if what == 'gen':
            return (i for i in range(3))
        if what == 'local':
            class Local:
                pass
            return Local()
        if what == 'lambda':
            return lambda: 0
        if what == 'raise_unpicklable':
            import threading
            raise HelperError('holding a lock', threading.Lock())
        return ('plain', self.calls)

    def count(self):
        return self.calls


_SINGLETON = []


def get_singleton():
    return _SINGLETON


class HManager(managers.SyncManager):
    pass


HManager.register('Counter', Counter, method_to_typeid={'make_sub': 'SubRet'})
HManager.register('Sub', Sub)
HManager.register('Odd', Odd)
HManager.register('SubRet', create_method=False)
HManager.register('Singleton', get_singleton, managers.ListProxy)


def sq(x):
    return x * x


def boom_task(x):
    raise ValueError('task %r' % (x,))


# ---------------------------------------------------------------------------
# uniform "touch the referent and read it back" used by the refcount histories
# ---------------------------------------------------------------------------

def use_proxy(p, tag):
    """append a unique tag through the proxy and return the referent's whole
    content (list of tags in insertion order)"""
    tid = p._token.typeid
    if tid in ('list', 'Singleton'):
        p.append(tag)
        return list(p._getvalue())
    if tid == 'dict':
        p[tag] = 1
        return list(p.keys())
    if tid in ('Sub', 'SubRet'):
        p.add(tag)
        return list(p.items())
    raise RuntimeError('harness: unknown typeid %r' % tid)


def copy_proxy(p, how):
    if how == 'pickle':
        return pickle.loads(pickle.dumps(p))
    if how == 'copy':
        return copy.copy(p)
    if how == 'thread':
        box = []
        t = threading.Thread(target=lambda: box.append(pickle.loads(pickle.dumps(p))))
        t.start()
        t.join()
        return box.pop()
    raise RuntimeError('harness: copy how=%r' % how)


def drop_named(holder, name, how):
    """release the proxy called `name`; nothing else may reference it"""
    if how == 'thread':
        t = threading.Thread(target=holder.pop, args=(name,))
        t.start()
        t.join()
    else:
        del holder[name]


def ref_child(conn, given, authkey=None):
    """command loop of a client process in the reference-count histories.
    `given` is {name: proxy} for spawn/forkserver children, None for fork
    children (which use the inherited HOLDER)."""
    global HOLDER
    if given is not None:
        HOLDER = given
    del given
    holder = HOLDER
    conn.send(('ready', sorted(holder), os.getpid()))
    while True:
        try:
            cmd = conn.recv()
        except EOFError:
            return
        try:
            op = cmd[0]
            out = None
            if op == 'use':
                out = use_proxy(holder[cmd[1]], cmd[2])
            elif op == 'copy':
                holder[cmd[2]] = copy_proxy(holder[cmd[1]], cmd[3])
            elif op == 'drop':
                drop_named(holder, cmd[1], cmd[2])
            elif op == 'recv':
                holder[cmd[1]] = conn.recv()
            elif op == 'send':
                conn.send(holder[cmd[1]])
            elif op == 'exit':
                conn.send(('ok', None))
                return
            else:
                raise RuntimeError('harness: bad command %r' % (cmd,))
            conn.send(('ok', out))
        except BaseException as exc:
            conn.send(('err', type(exc).__name__, repr(exc)[:300],
                       traceback.format_exc()[-1500:]))
            if not isinstance(exc, Exception):
                raise


# ---------------------------------------------------------------------------
# concurrent clients
# ---------------------------------------------------------------------------

def conc_thread(cid, tid, seed, sh, p, log, errs):
    """one client thread: a seeded script of single operations carrying
    unique tags; every call and its result is logged with monotonic stamps"""
    from vmon.core import rng_for
    import queue as pyqueue
    rng = rng_for(seed, 'conc', cid, tid)
    me = 'c%dt%d' % (cid, tid)
    L, D, Q, V, V2, LK, RL, SEM, GATE, READY, NS = (
        sh['L'], sh['D'], sh['Q'], sh['V'], sh['V2'], sh['LK'], sh['RL'], sh['SEM'],
        sh['GATE'], sh['READY'], sh['NS'])
    mono = time.monotonic
    seq = [0]

    def tag(kind):
        seq[0] += 1
        return '%s:%s:%d' % (me, kind, seq[0])

    def rec(op, arg, res, t0, t1):
        log.append([me, op, arg, res, t0, t1])
    try:
        READY.append(me)
        ok = GATE.wait(120)
        rec('gate', None, bool(ok), 0, mono())
        qn = 0
        for step in range(p['ops']):
            r = rng.random()
            t0 = mono()
            if r < 0.16:
                x = tag('a')
                res = L.append(x)
                rec('append', x, res, t0, mono())
            elif r < 0.26:
                try:
                    if rng.random() < 0.5:
                        res = L.pop()
                    else:
                        res = L.pop(0)
                except IndexError:
                    res = '#IndexError'
                rec('pop', None, res, t0, mono())
            elif r < 0.36:
                k = 'ck%d' % (step // 2 + rng.randrange(3))
                v = tag('sd')
                res = D.setdefault(k, v)
                rec('setdefault', [k, v], res, t0, mono())
            elif r < 0.44:
                k = 'tok%d' % (step // 2 + rng.randrange(3))
                res = D.pop(k, None)
                rec('poptoken', k, res, t0, mono())
            elif r < 0.62:
                # private key: nobody else touches it, so every answer is
                # fully determined (catches replies delivered to the wrong caller)
                k, v = 'own:' + tag('k'), tag('v')
                D[k] = v
                a = D[k]
                b = D.get(k)
                c = k in D
                d = D.pop(k)
                e = D.get(k, 'gone')
                rec('echo', [k, v], [a, b, c, d, e], t0, mono())
            elif r < 0.72:
                qn += 1
                x = '%s:q:%d' % (me, qn)
                res = Q.put(x)
                rec('qput', x, res, t0, mono())
            elif r < 0.82:
                try:
                    res = Q.get_nowait() if rng.random() < 0.6 else Q.get(True, 0.01)
                except pyqueue.Empty:
                    res = '#Empty'
                rec('qget', None, res, t0, mono())
            elif r < 0.88:
                lk, val = (LK, V) if rng.random() < 0.6 else (RL, V2)
                with lk:
                    a = mono()
                    n = val.value
                    val.value = n + 1
                    b = mono()
                rec('locked_incr', 'LK' if lk is LK else 'RL', n, a, b)
            elif r < 0.93:
                got = SEM.acquire(True, 0.05)
                a = mono()
                if got:
                    time.sleep(rng.random() * 0.002)
                    b = mono()
                    SEM.release()
                    rec('sem_hold', None, True, a, b)
                else:
                    rec('sem_hold', None, False, a, a)
            else:
                # own attribute on a shared namespace
                name, v = 'a_' + me, tag('ns')
                setattr(NS, name, v)
                res = getattr(NS, name)
                rec('ns_echo', [name, v], res, t0, mono())
    except BaseException as exc:
        errs.append([me, type(exc).__name__, repr(exc)[:300],
                     traceback.format_exc()[-1500:]])


def conc_client(cid, nthreads, seed, sh, params, outpath, stuck_after):
    log, errs = [], []
    ths = [threading.Thread(target=conc_thread, daemon=True,
                            args=(cid, t, seed, sh, params, log, errs))
           for t in range(nthreads)]
    for t in ths:
        t.start()
    deadline = time.monotonic() + stuck_after
    stuck = []
    for i, t in enumerate(ths):
        t.join(max(0.0, deadline - time.monotonic()))
        if t.is_alive():
            stuck.append(i)
    tmp = outpath + '.tmp'
    with open(tmp, 'w') as f:
        json.dump({'cid': cid, 'log': list(log), 'errs': list(errs),
                   'stuck': stuck, 'pid': os.getpid()}, f)
    os.replace(tmp, outpath)
    if stuck:
        os._exit(0)      # daemon threads blocked in a recv: do not wait for them
